"""C04 -- a composite object behaves exactly like an array of its unit objects.

Monitors
  matrix-product   (P) postcondition on utils.matrix_product, the single funnel
                   of all broadcasting: every call (from Transformation.apply,
                   apply_bilinear, Subspace.intersect, lie.subspace_action, ...)
                   is recomputed by explicit Python loops over np.ndindex of the
                   outer axes with plain ``@`` on the unit slices (unit ranks
                   1, 2, 3 x {elementwise, pairwise, pairwise_reversed}).
  broadcast-match  (P) same for utils.broadcast_match.
  per-index        (W) every vectorised operation the property lists, compared
                   at each index with the operation on the unit object rebuilt
                   from the raw inputs at that index (and on the 1-element
                   composite of that unit).
  apply-modes      (W) Transformation.apply in the three broadcast modes: result
                   shape = NumPy broadcast / object axes + transformation axes /
                   the reverse; entry [i][j] = transformation j on unit i, both
                   against the unit call and against x_i @ M_j computed by hand.
  structure        (W) flatten_to_unit, reshape, __getitem__, __iter__, __len__,
                   stacking Class([objs...]) preserve the units and their order.

Input classes added in round 3 (each is one family of realistic regressions):
  layouts          the same composite handed over Fortran-ordered / as a
                   transposed, axis-permuted, strided or reversed view: all
                   structure checks + apply (monitor structure, keys
                   .../memory-layout).
  generic-ranks    ProjectiveObject / HyperbolicObject / PointCollection /
                   PointPair whose unit, auxiliary, dual ranks are set per
                   instance, through apply in the three modes (monitor
                   apply-modes, keys apply-modes/generic/...).
  special-units    composites of ordinary points with 1..2 exactly lightlike
                   units / exact origins / exactly coincident pairs: the
                   ordinary units must get what they get alone (monitor
                   per-index, operation names carry {class}).
Round 4:
  entry-points     the less common vectorised entry points (gen/c04entries.py:
                   eigenvector, diagonalize, inv, commute, apply(ndarray),
                   regular_polygon / from_angle / polygon formulas with array
                   parameters, get_origin / get_base_tangent with a shape, the
                   queries of Subspace, Hyperplane, PointPair, Segment, Polygon,
                   Horosphere, Geodesic, TangentVector, projective charts and
                   simplices, causal classifiers), each compared per index with
                   the unit call and, where one exists, with its defining
                   relation by hand (monitor per-index, keys per-index/<entry>/...).
                   commute[pairwise] and BoundaryArc composites fired on the
                   pinned tree (F45, F46, repaired) and are part of the table.
Round 5:
  apply-special    apply in the three modes with composite transformations of
                   special VALUES (stacks of exact identities by three routes,
                   an identity among others, one matrix repeated, scalar,
                   permutation): shape + per-index law (monitor apply-modes,
                   operation names carry {class}).
  second-arguments distance / unit_tangent_towards / point_along / isometry_to /
                   angle between composites of different broadcastable shapes,
                   interior size-1 axes included (monitor per-index, names
                   carry [other-broadcast-to-self] / [two-way-broadcast]).
  relatives        histories: relatives of a composite kept alive, item
                   assignments into one of them, every live object re-examined
                   unit by unit (monitor structure, keys structure/relatives/...).
Round 6:
  entry-points +   one special member among ordinary ones, for classes with a
                   per-unit degenerate-case branch: BoundaryArc (exact half
                   circles, arcs symmetric about an axis; also after
                   flip_orientation and an orientation-reversing isometry),
                   Segment / Geodesic (exact diameters, opposite-nappe
                   representatives); keys per-index/<Class>{special-members}/...
Round 7:
  structure +      __getitem__ with every kind of NumPy index over the composite
                   axes (lists, integer arrays incl. negative / repeated / 2-d,
                   boolean masks, negative ints, Ellipsis, lists combined with
                   ints / slices / each other, ranks 1..3), judged against the
                   same key applied to an array of unit numbers; keys
                   structure/__getitem__[<kind>]/{shape,unit-mismatch,exception:*}.
  entry-points +   composite shapes (1,), (3,1), (1,1,2) for every entry;
                   boundary_sphere_parameters, utils.sphere_through /
                   circle_through; Polygon.in_standard_chart on sign-mixed
                   composites against a per-unit numpy reference.

The axis order for pairwise is the one the property fixes (object axes first);
the repository's two baseline-failing tests assume the opposite.
"""
import math
import os
import numpy as np

from ..run import Workload
from .. import attach
from ..ref import hyp as rh
from ..ref import proj as rp
from ..gen import projobjs as G
from ..gen import c04extra as GX
from ..gen import c04entries as GE

ID = "C04"
RULE = ("cases = (operation, object class, dimension 1..4, object composite shape "
        "in {(),(3,),(2,3),(1,3),(2,1,3)}, transformation shape in {(),(3,),(2,1),(4,)}, "
        "broadcast mode); every index of every result is compared with the "
        "operation on the unit rebuilt from the raw inputs at that index; "
        "non-trivial = composite with >= 2 units or a size-1/broadcast axis; "
        "distinct = distinct (operation, class, dimension, shapes, mode) signatures "
        "and distinct matrix_product call signatures (unit ranks, outer ranks, mode); "
        "plus: the same composites in 6 non-C memory layouts (2 construction routes); "
        "generic objects with per-instance (unit, aux, dual) ranks in "
        "{(1..3,0,0),(2,2,0),(2,3,1),(1,2,2),(3,1,0)} through apply in the three modes; "
        "point composites with 1..2 exactly lightlike / exact-origin / coincident units; "
        "20 further vectorised entry points x composite shapes {(3,),(2,3),(),(1,3),(2,1,3),(4,)} "
        "x input variants (repeated eigenvalues, mixed commuting / nearly commuting / "
        "large-commutator pairs, array-valued radius or angle)")
ASSUMPTIONS = [
    "pairwise axis order is the property's: object axes first, then "
    "transformation axes; entry [i][j] = transformation j applied to unit i",
    "origin_to / isometry_to are documented as not uniquely determined: the "
    "determined part (image of the origin / of the base tangent vector, form "
    "preservation) is judged per index; agreement of the full matrix is judged "
    "only where the construction has no free choice (kernel of dimension <= 1)",
    "fixed points are compared projectively (eigenvectors have arbitrary scale) "
    "and only for loxodromic isometries (simple real extreme eigenvalues)",
    "Polygon.circle_parameters is not exercised (its signature mismatch is "
    "outside the property; DESIGN.md section 6)",
    "ConvexPolygon is excluded (constructor re-orders vertices)",
    "in composites with exactly lightlike units or exactly coincident pairs, "
    "metric operations (distance, origin_to, tangent vectors) are judged on the "
    "ordinary units only; tangent vectors based at a degenerate unit are not "
    "pushed through point_along / isometry_to / origin_to (undefined there)",
    "Transformation.commute is judged only for pairs whose commutator is within "
    "tol/100 of, or further than 100 tol from, the identity in all four orders of "
    "composition (the answer in between depends on rounding)",
    "eigenvector(ev) is driven only on composites whose every unit has ev (the "
    "unit call raises, the composite returns a zero vector, when it is absent)",
    "not enforced, reported in findings/: commute(broadcast='pairwise') and composite "
    "BoundaryArc construction raise ValueError on the pinned tree; "
    "hyperbolic.spacelike reduces to one scalar",
    "second arguments of other shapes: unit_tangent_towards / point_along / angle are "
    "driven only with a second argument that broadcasts to the shape of self (they raise "
    "when self would have to be broadcast up); distance and isometry_to both ways; "
    "Segment / TangentVector constructors do not broadcast their two arguments",
    "relatives: each live object is judged against units rebuilt from the primary data "
    "it holds at that moment; that relatives do not share primary data is not demanded",
    "special members: the Poincare circle of an exact diameter (straight line, radius "
    "unbounded) is not judged; every other part of every member is",
    "index keys address composite axes only: an index placed after an Ellipsis reaches "
    "the unit axes and is never driven",
    "generic objects with per-instance ranks are judged through apply and "
    "flatten_to_unit only (reshape / __getitem__ / stacking of such objects go "
    "through the class constructor, whose rank arguments are the caller's)",
]
ANCHORS = [
    ("geometry_tools/utils/core.py", "matrix_product"),
    ("geometry_tools/utils/core.py", "expand_unit_axes"),
    ("geometry_tools/utils/core.py", "squeeze_excess"),
    ("geometry_tools/utils/core.py", "broadcast_match"),
    ("geometry_tools/utils/core.py", "apply_bilinear"),
    ("geometry_tools/utils/core.py", "circle_angles"),
    ("geometry_tools/utils/core.py", "arc_include"),
    ("geometry_tools/projective.py", "ProjectiveObject._construct_from_object"),
    ("geometry_tools/projective.py", "ProjectiveObject.reshape"),
    ("geometry_tools/projective.py", "ProjectiveObject.flatten_to_unit"),
    ("geometry_tools/projective.py", "ProjectiveObject.__getitem__"),
    ("geometry_tools/projective.py", "ProjectiveObject.__len__"),
    ("geometry_tools/projective.py", "Transformation.apply"),
    ("geometry_tools/projective.py", "Transformation._apply_to_data"),
    ("geometry_tools/projective.py", "Subspace.intersect"),
    ("geometry_tools/hyperbolic.py", "Point.coords"),
    ("geometry_tools/hyperbolic.py", "Point.distance"),
    ("geometry_tools/hyperbolic.py", "Point.origin_to"),
    ("geometry_tools/hyperbolic.py", "Point.unit_tangent_towards"),
    ("geometry_tools/hyperbolic.py", "TangentVector.point_along"),
    ("geometry_tools/hyperbolic.py", "TangentVector.origin_to"),
    ("geometry_tools/hyperbolic.py", "Segment._compute_aux_data"),
    ("geometry_tools/hyperbolic.py", "Segment.circle_parameters"),
    ("geometry_tools/hyperbolic.py", "Geodesic.circle_parameters"),
    ("geometry_tools/hyperbolic.py", "HorosphereArc.circle_parameters"),
    ("geometry_tools/hyperbolic.py", "Horosphere.sphere_parameters"),
    ("geometry_tools/hyperbolic.py", "Polygon._compute_aux_data"),
    ("geometry_tools/hyperbolic.py", "Isometry._fixpoint_data"),
    ("geometry_tools/hyperbolic.py", "sl2_iso"),
    ("geometry_tools/lie/core.py", "sl2_irrep"),
    ("geometry_tools/lie/core.py", "sl2_to_so21"),
]
REQUIRED = [
    ("geometry_tools/utils/core.py", "matrix_product", "product = reshape1 @ reshape2"),
    ("geometry_tools/utils/core.py", "matrix_product", "product = squeeze_excess("),
    ("geometry_tools/utils/core.py", "matrix_product", "reshape2 = np.expand_dims(reshape2, axis=tuple(range(excess1)))"),
    ("geometry_tools/utils/core.py", "matrix_product", "axis=tuple(range(excess2, excess1 + excess2)))"),
    ("geometry_tools/utils/core.py", "expand_unit_axes", "return np.expand_dims(array.T"),
    ("geometry_tools/utils/core.py", "broadcast_match", "return (tile1, tile2)"),
    ("geometry_tools/projective.py", "ProjectiveObject._construct_from_object", "hyp_array = np.array([obj.proj_data for obj in unrolled_obj])"),
    ("geometry_tools/projective.py", "Transformation.apply", "aux_product = self._apply_to_data("),
]

TOL_SAME = 1e-9          # same formula, vectorised vs per unit
TOL_PROJ = 1e-9
MAX_LOOP_UNITS = 400


# ---------------------------------------------------------------------------
# postconditions at the funnel

def _numeric(a):
    try:
        a = np.asarray(a)
    except Exception:
        return None
    if a.dtype.kind not in "biufc":
        return None
    return a


def attach_funnel(run, deciding=True):
    """attach the matrix_product / broadcast_match postconditions (also used as
    a non-deciding cross monitor by C03 and C11)."""
    from geometry_tools.utils import core as ucore
    mon = run.monitor("matrix-product", min_events=200 if deciding else 0,
                      deciding=deciding)
    state = {"rng": np.random.default_rng(12345)}

    def hook(call):
        b = call.bound()
        if not b:
            return mon.skip("unbindable call")
        a1 = _numeric(b.get("array1"))
        a2 = _numeric(b.get("array2"))
        u1, u2, mode = b.get("unit_axis_1"), b.get("unit_axis_2"), b.get("broadcast")
        if a1 is None or a2 is None:
            return mon.skip("non-numeric dtype")
        if mode not in rp.MODES:
            return mon.skip("unknown broadcast rule")
        if not (isinstance(u1, (int, np.integer)) and isinstance(u2, (int, np.integer))):
            return mon.skip("unit ranks not integers")
        if u2 != 2 or u1 not in (1, 2, 3):
            return mon.skip("unit ranks outside {1,2,3} x 2")
        if a1.ndim < u1 or a2.ndim < u2:
            return mon.skip("array smaller than its unit")
        o1, o2 = a1.shape[:a1.ndim - u1], a2.shape[:a2.ndim - u2]
        if a1.shape[-1] != a2.shape[-2]:
            return mon.skip("unit shapes do not multiply")
        try:
            rshape = rp.result_shape(o1, o2, mode)
        except ValueError:
            return mon.skip("outer shapes do not broadcast")
        if 0 in rshape or a1.size == 0 or a2.size == 0:
            return mon.skip("empty composite or empty unit")
        sig = "%s/u%dx%d" % (mode, u1, u2)
        case = {"array1": a1, "array2": a2, "unit_axis_1": int(u1),
                "unit_axis_2": int(u2), "broadcast": mode,
                "outer_ranks": [len(o1), len(o2)]}
        if call.exc is not None:
            return mon.fail("matrix-product/exception:%s/%s" % (type(call.exc).__name__, sig),
                            "matrix_product raised %s: %s on multipliable units with "
                            "outer shapes %r, %r" % (type(call.exc).__name__,
                                                     str(call.exc)[:120], o1, o2), case)
        exp, mask = rp.loop_matrix_product(a1, a2, int(u1), int(u2), mode,
                                           max_units=MAX_LOOP_UNITS, rng=state["rng"])
        res = np.asarray(call.result)
        run.note_class("matrix_product", sig, len(o1), len(o2),
                       "size1" if (1 in o1 or 1 in o2) else "-")
        if res.shape != exp.shape:
            return mon.fail("matrix-product/shape/%s" % sig,
                            "matrix_product(%s) result shape %r, per-unit loop gives %r "
                            "(outer %r x %r)" % (sig, res.shape, exp.shape, o1, o2), case)
        scale = float(np.max(np.abs(a1))) * float(np.max(np.abs(a2))) * a1.shape[-1]
        with np.errstate(all="ignore"):
            diff = np.abs(res[mask] - exp[mask])
        if diff.size and not np.all(np.isfinite(diff)):
            if not (np.all(np.isfinite(a1)) and np.all(np.isfinite(a2))):
                return mon.skip("non-finite input")
        err = float(np.max(diff)) / scale if (diff.size and scale > 0) else 0.0
        mon.judge(err, 1e-12, "matrix-product/value/%s" % sig,
                  "matrix_product(%s) differs from the per-unit loop (outer %r x %r)"
                  % (sig, o1, o2), case)

    attach.wrap_everywhere(run, ucore.matrix_product, hook)

    bm = run.monitor("broadcast-match", min_events=5 if deciding else 0,
                     deciding=deciding)

    def hook_bm(call):
        if call.exc is not None:
            return
        b = call.bound()
        a1, a2 = _numeric(b.get("a1")), _numeric(b.get("a2"))
        k = b.get("unit_axes")
        if a1 is None or a2 is None or not isinstance(k, (int, np.integer)):
            return bm.skip("non-numeric")
        if a1.ndim < k or a2.ndim < k or k < 1:
            return bm.skip("array smaller than its unit")
        e1, e2 = rp.loop_broadcast_match(a1, a2, int(k))
        r1, r2 = call.result
        case = {"a1": a1, "a2": a2, "unit_axes": int(k)}
        if np.shape(r1) != e1.shape or np.shape(r2) != e2.shape:
            return bm.fail("broadcast-match/shape",
                           "broadcast_match shapes %r, %r; documented %r, %r"
                           % (np.shape(r1), np.shape(r2), e1.shape, e2.shape), case)
        ok = np.array_equal(np.asarray(r1), e1) and np.array_equal(np.asarray(r2), e2)
        bm.require(ok, "broadcast-match/value",
                   "broadcast_match tiles do not repeat the units in order", case)

    attach.wrap_everywhere(run, ucore.broadcast_match, hook_bm)
    return mon


def setup(run):
    attach_funnel(run, deciding=True)
    run.monitor("per-index", min_events=200)
    run.monitor("apply-modes", min_events=100)
    run.monitor("structure", min_events=100)


# ---------------------------------------------------------------------------
# helpers

def pick(seq, k):
    return seq[k % len(seq)]


def dims_for(kind, idx, lo=1, hi=4):
    lo = max(lo, G.KINDS[kind][0])
    return lo + (idx % (hi - lo + 1))


def arr(x):
    return np.asarray(x)


class Judge:
    """per-index judging with a fixed mechanism key per (operation, part)."""

    def __init__(self, run, monitor, op, sig, case):
        self.run = run
        self.mon = run.monitor(monitor)
        self.op = op
        self.sig = sig
        self.case = case
        self.bad = set()

    def num(self, part, got, want, idx, tol=TOL_SAME, unitdesc="unit"):
        """numeric per-index equality."""
        if (part, unitdesc) in self.bad:
            return
        err = rp.rel_dev(got, want)
        if not self.mon.judge(err, tol, "%s/%s/%s/vs-%s" % (self.mon.name, self.op, part, unitdesc),
                              "%s: composite result at index %r differs from the %s result "
                              "(%s; shapes %r vs %r)" % (self.op, idx, unitdesc, part,
                                                         np.shape(got), np.shape(want)),
                              dict(self.case, index=list(idx), part=part)):
            self.bad.add((part, unitdesc))

    def dev(self, part, err, idx, tol=TOL_PROJ, unitdesc="unit", what=None):
        if (part, unitdesc) in self.bad:
            return
        if not self.mon.judge(err, tol, "%s/%s/%s/vs-%s" % (self.mon.name, self.op, part, unitdesc),
                              what or "%s: composite result at index %r differs from the %s result (%s)"
                              % (self.op, idx, unitdesc, part),
                              dict(self.case, index=list(idx), part=part)):
            self.bad.add((part, unitdesc))

    def shape(self, got, want):
        return self.mon.require(tuple(got) == tuple(want),
                                "%s/%s/shape" % (self.mon.name, self.op),
                                "%s: result composite shape %r, expected %r"
                                % (self.op, tuple(got), tuple(want)), self.case)

    def call(self, part, thunk, unitdesc="unit"):
        """run a library call on a unit; an exception there (while the composite
        call succeeded) is itself a per-index disagreement."""
        try:
            return True, thunk()
        except Exception as e:
            import traceback
            from .. import core
            tb = e.__traceback__
            if core.raised_in_harness(tb):
                raise
            self.mon.fail("%s/%s/exception:%s/on-%s" % (self.mon.name, self.op,
                                                        type(e).__name__, unitdesc),
                          "%s raises %s (%s) on the %s%s"
                          % (self.op, type(e).__name__, str(e)[:120], unitdesc,
                             "" if unitdesc.startswith("composite") else
                             " although the composite call returned"),
                          dict(self.case, part=part), tb=traceback.format_exc())
            return False, None


def one_composite(raw):
    """the unit as a composite of shape (1,)."""
    return {k: v[None] for k, v in raw.items()}


# ---------------------------------------------------------------------------
# apply in the three broadcast modes

ALL_KINDS = list(G.KINDS)
COMBOS = [(k, o, t, m) for k in range(len(ALL_KINDS))
          for o in range(len(G.OBJ_SHAPES)) for t in range(len(G.TRF_SHAPES))
          for m in range(3)]


def wl_apply_modes(run, rng, idx):
    ki, oi_, ti_, mi = COMBOS[(idx * 7919) % len(COMBOS)]
    kind = ALL_KINDS[ki]
    oshape, tshape, mode = G.OBJ_SHAPES[oi_], G.TRF_SHAPES[ti_], rp.MODES[mi]
    n = dims_for(kind, idx // len(COMBOS) + idx, hi=5 if run.tier == "thorough" else 4)
    hyp = G.KINDS[kind][1]
    tkind = "H.Isometry" if hyp else "P.Transformation"
    cx = (not hyp) and (idx % 5 == 4)
    try:
        rp.result_shape(oshape, tshape, mode)
    except ValueError:
        # not broadcastable: substitute the transformation shape by one that is
        tshape = oshape[-1:] if oshape else ()
    raw = G.draw(rng, kind, n, oshape, cx=cx)
    traw = G.draw(rng, tkind, n, tshape, cx=cx)
    _apply_case(run, idx, kind, tkind, n, oshape, tshape, mode, raw, traw, cx)


def _apply_case(run, idx, kind, tkind, n, oshape, tshape, mode, raw, traw, cx,
                optag="", T=None, extra=None):
    """apply in one broadcast mode: class, shape, every entry against the unit
    call and against x_i @ M_j by hand.  optag: input-class suffix of the
    operation name (mechanism keys); T: the transformation object when it was
    not built from `traw` by the usual constructor."""
    mon = run.monitor("apply-modes")
    want_shape = rp.result_shape(oshape, tshape, mode)
    case = {"kind": kind, "dimension": n, "object_shape": list(oshape),
            "transformation_shape": list(tshape), "broadcast": mode, "raw": raw,
            "transformation": traw}
    if extra:
        case.update(extra)
    run.current_case = case
    X = G.build(kind, raw)
    if T is None:
        T = G.build(tkind, traw)
    Y = T.apply(X, broadcast=mode)
    J = Judge(run, "apply-modes", "apply[%s]%s" % (mode, optag), (kind,), case)
    sig = ("apply" + optag, kind, n, oshape, tshape, mode, "complex" if cx else "real")
    if not mon.require(type(Y) is type(X), "apply-modes/class/%s" % mode,
                       "apply(%s) of %s returns %s" % (mode, type(X).__name__, type(Y).__name__), case):
        return
    if not J.shape(Y.shape, want_shape):
        return
    prim = G.primary(kind, raw)
    M = G.row_matrix(tkind, traw)
    for ridx, oi, ti in rp.operand_indices(oshape, tshape, mode):
        Xu = G.build(kind, G.unit_raw(raw, oi))
        Tu = G.build(tkind, G.unit_raw(traw, ti))
        Yu = Tu.apply(Xu)
        J.dev("primary", G.compare_primary(kind, Y.proj_data[ridx], Yu.proj_data), ridx)
        if G.KINDS[kind][3] is not None:
            if Y.aux_data is None:
                mon.fail("apply-modes/aux-missing/%s" % mode,
                         "composite result has no auxiliary data", case)
                return
            J.dev("auxiliary", G.compare_aux(kind, Y.aux_data[ridx], Yu.aux_data), ridx)
        # by hand: unit i's rows times the row matrix of transformation j
        if prim is not None:
            hand = prim[oi] @ M[ti]
            cond = float(np.linalg.cond(M[ti]))
            J.dev("primary", G.compare_primary(kind, Y.proj_data[ridx], hand), ridx,
                  tol=1e-11 * max(cond, 1.0) + 1e-10, unitdesc="x_i@M_j",
                  what="apply[%s]: entry %r is not transformation %r applied to unit %r"
                  % (mode, ridx, ti, oi))
    run.note_class(*sig)
    if idx < 3 and not optag:
        run.sample({"kind": kind, "dimension": n, "object_shape": list(oshape),
                    "transformation_shape": list(tshape), "broadcast": mode})


# composite transformations with special VALUES.  A shortcut keyed on the value
# of the whole array (``if (matrix == identity).all(): return data``, a
# diagonal / permutation fast path, de-duplication of repeated matrices) skips
# the funnel and with it the broadcasting: values stay right, the composite
# shape of the transformation is lost.  Random generic stacks never take such a
# path.  (seeded change C04-r5-1: identity fast path in _apply_to_data; a stack
# of exact identities applied pairwise returned the object's own shape.)
TRF_VALUE_CLASSES = ("all-identity", "identity-among", "repeated", "scalar", "permutation")
IDENTITY_ROUTES = ("array", "empty-words", "stacked-identity-objects")


def special_transformations(rng, tkind, n, tshape, tcls):
    """raw input {"M": ...} (the kind's own convention) of a composite
    transformation of the value class."""
    hyp = tkind == "H.Isometry"
    dim = n + 1
    eye = np.broadcast_to(np.eye(dim), tuple(tshape) + (dim, dim)).copy()
    if tcls == "all-identity":
        return {"M": eye}
    if tcls == "scalar":
        c = -1.0 if hyp else float(rng.choice([-1.0, 2.0, 0.5]))
        return {"M": c * eye}
    if tcls == "permutation":
        M = eye
        for i in np.ndindex(*tshape):
            perm = np.concatenate([[0], 1 + rng.permutation(n)]) if hyp else rng.permutation(dim)
            M[i] = np.eye(dim)[perm]
        return {"M": M}
    gen = G.draw(rng, tkind, n, tshape)
    if tcls == "repeated":
        one = G.draw(rng, tkind, n, ())["M"]
        return {"M": np.broadcast_to(one, tuple(tshape) + (dim, dim)).copy()}
    # identity-among: one unit (every unit of a single transformation) exact identity
    M = gen["M"]
    M[tuple(int(rng.integers(s)) for s in tshape)] = np.eye(dim)
    return {"M": M}


def wl_apply_special(run, rng, idx):
    """apply in the three modes with composite transformations that are stacks
    of exact identities (three construction routes), contain an identity,
    repeat one matrix, are scalar or permutation matrices."""
    from geometry_tools import projective as P, hyperbolic as H
    tcls = pick(TRF_VALUE_CLASSES, idx)
    ki, oi_, ti_, mi = COMBOS[(idx * 7919 + 331) % len(COMBOS)]
    kind = ALL_KINDS[ki]
    oshape, tshape, mode = G.OBJ_SHAPES[oi_], G.TRF_SHAPES[ti_], rp.MODES[mi]
    n = dims_for(kind, idx // 7 + idx)
    hyp = G.KINDS[kind][1]
    tkind = "H.Isometry" if hyp else "P.Transformation"
    try:
        rp.result_shape(oshape, tshape, mode)
    except ValueError:
        tshape = oshape[-1:] if oshape else ()
    raw = G.draw(rng, kind, n, oshape)
    traw = special_transformations(rng, tkind, n, tshape, tcls)
    T, route = None, "array"
    if tcls == "all-identity" and len(tshape) == 1:
        route = pick(IDENTITY_ROUTES, idx // len(TRF_VALUE_CLASSES))
        if route == "empty-words":
            # images of the empty word under a representation
            if hyp:
                rep = H.HyperbolicRepresentation()
                rep["a"] = G.build("H.Isometry", G.draw(rng, "H.Isometry", n, ()))
                T = rep.isometries([""] * tshape[0])
            else:
                rep = P.ProjectiveRepresentation()
                rep["a"] = G.build("P.Transformation", G.draw(rng, "P.Transformation", n, ()))
                T = rep.transformations([""] * tshape[0])
        elif route == "stacked-identity-objects":
            one = H.identity(n) if hyp else P.identity(n)
            T = type(one)([one] * tshape[0])
        if T is not None and not (tuple(T.shape) == tuple(tshape) and
                                  np.array_equal(np.asarray(T.proj_data, dtype=float), traw["M"])):
            # the route did not give a stack of exact identities: not this class
            run.monitor("apply-modes").skip("identity route %s gives other data" % route)
            T, route = None, "array"
    _apply_case(run, idx, kind, tkind, n, oshape, tshape, mode, raw, traw, False,
                optag="{%s}" % tcls, T=T, extra={"transformation_class": tcls, "route": route})


# ---------------------------------------------------------------------------
# vectorised geometry, per index

MODELS = ("projective", "klein", "poincare", "halfspace", "hyperboloid")
POINT_CLASSES = ("bulk", "mixed-sign-and-scale", "near-boundary", "near-origin")


def wl_points(run, rng, idx):
    """coords in all models, distance, origin_to, unit_tangent_towards,
    point_along, isometry_to, angle."""
    from geometry_tools import hyperbolic as H
    shape = pick(G.OBJ_SHAPES, idx)
    n = 1 + (idx // len(G.OBJ_SHAPES)) % 4
    P, Q = G.separated_pair(rng, n, shape, G.interior)
    # hostile representative / radius classes
    pcls = POINT_CLASSES[(idx // (4 * len(G.OBJ_SHAPES))) % len(POINT_CLASSES)]
    if pcls == "mixed-sign-and-scale":
        P = P * rng.choice([-1.0, 1.0], size=shape + (1,)) * \
            np.exp(rng.uniform(np.log(0.1), np.log(10.0), size=shape + (1,)))
        Q = Q * rng.choice([-1.0, 1.0], size=shape + (1,)) * \
            np.exp(rng.uniform(np.log(0.1), np.log(10.0), size=shape + (1,)))
    elif pcls in ("near-boundary", "near-origin"):
        lo, hi = (1e-6, 1e-2) if pcls == "near-boundary" else (1e-8, 1e-3)
        for _ in range(20):
            rP = np.exp(rng.uniform(np.log(lo), np.log(hi), size=shape + (1,)))
            rQ = np.exp(rng.uniform(np.log(lo), np.log(hi), size=shape + (1,)))
            if pcls == "near-boundary":
                rP, rQ = 1.0 - rP, 1.0 - rQ
            P = rh.klein_to_proj(rh.rand_sphere(rng, n, shape) * rP)
            Q = rh.klein_to_proj(rh.rand_sphere(rng, n, shape) * rQ)
            if n >= 2 or np.all(np.abs(rh.proj_to_klein(P) - rh.proj_to_klein(Q)) > 1e-9):
                break
    _points_case(run, rng, idx, n, shape, P, Q, pcls)


def _points_case(run, rng, idx, n, shape, P, Q, pcls, special=None, optag="",
                 tangent_domain=True):
    """the per-index comparison of every vectorised point operation.

    special: boolean mask over `shape` of units that are degenerate for the
    metric operations (exactly lightlike, exactly coincident pair): their
    coordinates are still compared, everything else is judged on the other
    (ordinary) units only -- which must give what they give alone.
    tangent_domain=False: the base points contain degenerate units, so tangent
    vectors there are undefined and only their construction is compared.
    optag: input-class suffix of the operation names (mechanism keys)."""
    from geometry_tools import hyperbolic as H
    if special is None:
        special = np.zeros(shape, dtype=bool)
    has_special = bool(np.any(special))
    ordinary = ~special
    tangent_ok = bool(np.all(rp.klein_sep(P, Q)[ordinary] > 1e-2)) and pcls != "near-origin"
    # conditioning of everything built from isometries at these points: their
    # entries grow like 1/(1-r^2); earlier queries renormalise the composite's
    # data in place (1 ulp), which this factor amplifies
    with np.errstate(all="ignore"):
        kP = 1.0 / (1.0 - np.sum(rh.proj_to_klein(P) ** 2, axis=-1))
        kQ = 1.0 / (1.0 - np.sum(rh.proj_to_klein(Q) ** 2, axis=-1))
        kappa = float(max(np.max(kP[ordinary]), np.max(kQ[ordinary]), 1.0))
    case = {"dimension": n, "shape": list(shape), "point_class": pcls, "P": P, "Q": Q}
    if has_special:
        case["degenerate_units"] = np.argwhere(special).tolist()
    run.current_case = case
    p, q = H.Point(P.copy()), H.Point(Q.copy())
    sig = (n, shape, pcls)

    def unit_pts(i):
        return H.Point(P[i].copy()), H.Point(Q[i].copy())

    def degenerate(J, i):
        if special[i]:
            J.mon.skip("degenerate unit (exactly lightlike / coincident): only the "
                       "ordinary units of the composite are judged")
            return True
        return False

    # coordinates (all units: a lightlike unit is a point of the closure)
    for model in MODELS:
        J = Judge(run, "per-index", "Point.coords(%s)%s" % (model, optag), sig, case)
        c = arr(p.coords(model))
        if not J.shape(c.shape[:-1], shape):
            continue
        for i in np.ndindex(*shape):
            pu, _ = unit_pts(i)
            J.num("coords", c[i], arr(pu.coords(model)), i)
        run.note_class("coords", model, *sig)
    # construction through model coordinates (setter path), per index
    if not has_special:
        kl = rh.proj_to_klein(P)
        for model, data in (("klein", kl), ("poincare", rh.klein_to_poincare(kl))):
            J = Judge(run, "per-index", "Point(model=%s)%s" % (model, optag), sig, case)
            comp = H.Point(data.copy(), model=model)
            for i in np.ndindex(*shape):
                J.dev("primary", rp.max_row_dev(comp.proj_data[i],
                                                H.Point(data[i].copy(), model=model).proj_data), i)
    # distance
    J = Judge(run, "per-index", "Point.distance" + optag, sig, case)
    d = arr(p.distance(q))
    with np.errstate(all="ignore"):
        dref = np.asarray(rh.dist_proj(P, Q))
    if J.shape(d.shape, shape):
        for i in np.ndindex(*shape):
            if degenerate(J, i):
                continue
            if dref[i] < 1e-3:
                # arccosh(1+eps): one ulp in the product moves the result by
                # eps/d (NaN below 1): C01's domain, not a vectorisation matter
                J.mon.skip("near-coincident pair (arccosh ill-conditioned)")
                continue
            pu, qu = unit_pts(i)
            J.num("distance", d[i], arr(pu.distance(qu)), i, tol=1e-7 + 1e-13 * kappa)
        run.note_class("distance", *sig)
    # origin_to
    for fo in (True, False):
        J = Judge(run, "per-index", "Point.origin_to" + optag, sig, case)
        T = p.origin_to(force_oriented=fo)
        if not J.shape(T.shape, shape):
            continue
        for i in np.ndindex(*shape):
            if degenerate(J, i):
                continue
            pu, _ = unit_pts(i)
            Tu = pu.origin_to(force_oriented=fo)
            _isometry_per_index(run, J, T.proj_data[i], Tu.proj_data, i, P[i][None], free=(n >= 2),
                                scale=kappa)
        run.note_class("origin_to", fo, *sig)
    if n >= 2 and tangent_ok and not tangent_domain:
        # tangent vectors at a degenerate base point are undefined: only the
        # construction is compared, on the ordinary units
        J = Judge(run, "per-index", "Point.unit_tangent_towards" + optag, sig, case)
        tv = p.unit_tangent_towards(q)
        if J.shape(tv.shape, shape):
            for i in np.ndindex(*shape):
                if degenerate(J, i):
                    continue
                pu, qu = unit_pts(i)
                tu = pu.unit_tangent_towards(qu)
                kt = TOL_PROJ * kappa
                J.dev("primary", rp.tangent_dev(tv.proj_data[i], tu.proj_data), i, tol=kt)
                J.dev("auxiliary", rp.tangent_dev(tv.aux_data[i], tu.aux_data,
                                                  project=(False, False)), i, tol=kt)
            run.note_class("tangent-construction", *sig)
    elif n >= 2 and tangent_ok:
        # unit tangent, point_along, isometry_to, angle
        J = Judge(run, "per-index", "Point.unit_tangent_towards" + optag, sig, case)
        tv = p.unit_tangent_towards(q)
        R, _ = G.separated_pair(rng, n, shape, G.interior)
        tw = p.unit_tangent_towards(H.Point(R.copy()))
        dist_arr = rng.uniform(-1.5, 1.5, size=shape)
        dist_scalar = float(rng.uniform(-1.5, 1.5))
        along_a = tv.point_along(dist_arr)
        along_s = tv.point_along(dist_scalar)
        iso = tv.isometry_to(tw)
        tv_to = tv.origin_to()
        ang = arr(tv.angle(tw))
        Jp = Judge(run, "per-index", "TangentVector.point_along" + optag, sig, case)
        Ji = Judge(run, "per-index", "TangentVector.isometry_to" + optag, sig, case)
        Jo = Judge(run, "per-index", "TangentVector.origin_to" + optag, sig, case)
        Ja = Judge(run, "per-index", "TangentVector.angle" + optag, sig, case)
        if J.shape(tv.shape, shape) and Jp.shape(along_a.shape, shape) and \
                Jp.shape(along_s.shape, shape) and Ji.shape(iso.shape, shape) and \
                Ja.shape(ang.shape, shape):
            for i in np.ndindex(*shape):
                if degenerate(J, i):
                    continue
                pu, qu = unit_pts(i)
                tu = pu.unit_tangent_towards(qu)
                wu = pu.unit_tangent_towards(H.Point(R[i].copy()))
                kt = TOL_PROJ * kappa
                J.dev("primary", rp.tangent_dev(tv.proj_data[i], tu.proj_data), i, tol=kt)
                J.dev("auxiliary", rp.tangent_dev(tv.aux_data[i], tu.aux_data,
                                                  project=(False, False)), i, tol=kt)
                Jp.dev("array-distance", rp.max_row_dev(
                    along_a.proj_data[i], tu.point_along(float(dist_arr[i])).proj_data), i, tol=kt)
                Jp.dev("scalar-distance", rp.max_row_dev(
                    along_s.proj_data[i], tu.point_along(dist_scalar).proj_data), i, tol=kt)
                frame_u = tu.aux_data
                _isometry_per_index(run, Jo, tv_to.proj_data[i], tu.origin_to().proj_data, i,
                                    frame_u, free=(n >= 3), scale=kappa)
                _isometry_per_index(run, Ji, iso.proj_data[i], tu.isometry_to(wu).proj_data, i,
                                    None, free=(n >= 3), src=tu.aux_data, dst=wu.aux_data,
                                    scale=kappa * kappa)
                with np.errstate(all="ignore"):
                    aref = float(rh.angle_at(P[i], Q[i], R[i]))
                if not (1e-2 < aref < np.pi - 1e-2):
                    Ja.mon.skip("nearly parallel tangent vectors (arccos ill-conditioned)")
                else:
                    Ja.num("angle", ang[i], arr(tu.angle(wu)), i, tol=1e-6 * kappa)
            run.note_class("tangent", *sig)
    if idx < 2:
        run.sample({"workload": "points" + optag, "dimension": n, "shape": list(shape), "P": P})


# composites that contain a unit on which the vectorised routine takes a
# special branch.  A whole-array decision (``if mask.all()``, one global
# ``where``/``any`` test, a scalar fallback) makes one such unit change what the
# *other* units get; alone, each of those gives the ordinary result.  (seeded
# change C04-r3-3: utils.normalize skipped the division for the whole array as
# soon as one vector was exactly lightlike.)
SPECIAL_CLASSES = ("null-unit", "null-target", "exact-origin", "coincident-pair")
SPECIAL_SHAPES = [(3,), (2, 3), (1, 3), (2, 1, 3)]


def wl_special_units(run, rng, idx):
    """every point operation on composites of ordinary points + 1..2 units that
    are exactly lightlike / the exact origin / an exactly coincident pair."""
    scls = pick(SPECIAL_CLASSES, idx)
    shape = pick(SPECIAL_SHAPES, idx // len(SPECIAL_CLASSES))
    n = 1 + (idx // 4 + idx // 16) % 4
    P, Q = G.separated_pair(rng, n, shape, G.interior)
    if (idx // 2) % 2:
        # representatives of both signs: nothing may rely on the ordinary
        # units being normalised or in the upper nappe already
        P = P * rng.choice([-1.0, 1.0], size=shape + (1,))
        Q = Q * rng.choice([-1.0, 1.0], size=shape + (1,))
    mask = GX.special_positions(rng, shape)
    special, tangent_domain = mask, True
    for i in np.argwhere(mask):
        i = tuple(int(x) for x in i)
        if scls == "null-unit":
            P[i] = GX.exact_null(rng, n)
            tangent_domain = False
        elif scls == "null-target":
            Q[i] = GX.exact_null(rng, n)
        elif scls == "exact-origin":
            P[i] = GX.exact_origin(rng, n)
            special = None          # an ordinary point: every unit is judged
        else:
            Q[i] = P[i] * float(rng.choice([-1.0, 1.0])) * 2.0 ** int(rng.integers(-1, 2))
            tangent_domain = False
    _points_case(run, rng, idx, n, shape, P, Q, scls, special=special,
                 optag="{%s}" % scls, tangent_domain=tangent_domain)
    run.note_class("special-units", scls, n, shape)


# operations that take a second composite (or an array-valued parameter): the
# two composite shapes need not be equal, only broadcastable, and the entry at a
# broadcast index is the operation on the two units that NumPy broadcasting
# pairs there.  Every way of bringing the second argument "to the shape of
# self" other than broadcasting (np.resize, reshape, tile, ravel + repeat)
# agrees with it for scalars, equal shapes and missing leading axes, and
# differs as soon as a size-1 axis is not leading.  (seeded change C04-r5-2:
# point_along np.resize'd the distances: (2, 1) distances against (2, 3)
# vectors were cycled d0, d1, d0, ... instead of d0, d0, d0, d1, ...)
# second argument broadcastable to the shape of self (all operations) ...
PAIRS_TO_SELF = [((2, 3), (2, 1)), ((2, 3), (1, 3)), ((2, 3), (3,)), ((2, 1, 3), (2, 1, 1)),
                 ((2, 2, 3), (2, 1)), ((2, 3), ()), ((3, 2), (3, 1)), ((2, 2, 3), (2, 1, 3)),
                 ((2, 1, 3), (1, 3)), ((2, 3), (1, 1))]
# ... and pairs in which self is broadcast up as well (operations that combine
# the two symmetrically: distance, isometry_to)
PAIRS_TWO_WAY = [((2, 1), (1, 3)), ((3,), (2, 3)), ((2, 1), (2, 3)), ((), (3,)),
                 ((1, 3), (2, 1)), ((2, 1, 1), (3,))]
SHAPE_PAIRS = [(a, b, False) for a, b in PAIRS_TO_SELF] + [(a, b, True) for a, b in PAIRS_TWO_WAY]


def wl_second_arguments(run, rng, idx):
    """distance, unit_tangent_towards, point_along, isometry_to, angle between
    composites of different, broadcastable shapes (interior size-1 axes
    included), entry by entry against the operation on the paired units."""
    from geometry_tools import hyperbolic as H
    s1, s2, two_way = pick(SHAPE_PAIRS, idx)
    n = pick((2, 3, 2, 1, 4), idx // len(SHAPE_PAIRS))
    want = tuple(np.broadcast_shapes(s1, s2))
    pairs = list(rp.operand_indices(s1, s2, "elementwise"))

    def bc(a, shp):
        return np.broadcast_to(a, want + np.shape(a)[len(shp):])

    for _ in range(100):
        P, P2 = G.separated_pair(rng, n, s1, G.interior)
        Q, Q2 = G.separated_pair(rng, n, s2, G.interior)
        if np.all(rp.klein_sep(bc(P, s1), bc(Q, s2)) > 0.1):
            break
    dist = rng.uniform(-1.5, 1.5, size=s2)
    case = {"dimension": n, "shape_self": list(s1), "shape_other": list(s2),
            "P": P, "P2": P2, "Q": Q, "Q2": Q2, "distances": dist}
    run.current_case = case
    tag = "[%s]" % ("two-way-broadcast" if two_way else "other-broadcast-to-self")
    sig = (n, s1, s2)
    with np.errstate(all="ignore"):
        kappa = float(max(np.max(1.0 / (1.0 - np.sum(rh.proj_to_klein(P) ** 2, axis=-1))),
                          np.max(1.0 / (1.0 - np.sum(rh.proj_to_klein(Q) ** 2, axis=-1))), 1.0))
    p, q = H.Point(P.copy()), H.Point(Q.copy())

    def pt(A, i):
        return H.Point(A[i].copy())

    # distance
    J = Judge(run, "per-index", "Point.distance" + tag, sig, case)
    d = arr(p.distance(q))
    if J.shape(d.shape, want):
        for ridx, i1, i2 in pairs:
            J.num("distance", d[ridx], arr(pt(P, i1).distance(pt(Q, i2))), ridx,
                  tol=1e-7 + 1e-13 * kappa)
    if n < 2:
        run.note_class("second-arguments", *sig)
        return
    kt = TOL_PROJ * kappa
    # tangent vectors of shape s1 (at P towards P2) and s2 (at Q towards Q2)
    tv = p.unit_tangent_towards(H.Point(P2.copy()))
    tw = q.unit_tangent_towards(H.Point(Q2.copy()))

    def tvu(i1):
        return pt(P, i1).unit_tangent_towards(pt(P2, i1))

    def twu(i2):
        return pt(Q, i2).unit_tangent_towards(pt(Q2, i2))

    Ji = Judge(run, "per-index", "TangentVector.isometry_to" + tag, sig, case)
    iso = tv.isometry_to(tw)
    if Ji.shape(iso.shape, want):
        for ridx, i1, i2 in pairs:
            tu, wu = tvu(i1), twu(i2)
            _isometry_per_index(run, Ji, iso.proj_data[ridx], tu.isometry_to(wu).proj_data, ridx,
                                None, free=(n >= 3), src=tu.aux_data, dst=wu.aux_data,
                                scale=kappa * kappa)
    if not two_way:
        J = Judge(run, "per-index", "Point.unit_tangent_towards" + tag, sig, case)
        t2 = p.unit_tangent_towards(q)
        if J.shape(t2.shape, want):
            for ridx, i1, i2 in pairs:
                tu = pt(P, i1).unit_tangent_towards(pt(Q, i2))
                J.dev("primary", rp.tangent_dev(t2.proj_data[ridx], tu.proj_data), ridx, tol=kt)
                J.dev("auxiliary", rp.tangent_dev(t2.aux_data[ridx], tu.aux_data,
                                                  project=(False, False)), ridx, tol=kt)
        Jp = Judge(run, "per-index", "TangentVector.point_along" + tag, sig, case)
        along = tv.point_along(dist.copy() if s2 else float(dist))
        if Jp.shape(along.shape, want):
            for ridx, i1, i2 in pairs:
                Jp.dev("array-distance", rp.max_row_dev(
                    along.proj_data[ridx], tvu(i1).point_along(float(dist[i2])).proj_data),
                    ridx, tol=kt)
                # by hand: the point at the signed distance from the base point
                with np.errstate(all="ignore"):
                    dd = float(rh.dist_proj(along.proj_data[ridx], P[i1]))
                Jp.dev("distance-travelled", abs(dd - abs(float(dist[i2]))), ridx,
                       tol=1e-6 * kappa, unitdesc="by-hand",
                       what="point_along: entry %r is not at distance |d[%r]| from base point %r"
                       % (ridx, i2, i1))
        Ja = Judge(run, "per-index", "TangentVector.angle" + tag, sig, case)
        ang = arr(tv.angle(tw))
        if Ja.shape(ang.shape, want):
            for ridx, i1, i2 in pairs:
                au = arr(tvu(i1).angle(twu(i2)))
                if not (1e-2 < float(au) < np.pi - 1e-2):
                    Ja.mon.skip("nearly parallel tangent vectors (arccos ill-conditioned)")
                    continue
                Ja.num("angle", ang[ridx], au, ridx, tol=1e-6 * kappa)
    run.note_class("second-arguments", *sig)


def _isometry_per_index(run, J, Mc, Mu, i, frame, free, src=None, dst=None, scale=1.0):
    """Mc (composite's entry) vs Mu (unit's result), row matrices.  If the
    construction is free (kernel of dimension >= 2), judge only the determined
    part: same image flag, both form preserving; full agreement otherwise.
    `scale` = conditioning of the input class (tolerances are multiplied)."""
    scale = min(max(scale, 1.0), 1e6)
    full = float(rp.max_mat_dev(Mc, Mu))
    if full <= TOL_PROJ * scale or not free:
        return J.dev("matrix", full, i, tol=TOL_PROJ * scale)
    # determined part
    resid = max(float(np.max(rp.conformal_residual(Mc))), float(np.max(rp.conformal_residual(Mu))))
    J.dev("form-preserving", resid, i, tol=1e-8 * scale)
    if frame is not None:
        k = np.shape(frame)[-2]
        # rows 0..k-1 of the matrix are the images of e_0..e_{k-1}
        J.dev("determined-rows", rp.max_row_dev(Mc[:k], Mu[:k]), i, tol=1e-8 * scale)
    if src is not None:
        # both must take the source frame to the destination frame
        a = src @ Mc
        b = src @ Mu
        J.dev("image-of-source", rp.tangent_dev(a, b), i, tol=1e-7 * scale)
    J.mon.diag("%s: composite and unit differ within the documented freedom" % J.op)


def wl_construct(run, rng, idx):
    """Segment / Polygon / TangentVector / ... construction: primary and
    auxiliary data per index; also through lists of unit objects."""
    kinds = ["H.Segment", "H.Polygon", "P.Polygon", "H.TangentVector", "H.Geodesic",
             "H.Horosphere", "H.HorosphereArc", "H.Hyperplane", "H.PointPair",
             "H.Subspace", "P.Simplex", "P.Subspace", "P.PointPair"]
    kind = pick(kinds, idx)
    shape = pick(G.OBJ_SHAPES, idx // len(kinds))
    n = dims_for(kind, idx // (len(kinds) * len(G.OBJ_SHAPES)))
    raw = G.draw(rng, kind, n, shape)
    case = {"kind": kind, "dimension": n, "shape": list(shape), "raw": raw}
    run.current_case = case
    X = G.build(kind, raw)
    J = Judge(run, "per-index", "construct:%s" % kind, (kind,), case)
    if not J.shape(X.shape, shape):
        return
    auxk = G.KINDS[kind][3]
    for i in np.ndindex(*shape):
        Xu = G.build(kind, G.unit_raw(raw, i))
        if kind == "H.Hyperplane":
            # the ideal basis is the library's choice: compare composite and
            # unit as hyperplanes (same normal, bases spanning the same space)
            J.dev("normal", rp.max_row_dev(X.proj_data[i][:1], Xu.proj_data[:1]), i)
            J.dev("span", _span_dev(X.proj_data[i][1:], Xu.proj_data[1:]), i, tol=1e-8)
        else:
            J.dev("primary", G.compare_primary(kind, X.proj_data[i], Xu.proj_data), i)
        if auxk is not None:
            J.dev("auxiliary", G.compare_aux(kind, X.aux_data[i], Xu.aux_data), i)
            J.dev("auxiliary", G.reference_aux_dev(kind, X.proj_data[i], X.aux_data[i]), i,
                  tol=1e-7, unitdesc="reference-formula")
    run.note_class("construct", kind, n, shape)


def _span_dev(A, B):
    """largest principal-angle sine between the row spans of A and B."""
    A = np.asarray(A, dtype=float)
    B = np.asarray(B, dtype=float)
    if A.shape != B.shape:
        return np.inf
    qa, _ = np.linalg.qr(A.T)
    qb, _ = np.linalg.qr(B.T)
    r = qa - qb @ (qb.T @ qa)
    return float(np.max(np.abs(r)))


def away_from_infinity(proj_pts, margin=0.15):
    return rh.away_from_infinity(rh.proj_to_klein(np.asarray(proj_pts, dtype=float)), margin)


def wl_circles(run, rng, idx):
    """circle_parameters of segments, geodesics and horospherical arcs,
    sphere_parameters of horospheres and geodesics (dimension 2)."""
    kinds = ["H.Segment", "H.Geodesic", "H.HorosphereArc", "H.Horosphere"]
    kind = pick(kinds, idx)
    shape = pick(G.OBJ_SHAPES, idx // len(kinds))
    model = pick(("poincare", "halfspace"), idx // (len(kinds) * len(G.OBJ_SHAPES)))
    degrees = bool((idx // 40) % 2)
    n = 2
    for _ in range(50):
        raw = G.draw(rng, kind, n, shape)
        pts = np.concatenate([np.reshape(v, (-1, n + 1)) for v in raw.values()])
        if model != "halfspace" or away_from_infinity(pts):
            break
    case = {"kind": kind, "shape": list(shape), "model": model, "degrees": degrees, "raw": raw}
    run.current_case = case
    X = G.build(kind, raw)
    sig = (kind, shape, model, degrees)
    if kind == "H.Horosphere":
        op = "Horosphere.sphere_parameters"
        call = lambda o: o.sphere_parameters(model=model)
        parts = ("centre", "radius")
    else:
        op = "%s.circle_parameters" % kind[2:]
        call = lambda o: o.circle_parameters(model=model, degrees=degrees)
        parts = ("centre", "radius", "angles")
    J = Judge(run, "per-index", op, sig, case)
    ok, res = J.call("composite", lambda: call(X),
                     unitdesc="composite-rank%d" % len(shape) if shape else "unit")
    if not ok:
        return
    res = [arr(r) for r in res]
    if not J.shape(res[1].shape, shape):
        return
    # angles are compared modulo a full turn
    turn = 360.0 if degrees else 2 * math.pi
    for i in np.ndindex(*shape):
        ur = G.unit_raw(raw, i)
        for unitdesc, mk, sel in (("unit", lambda: G.build(kind, ur), lambda a: a),
                                  ("1-composite", lambda: G.build(kind, one_composite(ur)),
                                   lambda a: a[0])):
            okc, ru = J.call("unit", lambda: call(mk()), unitdesc=unitdesc)
            if not okc:
                continue
            for part, a, b in zip(parts, res, ru):
                b = sel(arr(b))
                if part == "angles":
                    with np.errstate(all="ignore"):
                        dd = np.abs(((a[i] - b) + turn / 2) % turn - turn / 2) / turn
                    err = float(np.max(dd)) if np.all(np.isfinite(dd)) else (
                        0.0 if rp.rel_dev(a[i], b) == 0.0 else np.inf)
                    J.dev(part, err, i, tol=1e-9, unitdesc=unitdesc)
                else:
                    J.num(part, a[i], b, i, unitdesc=unitdesc)
    run.note_class("circles", *sig)
    if idx < 2:
        run.sample({"workload": "circles", "kind": kind, "shape": list(shape), "model": model})


def rand_sl2(rng, shape):
    out = np.empty(tuple(shape) + (2, 2))
    for ind in np.ndindex(*shape):
        while True:
            M = rng.normal(size=(2, 2))
            dt = np.linalg.det(M)
            if abs(dt) > 0.2 and np.linalg.cond(M) < 30:
                out[ind] = M / math.sqrt(abs(dt))
                break
    return out


def wl_fixed_and_sl2(run, rng, idx):
    """fixed_point / fixed_point_pair of composite loxodromic isometries; the
    vectorised SL(2) maps on stacks of matrices."""
    from geometry_tools import hyperbolic as H, lie
    shape = pick(G.OBJ_SHAPES, idx)
    n = 2 + (idx // len(G.OBJ_SHAPES)) % 2
    # loxodromic: conjugates of a boost with translation length in [0.4, 1.5]
    A = rh.rand_isometry(rng, n, shape=shape, tmax=0.8)
    L = np.empty(shape + (n + 1, n + 1))
    for i in np.ndindex(*shape):
        L[i] = A[i] @ rh.boost(n, 1, float(rng.uniform(0.4, 1.5))) @ np.linalg.inv(A[i])
    case = {"dimension": n, "shape": list(shape), "matrices(column)": L}
    run.current_case = case
    T = H.Isometry(L.copy(), column_vectors=True)
    sig = (n, shape)
    J = Judge(run, "per-index", "Isometry.fixed_point", sig, case)
    Jp = Judge(run, "per-index", "Isometry.fixed_point_pair", sig, case)
    fp = T.fixed_point()
    fpp = T.fixed_point_pair()
    ax = T.axis()
    if J.shape(fp.shape, shape) and Jp.shape(fpp.shape, shape):
        for i in np.ndindex(*shape):
            Tu = H.Isometry(L[i].copy(), column_vectors=True)
            J.dev("point", rp.max_row_dev(fp.proj_data[i], Tu.fixed_point().proj_data), i, tol=1e-7)
            Jp.dev("pair", rp.max_row_dev(fpp.proj_data[i], Tu.fixed_point_pair().proj_data), i, tol=1e-7)
            Jp.dev("axis", rp.max_row_dev(ax.proj_data[i], Tu.axis().proj_data), i, tol=1e-7)
        run.note_class("fixed-points", *sig)
    # SL(2) maps
    S = rand_sl2(rng, shape)
    case2 = {"shape": list(shape), "sl2": S}
    run.current_case = case2
    for name, f in (("lie.sl2_to_so21", lambda M: arr(lie.sl2_to_so21(M))),
                    ("lie.sl2_irrep(4)", lambda M: arr(lie.sl2_irrep(M, 4))),
                    ("lie.sl2_irrep(2)", lambda M: arr(lie.sl2_irrep(M, 2))),
                    ("hyperbolic.sl2_iso", lambda M: arr(H.sl2_iso(M).proj_data))):
        Js = Judge(run, "per-index", name, (shape,), case2)
        ok, comp = Js.call("composite", lambda: f(S.copy()), unitdesc="composite")
        if not ok:
            continue
        if not Js.shape(comp.shape[:-2], shape):
            continue
        for i in np.ndindex(*shape):
            oku, ru = Js.call("unit", lambda: f(S[i].copy()))
            if oku:
                Js.num("matrix", comp[i], ru, i)
        run.note_class("sl2", name, shape)


def wl_intersect(run, rng, idx):
    """Subspace.intersect elementwise / pairwise (the other client of the
    funnel and of broadcast_match): lines in P^2, planes in P^3."""
    from geometry_tools import projective as P
    mode = pick(("elementwise", "pairwise"), idx)
    n = 2 + (idx // 2) % 2
    s1 = pick([(), (3,), (2, 3), (1, 3)], idx // 4)
    s2 = s1 if mode == "elementwise" else pick([(), (2,), (4,), (2, 1)], idx // 16)
    A = rng.normal(size=s1 + (n, n + 1))
    B = rng.normal(size=s2 + (n, n + 1))
    case = {"dimension": n, "shape1": list(s1), "shape2": list(s2), "broadcast": mode,
            "A": A, "B": B}
    run.current_case = case
    X, Y = P.Subspace(A.copy()), P.Subspace(B.copy())
    Z = X.intersect(Y, broadcast=mode)
    J = Judge(run, "per-index", "Subspace.intersect[%s]" % mode, (n,), case)
    want = rp.result_shape(s1, s2, mode)
    if not J.shape(Z.shape, want):
        return
    for ridx, i1, i2 in rp.operand_indices(s1, s2, mode):
        Zu = P.Subspace(A[i1].copy()).intersect(P.Subspace(B[i2].copy()))
        J.dev("span", _span_dev(Z.proj_data[ridx], Zu.proj_data), ridx, tol=1e-7)
        # by hand: the intersection is the common kernel complement: every row
        # lies in both spans
        for S in (A[i1], B[i2]):
            stack = np.concatenate([S, Z.proj_data[ridx]], axis=0)
            sv = np.linalg.svd(stack, compute_uv=False)
            J.dev("contained", float(sv[n] / sv[0]) if len(sv) > n else 0.0, ridx,
                  tol=1e-7, unitdesc="rank-test")
    run.note_class("intersect", n, s1, s2, mode)


# ---------------------------------------------------------------------------
# structure: flatten / reshape / index / iterate / len / stack

def wl_structure(run, rng, idx):
    kind = pick(ALL_KINDS, idx)
    shape = pick([(3,), (2, 3), (1, 3), (2, 1, 3), (4,), (2, 2)], idx // len(ALL_KINDS))
    n = dims_for(kind, idx // (len(ALL_KINDS) * 6))
    raw = G.draw(rng, kind, n, shape)
    case = {"kind": kind, "dimension": n, "shape": list(shape), "raw": raw}
    run.current_case = case
    X = G.build(kind, raw)
    _structure_checks(run, kind, shape, raw, X, case)
    run.note_class("structure", kind, n, shape)


def _structure_checks(run, kind, shape, raw, X, case, ktag=""):
    """every structural operation on the composite X (built from `raw`) against
    the units rebuilt from the slices of `raw`.  ktag: input-class suffix of
    the mechanism keys ("" for the plain workload)."""
    mon = run.monitor("structure")
    cls = type(X)
    auxk = G.KINDS[kind][3]
    units = [(i, G.build(kind, G.unit_raw(raw, i))) for i in np.ndindex(*shape)]

    def same(op, obj, unit, where):
        """obj (a unit-shaped piece of a structural result) is the unit."""
        key = "structure/%s/unit-mismatch%s" % (op, ktag)
        if obj.shape != ():
            return mon.fail("structure/%s/shape" % op,
                            "%s: piece at %r has composite shape %r" % (op, where, obj.shape), case)
        if kind == "H.Hyperplane":
            e = max(rp.max_row_dev(obj.proj_data[:1], unit.proj_data[:1]),
                    _span_dev(obj.proj_data[1:], unit.proj_data[1:]))
        else:
            e = G.compare_primary(kind, obj.proj_data, unit.proj_data)
        if auxk is not None:
            e = max(e, G.compare_aux(kind, obj.aux_data, unit.aux_data))
        return mon.judge(e, 1e-8, key, "%s: the piece at %r is not the unit at that index"
                         % (op, where), dict(case, index=list(where)))

    def piece(obj, i):
        """unit i of a composite, read from the arrays (no library indexing)."""
        o = cls.__new__(cls)
        o.__dict__.update(X.__dict__)
        o.proj_data = obj.proj_data[i]
        o.aux_data = None if obj.aux_data is None else obj.aux_data[i]
        o.dual_data = None
        return o

    # __len__
    mon.require(len(X) == shape[0], "structure/__len__",
                "len() is %r for composite shape %r" % (len(X), shape), case)
    # __getitem__: integer, tuple, slice, negative, ellipsis-free fancy
    for i, u in units:
        sub = X[i]
        if not mon.require(type(sub) is cls, "structure/__getitem__/class",
                           "X[%r] is a %s" % (i, type(sub).__name__), case):
            break
        if not same("__getitem__", sub, u, i):
            break
    first = X[0]
    if mon.require(first.shape == shape[1:], "structure/__getitem__/shape",
                   "X[0].shape is %r for composite shape %r" % (first.shape, shape), case):
        for i, u in units:
            if i[0] == 0 and not same("__getitem__[int]", piece(first, i[1:]), u, i):
                break
    sl = X[1:] if shape[0] > 1 else X[0:]
    off = 1 if shape[0] > 1 else 0
    if mon.require(sl.shape == (shape[0] - off,) + shape[1:], "structure/__getitem__/slice-shape",
                   "X[%d:].shape is %r" % (off, sl.shape), case):
        for i, u in units:
            if i[0] >= off and not same("__getitem__[slice]", piece(sl, (i[0] - off,) + i[1:]), u, i):
                break
    neg = X[-1]
    for i, u in units:
        if i[0] == shape[0] - 1 and not same("__getitem__[-1]", piece(neg, i[1:]), u, i):
            break
    # __getitem__ with every kind of NumPy index over the composite axes: the
    # selected units and the shape of the selection are what the same key gives
    # on an array of unit numbers.  A key that is "normalised" on the way
    # (tuple(key), list -> tuple, np.asarray of a tuple) changes meaning: a list
    # selects along ONE axis, a tuple indexes one axis per entry.  (seeded
    # change C04-r7-1: tuple(item) turned X[[2, 0]] into X[2, 0].)
    numbers = np.arange(len(units)).reshape(shape)
    for kname, key in _index_keys(shape):
        want = numbers[key]
        try:
            sub = X[key]
        except Exception as e:
            import traceback
            from .. import core
            if core.raised_in_harness(e.__traceback__):
                raise
            mon.fail("structure/__getitem__[%s]/exception:%s%s" % (kname, type(e).__name__, ktag),
                     "X[%s] raised %s: %s on a composite of shape %r"
                     % (_key_repr(key), type(e).__name__, str(e)[:100], shape),
                     dict(case, key=_key_repr(key)), tb=traceback.format_exc())
            continue
        if not mon.require(type(sub) is cls and tuple(sub.shape) == want.shape,
                           "structure/__getitem__[%s]/shape%s" % (kname, ktag),
                           "X[%s] of a composite of shape %r is a %s of shape %r, the same key "
                           "selects shape %r from an array" % (_key_repr(key), shape, type(sub).__name__,
                                                                tuple(sub.shape), want.shape),
                           dict(case, key=_key_repr(key))):
            continue
        for j in np.ndindex(*want.shape):
            i, u = units[int(want[j])]
            if not same("__getitem__[%s]" % kname, piece(sub, j), u, i):
                break
    # __iter__
    parts = list(X)
    if mon.require(len(parts) == shape[0], "structure/__iter__/count",
                   "iteration yields %d items for composite shape %r" % (len(parts), shape), case):
        for i, u in units:
            pc = parts[i[0]]
            if pc.shape != shape[1:]:
                mon.fail("structure/__iter__/shape", "iteration item has shape %r" % (pc.shape,), case)
                break
            if not same("__iter__", piece(pc, i[1:]), u, i):
                break
    # flatten_to_unit: C order
    F = X.flatten_to_unit()
    total = int(np.prod(shape))
    if mon.require(F.shape == (total,) and type(F) is cls, "structure/flatten_to_unit/shape",
                   "flatten_to_unit gives %s of shape %r" % (type(F).__name__, F.shape), case):
        for k, (i, u) in enumerate(units):
            if not same("flatten_to_unit", piece(F, (k,)), u, i):
                break
    # reshape to every factorisation-compatible shape
    for new in _reshapes(shape):
        R = X.reshape(new)
        if not mon.require(R.shape == new and type(R) is cls, "structure/reshape/shape",
                           "reshape(%r) gives %s of shape %r" % (new, type(R).__name__, R.shape), case):
            continue
        for k, (i, u) in enumerate(units):
            j = np.unravel_index(k, new) if new else ()
            if not same("reshape", piece(R, tuple(int(x) for x in j)), u, i):
                break
    # stacking: Class([objects...]) from units and from composites
    if len(shape) == 1:
        S = cls([u for _, u in units])
        if mon.require(S.shape == shape, "structure/stack/shape",
                       "%s([units]) has shape %r, expected %r" % (cls.__name__, S.shape, shape), case):
            for i, u in units:
                if not same("stack", piece(S, i), u, i):
                    break
    S2 = cls([X, X])
    if mon.require(S2.shape == (2,) + shape, "structure/stack-composites/shape",
                   "%s([X, X]) has shape %r, expected %r" % (cls.__name__, S2.shape, (2,) + shape), case):
        for i, u in units:
            if not (same("stack-composites", piece(S2, (0,) + i), u, i) and
                    same("stack-composites", piece(S2, (1,) + i), u, i)):
                break
    # combining: Class.combine([X, first half of X's units]) = the flattened units
    # of both, in order, with their derived data (seeded change C04-r2-3: the
    # auxiliary data of rank-3 classes joined along the wrong axis)
    flat_units = [u for _, u in units]
    half = flat_units[:max(1, len(flat_units) // 2)]
    try:
        K = cls.combine([X, cls(half) if len(half) > 1 else half[0]])
    except Exception as e:
        import traceback
        from .. import core
        if core.raised_in_harness(e.__traceback__):
            raise
        K = None
        mon.fail("structure/combine/exception:%s/%s" % (type(e).__name__, kind),
                 "%s.combine([X, Y]) raised %s: %s" % (cls.__name__, type(e).__name__, str(e)[:120]),
                 case, tb=traceback.format_exc())
    if K is not None:
        want = flat_units + half
        if mon.require(K.shape == (len(want),), "structure/combine/shape",
                       "%s.combine of %d and %d units has shape %r"
                       % (cls.__name__, len(flat_units), len(half), K.shape), case):
            for k, u in enumerate(want):
                if not same("combine", piece(K, (k,)), u, (k,)):
                    break
    # class copy keeps everything
    C = cls(X)
    if mon.require(C.shape == shape, "structure/class-copy/shape",
                   "%s(X) has shape %r" % (cls.__name__, C.shape), case):
        for i, u in units:
            if not same("class-copy", piece(C, i), u, i):
                break
    return units, same, piece


# ---------------------------------------------------------------------------
# the same composite handed over in another memory layout

# A composite is its *logical* array of units: NumPy arrays that compare equal
# element by element are the same input whatever their strides.  The library
# keeps the caller's layout (np.array(..., order='K') in ProjectiveObject.set),
# so any order-sensitive reshape / ravel / view inside it (order='A'/'K'/'F',
# .T tricks, .flat, frombuffer) sees a non-C array exactly for these inputs and
# never for the arrays the library computes itself.  (seeded change C04-r3-1:
# flatten_to_unit reshaped with order="A"; a Fortran-ordered (a, b) composite
# came back with unit (i, j) at flat index i + a*j, and the derived data --
# recomputed, hence C ordered -- flattened in a different order from the
# primary data.)
LAYOUT_SHAPES = [(2, 3), (3, 2), (2, 1, 3), (2, 2, 2), (4, 3), (3,), (1, 3)]


def wl_layouts(run, rng, idx):
    """construction, flatten / reshape / index / iterate / stack / combine and
    apply on composites whose primary data (or raw constructor inputs) arrive
    Fortran-ordered, as transposed or axis-permuted views, strided, reversed."""
    layout = pick(GX.LAYOUTS, idx)
    kind = pick(ALL_KINDS, idx // len(GX.LAYOUTS) + 5 * idx)
    shape = pick(LAYOUT_SHAPES, idx // 2)
    n = dims_for(kind, idx // 3)
    raw = G.draw(rng, kind, n, shape)
    prim = G.primary(kind, raw)
    unit_rank = G.KINDS[kind][2]
    # route: the primary array itself goes to the class / every raw constructor
    # input goes through the kind's usual constructor
    direct = prim is not None and (idx // len(GX.LAYOUTS)) % 2 == 0
    case = {"kind": kind, "dimension": n, "shape": list(shape), "raw": raw,
            "memory_layout": layout, "route": "primary-array" if direct else "raw-inputs"}
    run.current_case = case
    mon = run.monitor("structure")
    ktag = "/memory-layout"
    if direct:
        X = G.class_of(kind)(GX.relayout(prim, layout, unit_rank))
    else:
        X = G.build(kind, {k: GX.relayout(v, layout, unit_rank if v.ndim - len(shape) > 1 else 1)
                           for k, v in raw.items()})
    if not mon.require(X.shape == shape, "structure/construct/shape" + ktag,
                       "%s built from %s-layout data has shape %r, expected %r"
                       % (kind, layout, X.shape, shape), case):
        return
    units, same, piece = _structure_checks(run, kind, shape, raw, X, case, ktag=ktag)
    # the composite itself holds the units
    for i, u in units:
        if not same("construct", piece(X, i), u, i):
            break
    # apply (one transformation, and one per unit of the last axis), then flatten
    hyp = G.KINDS[kind][1]
    tkind = "H.Isometry" if hyp else "P.Transformation"
    for tshape in ((), shape[-1:]):
        traw = G.draw(rng, tkind, n, tshape)
        T = G.build(tkind, traw)
        Y = T.apply(X)
        if not mon.require(Y.shape == shape, "structure/apply/shape" + ktag,
                           "apply on a %s-layout composite has shape %r" % (layout, Y.shape), case):
            continue
        F = Y.flatten_to_unit()
        for k, (i, u) in enumerate(units):
            Tu = G.build(tkind, G.unit_raw(traw, i[-1:] if tshape else ()))
            Yu = Tu.apply(u)
            if not (same("apply", piece(Y, i), Yu, i) and
                    same("apply+flatten_to_unit", piece(F, (k,)), Yu, i)):
                break
    run.note_class("layouts", kind, layout, len(shape), "direct" if direct else "raw")


# ---------------------------------------------------------------------------
# objects whose unit / auxiliary / dual rank is a setting of the instance

# The named classes fix their ranks in the constructor, so a result that is
# rebuilt as ``cls(data)`` gets them back by accident.  Generic objects
# (ProjectiveObject / HyperbolicObject with unit_ndims, aux_ndims, dual_ndims;
# PointCollection / PointPair with unit_ndims) carry the ranks per instance: the
# result of apply must be a composite of the same kind of units.  (seeded
# change C04-r3-2: apply rebuilt the result through the class constructor and
# the unit rank fell back to the class default, so (5,) blocks came back as a
# (5, 4) composite of rows.)
GENERIC_NAMES = list(GX.GENERIC_CLASSES)
GENERIC_RANKS = [(2, 0, 0), (3, 0, 0), (1, 0, 0), (2, 2, 0), (2, 3, 1), (1, 2, 2), (3, 1, 0)]


def wl_generic_ranks(run, rng, idx):
    """Transformation.apply in the three modes on generic objects with
    per-instance ranks: class, ranks, shape, every entry by hand and against
    the unit call; the result flattened."""
    name = pick(GENERIC_NAMES, idx)
    full = GX.GENERIC_CLASSES[name][2]
    ranks = pick(GENERIC_RANKS if full else GENERIC_RANKS[:3], idx // len(GENERIC_NAMES))
    mode = pick(rp.MODES, idx // 2 + idx // 12)
    oshape = pick(G.OBJ_SHAPES, idx // 3 + idx // 5)
    tshape = pick(G.TRF_SHAPES, idx // 7 + idx)
    hyp = name.startswith("H.")
    tkind = "H.Isometry" if (hyp or idx % 5 == 3) else "P.Transformation"
    n = 1 + (idx // 4) % 3
    mon = run.monitor("apply-modes")
    try:
        want_shape = rp.result_shape(oshape, tshape, mode)
    except ValueError:
        tshape = oshape[-1:] if oshape else ()
        want_shape = rp.result_shape(oshape, tshape, mode)
    u, a, d = ranks
    data = {"proj": rng.normal(size=oshape + GX.generic_unit_shape(rng, u, n)),
            "aux": rng.normal(size=oshape + GX.generic_unit_shape(rng, a, n)) if a else None,
            "dual": rng.normal(size=oshape + GX.generic_unit_shape(rng, d, n)) if d else None}
    traw = G.draw(rng, tkind, n, tshape)
    case = {"class": name, "ranks(unit,aux,dual)": list(ranks), "dimension": n,
            "object_shape": list(oshape), "transformation_shape": list(tshape),
            "broadcast": mode, "data": data, "transformation": traw}
    run.current_case = case
    X = GX.build_generic(name, data, ranks)
    T = G.build(tkind, traw)
    if not mon.require(X.shape == oshape, "apply-modes/generic/construct-shape",
                       "%s(unit_ndims=%d) of data %r has shape %r"
                       % (name, u, data["proj"].shape, X.shape), case):
        return
    Y = T.apply(X, broadcast=mode)
    key = "apply-modes/generic/%%s/%s" % mode
    if not mon.require(type(Y) is type(X), key % "class",
                       "apply(%s) of %s returns %s" % (mode, name, type(Y).__name__), case):
        return
    got_ranks = (Y.unit_ndims, Y.aux_ndims, Y.dual_ndims)
    mon.require(tuple(int(r) for r in got_ranks) == tuple(ranks), key % "ranks",
                "apply(%s): the result of a %s with (unit, aux, dual) ranks %r has ranks %r"
                % (mode, name, ranks, got_ranks), case)
    if not mon.require(tuple(Y.shape) == tuple(want_shape), key % "shape",
                       "apply(%s): %s of shape %r (unit rank %d) x transformations %r gives "
                       "shape %r, expected %r" % (mode, name, oshape, u, tshape, Y.shape, want_shape),
                       case):
        return
    J = Judge(run, "apply-modes", "generic/apply[%s]" % mode, (name,), case)
    M = G.row_matrix(tkind, traw)
    parts = [("proj", "proj_data", u)] + ([("aux", "aux_data", a)] if a else []) + \
        ([("dual", "dual_data", d)] if d else [])
    F = Y.flatten_to_unit()
    total = int(np.prod(want_shape, dtype=int))
    if not mon.require(tuple(F.shape) == (total,) and type(F) is type(X),
                       "apply-modes/generic/flatten_to_unit/shape",
                       "flatten_to_unit of the applied %s gives %s of shape %r, expected (%d,)"
                       % (name, type(F).__name__, F.shape, total), case):
        F = None
    for k, (ridx, oi, ti) in enumerate(rp.operand_indices(oshape, tshape, mode)):
        Xu = GX.build_generic(name, {p: (None if v is None else v[oi]) for p, v in data.items()}, ranks)
        Tu = G.build(tkind, G.unit_raw(traw, ti))
        Yu = Tu.apply(Xu)
        if not mon.require(tuple(Yu.shape) == (), key % "unit-shape",
                           "apply on one unit of %s gives shape %r" % (name, Yu.shape), case):
            return
        for part, attr, rank in parts:
            got = getattr(Y, attr)
            if got is None:
                mon.fail(key % ("%s-missing" % part), "the result has no %s" % attr, case)
                return
            J.num(part, got[ridx], getattr(Yu, attr), ridx, tol=1e-10)
            if F is not None and getattr(F, attr) is not None:
                J.num(part, getattr(F, attr)[k], getattr(Yu, attr), ridx, tol=1e-10,
                      unitdesc="unit-after-flatten")
        # by hand: the unit's rows times the row matrix of transformation j
        hand = data["proj"][oi] @ M[ti]
        scale = float(np.max(np.abs(hand))) + 1.0
        J.dev("proj", float(np.max(np.abs(Y.proj_data[ridx] - hand))) / scale
              if np.shape(Y.proj_data[ridx]) == hand.shape else np.inf, ridx,
              tol=1e-10, unitdesc="x_i@M_j",
              what="apply[%s] on %s: entry %r is not transformation %r applied to unit %r"
              % (mode, name, ridx, ti, oi))
    run.note_class("generic-ranks", name, ranks, len(oshape), len(tshape), mode, tkind)


# ---------------------------------------------------------------------------
# the less common vectorised entry points, one per-index law each

# Every public operation that accepts a composite (or an array-valued
# parameter) is an instance of the property, not only the ones the library's
# own code uses.  The rarely used ones have their own vectorisation
# bookkeeping (fancy-index assignments, a reduction over the wrong axes, a
# broadcast mode picked by hand) and no other monitor drives them.  Entries and
# their input classes live in gen/c04entries.py.  (seeded changes C04-r4-1:
# eigenvector(ev) kept the LAST instead of the first matching eigenvector of a
# unit with a repeated eigenvalue, in composites only; C04-r4-2:
# regular_polygon(m, radius=array) grouped vertex k of every polygon instead of
# one m-gon per radius; C04-r4-3: commute() scaled its tolerance by the largest
# commutator entry of the WHOLE composite.)
# size-1 composite axes in every position (seeded change C04-r7-2: a bare
# np.squeeze dropped them from one of two returned arrays)
ENTRY_SHAPES = [(3,), (2, 3), (), (1, 3), (2, 1, 3), (4,), (1,), (3, 1), (1, 1, 2)]


def _entry_dev(rule, got, want):
    got, want = np.asarray(got), np.asarray(want)
    if got.shape != want.shape:
        return np.inf
    if rule == "exact":
        return 0.0 if np.array_equal(got, want) else 1.0
    if rule == "num":
        return rp.rel_dev(got, want)
    if rule == "rows":
        return rp.max_row_dev(got, want)
    if rule == "mat":
        return rp.max_mat_dev(got, want)
    if rule == "tangent":
        return rp.tangent_dev(got, want)
    if rule == "tangent-raw":
        return rp.tangent_dev(got, want, project=(False, False))
    raise ValueError(rule)


def wl_entry_points(run, rng, idx):
    entries = GE.ENTRIES
    L = len(entries)
    name, entry, min_dim = entries[idx % L]
    rnd = idx // L
    shape = pick(ENTRY_SHAPES, rnd)
    variant = rnd + rnd // len(ENTRY_SHAPES)
    n = min_dim + rnd % (5 - min_dim) if run.tier == "thorough" else min_dim + rnd % (4 - min_dim)
    spec = entry(rng, n, shape, variant)
    case = dict({"entry": name, "dimension": n, "shape": list(shape), "variant": variant}, **spec.inputs)
    run.current_case = case
    J = Judge(run, "per-index", name, (name,), case)
    ok, comp = J.call("composite", lambda: spec.call(None),
                      unitdesc="composite-rank%d" % len(shape) if shape else "unit")
    if not ok:
        return
    want_shape = tuple(shape if spec.out_shape is None else spec.out_shape)
    for part in spec.rules:
        if not J.mon.require(np.shape(comp[part])[:len(want_shape)] == want_shape and
                             np.ndim(comp[part]) >= len(want_shape),
                             "per-index/%s/%s/shape" % (name, part),
                             "%s: %s of a composite of shape %r has array shape %r"
                             % (name, part, want_shape, np.shape(comp[part])), case):
            return
    for i in np.ndindex(*want_shape):
        reason = spec.skip(i) if spec.skip else None
        if reason:
            J.mon.skip(reason)
            continue
        oku, unit = J.call("unit", lambda: spec.call(i))
        if not oku:
            continue
        at_i = {}
        for part, (rule, tol) in spec.rules.items():
            at_i[part] = np.asarray(comp[part])[i]
            why = spec.skip_part(i, part) if getattr(spec, "skip_part", None) else None
            if why:
                J.mon.skip(why)
                continue
            J.dev(part, _entry_dev(rule, at_i[part], unit[part]), i, tol=max(tol, 1e-300))
        if spec.hand:
            for label, err, tol in spec.hand(i, at_i):
                J.dev(label, err, i, tol=tol, unitdesc="by-hand",
                      what="%s: the composite's entry %r fails the defining relation (%s)"
                      % (name, i, label))
    run.note_class("entry-points", name, n, shape, *spec.sig)


# ---------------------------------------------------------------------------
# histories: the per-index law holds of every composite that is alive

# "Indexing preserves the units" is claimed of a composite for as long as it
# lives, not only right after it was built: objects derived from it
# (flatten_to_unit, reshape, Class(X), astype, X[:]) are independent composites,
# and an item assignment into one of them must leave every other one a
# composite of ITS units -- derived data included, which the derivations are
# free to share as long as nobody writes into the shared array.  Judged for
# each live object against the units rebuilt from the primary data that object
# holds at that moment.  (seeded change C04-r5-3: __setitem__ refreshed the
# auxiliary data of the assigned units in place; X.flatten_to_unit() and
# Class(X) share that array with X, so after Y[j] = unit the edges / ideal
# endpoints / projected vector of X at that index were those of the new unit
# while X's vertices were unchanged: X.get_edges()[i] != X[i].get_edges().)
RELATIVE_KINDS = ["H.Polygon", "H.Segment", "H.TangentVector", "P.Polygon",
                  "H.Point", "H.Geodesic", "P.PointPair"]
RELATIVES = ["original", "flatten_to_unit", "construct", "reshape", "astype", "getitem"]
KEYKINDS = ["index", "row-or-slice", "mask", "negative-index"]


def _kind_queries(kind, o):
    """aux-based public queries of a composite, as {name: (array, rule)}."""
    if kind in ("H.Polygon", "P.Polygon"):
        return {"get_edges": (o.get_edges().proj_data, "rows")}
    if kind == "H.Segment":
        return {"ideal_endpoint_coords": (o.ideal_endpoint_coords("klein"), "num"),
                "geodesic": (o.geodesic().proj_data, "rows")}
    if kind == "H.TangentVector":
        return {"vector": (np.stack([o.point, o.vector], axis=-2), "tangent-raw")}
    return {}


def wl_relatives(run, rng, idx):
    """composite -> relatives (all kept alive) -> item assignments into one of
    them (integer / row or slice / mask / negative keys; the value an object or
    a raw array) -> every live object re-examined unit by unit."""
    kind = pick(RELATIVE_KINDS, idx)
    shape = pick([(2, 3), (4,), (3, 2)], idx // len(RELATIVE_KINDS))
    n = dims_for(kind, idx // 5, hi=3)
    mon = run.monitor("structure")
    nv = 3 + idx % 3
    cls = G.class_of(kind)
    auxk = G.KINDS[kind][3]
    raw = G.draw(rng, kind, n, shape, nv=nv)
    X = G.build(kind, raw)
    new_shape = {(2, 3): (3, 2), (4,): (2, 2), (3, 2): (6,)}[shape]
    live = {"original": X, "flatten_to_unit": X.flatten_to_unit(), "construct": cls(X),
            "reshape": X.reshape(new_shape), "astype": X.astype("float64"), "getitem": X[:]}
    case = {"kind": kind, "dimension": n, "shape": list(shape), "raw": raw,
            "history": ["derive " + ", ".join(RELATIVES[1:])]}
    run.current_case = case

    def examine(role, name, when):
        """the per-index law on one live object, against units rebuilt from the
        primary data it holds now."""
        o = live[name]
        what = "%s (%s) %s" % (name, role, when)
        ok, q = True, _kind_queries(kind, o)
        for i in np.ndindex(*o.shape):
            u = cls(np.array(o.proj_data[i], copy=True))
            c = dict(case, examined=what, index=list(i))
            if auxk is not None:
                ok = mon.judge(G.compare_aux(kind, o.aux_data[i], u.aux_data), 1e-8,
                               "structure/relatives/derived-data/%s" % role,
                               "%s: the derived data at %r is not that of the unit the object "
                               "holds there" % (what, i), c) and ok
            qu = _kind_queries(kind, u)
            for part, (a, rule) in q.items():
                ok = mon.judge(_entry_dev(rule, np.asarray(a)[i], qu[part][0]), 1e-7,
                               "structure/relatives/%s/%s" % (part, role),
                               "%s: %s()[%r] differs from %s of the unit at that index"
                               % (what, part, i, part), c) and ok
            if not ok:
                break
        return ok

    for name in live:
        examine("original" if name == "original" else "relative", name, "before any assignment")
    for rnd in (1, 2):
        tname = pick(RELATIVES, idx // 2 + (rnd - 1) * (1 + idx // 6) + (1 if rnd == 1 else 0))
        target = live[tname]
        tshape = tuple(target.shape)
        keykind = pick(KEYKINDS, idx // 3 + rnd)
        if keykind in ("index", "negative-index"):
            key = tuple(int(rng.integers(m)) for m in tshape)
            where = [key]
            if keykind == "negative-index":
                key = tuple(k - m for k, m in zip(key, tshape))
            key = key[0] if len(key) == 1 else key
            vshape = ()
        elif keykind == "row-or-slice":
            if len(tshape) == 1:
                a = int(rng.integers(0, tshape[0] - 1))
                b = int(rng.integers(a + 1, tshape[0] + 1))
                key, vshape = slice(a, b), (b - a,)
                where = [(k,) for k in range(a, b)]
            else:
                r = int(rng.integers(tshape[0]))
                key, vshape = r, tshape[1:]
                where = [(r,) + j for j in np.ndindex(*tshape[1:])]
        else:
            mask = rng.random(tshape) < 0.4
            mask.flat[int(rng.integers(mask.size))] = True
            key, vshape = mask, (int(np.sum(mask)),)
            where = [tuple(int(x) for x in w) for w in np.argwhere(mask)]
        vraw = G.draw(rng, kind, n, vshape, nv=nv)
        value = G.build(kind, vraw)
        as_array = (idx + rnd) % 2 == 1
        before = np.array(target.proj_data, copy=True)
        case["history"].append("%s[%s key %s] = %s of shape %r" % (
            tname, keykind, key.tolist() if isinstance(key, np.ndarray) else repr(key),
            "array" if as_array else type(value).__name__, vshape))
        case["assigned_%d" % rnd] = vraw
        vprim = np.array(value.proj_data, copy=True)
        target[key] = vprim.copy() if as_array else value
        # the target holds the new units where assigned, its old ones elsewhere
        vflat = vprim.reshape((-1,) + vprim.shape[len(vshape):])
        for k, w in enumerate(where):
            mon.judge(G.compare_primary(kind, target.proj_data[w], vflat[k]), 1e-9,
                      "structure/relatives/__setitem__/assigned-unit",
                      "%s[%s key] = value: the unit at %r is not the assigned one" % (tname, keykind, w),
                      dict(case, index=list(w)))
        for w in np.ndindex(*tshape):
            if w not in where:
                mon.judge(G.compare_primary(kind, target.proj_data[w], before[w]), 1e-12,
                          "structure/relatives/__setitem__/other-unit-moved",
                          "%s[%s key] = value changed the unit at %r" % (tname, keykind, w),
                          dict(case, index=list(w)))
        for name in live:
            role = "target" if name == tname else ("original" if name == "original" else "relative")
            examine(role, name, "after assignment %d (into %s)" % (rnd, tname))
        run.note_class("relatives", kind, shape, tname, keykind, "array" if as_array else "object")


def _key_repr(key):
    if isinstance(key, tuple):
        return "(" + ", ".join(_key_repr(k) for k in key) + ")"
    if isinstance(key, np.ndarray):
        return "array(%s)" % (key.tolist(),)
    return "..." if key is Ellipsis else repr(key)


def _index_keys(shape):
    """(kind, key) for every kind of NumPy index that addresses composite axes
    only (rank >= 1): lists, integer arrays (negative entries, repeats), boolean
    masks over the first axis and over the whole shape, negative integers,
    Ellipsis, and on rank >= 2 lists / arrays combined with integers, slices and
    each other."""
    a = shape[0]
    total = int(np.prod(shape))
    keys = [("list", [a - 1, 0]),
            ("list-repeats", [0, 0, a - 1]),
            ("int-array", np.array([a - 1, 0])),
            ("int-array-negative", np.array([-1, 0, -a])),
            ("int-array-2d", np.array([[0, a - 1], [a - 1, 0]])),
            ("mask-first-axis", np.arange(a) % 2 == 0),
            ("negative-ints", tuple(-1 for _ in shape)),
            ("ellipsis", Ellipsis),
            ("int-ellipsis", (a - 1, Ellipsis))]
    if len(shape) >= 2:
        b = shape[1]
        keys += [("mask-full", (np.arange(total) % 2 == 0).reshape(shape)),
                 ("lists-pointwise", ([0, a - 1], [b - 1, 0])),
                 ("slice-list", (slice(None), [b - 1, 0])),
                 ("list-slice", ([a - 1, 0], slice(None))),
                 ("int-list", (a - 1, [0, b - 1])),
                 ("list-int", ([0, a - 1], -1)),
                 # (an index AFTER an Ellipsis addresses the unit axes: not an
                 # index of the composite, never driven)
                 ("list-ellipsis", ([a - 1, 0], Ellipsis))]
    if len(shape) >= 3:
        c = shape[2]
        keys += [("slice-int-list", (slice(None), 0, [c - 1, 0])),
                 ("arrays-broadcast", (np.array([[0], [a - 1]]), 0, np.array([0, c - 1])))]
    return keys


def _reshapes(shape):
    total = int(np.prod(shape))
    out = [(total,), (1, total), (total, 1)]
    for a in range(2, total):
        if total % a == 0:
            out.append((a, total // a))
    if total % 2 == 0 and total >= 4:
        out.append((2, 1, total // 2))
    return [s for s in out if s != tuple(shape)][:5]


WORKLOADS = [
    Workload("apply-modes", wl_apply_modes, quick=700, thorough=9000),
    Workload("apply-special", wl_apply_special, quick=200, thorough=3000),
    Workload("points", wl_points, quick=160, thorough=3200),
    Workload("construct", wl_construct, quick=260, thorough=4000),
    Workload("circles", wl_circles, quick=160, thorough=2400),
    Workload("fixed-and-sl2", wl_fixed_and_sl2, quick=40, thorough=800),
    Workload("intersect", wl_intersect, quick=64, thorough=640),
    Workload("structure", wl_structure, quick=230, thorough=3600),
    Workload("layouts", wl_layouts, quick=84, thorough=1600),
    Workload("generic-ranks", wl_generic_ranks, quick=120, thorough=2400),
    Workload("special-units", wl_special_units, quick=48, thorough=960),
    Workload("second-arguments", wl_second_arguments, quick=64, thorough=1280),
    Workload("entry-points", wl_entry_points, quick=324, thorough=6480),
    Workload("relatives", wl_relatives, quick=84, thorough=1680),
]
