"""C08 -- Coxeter group representations satisfy the relations and preserve the form.

Monitors (P = postcondition attached to the real method, W = workload relation)
  cosine-form        (P) CoxeterGroup.bilinear_form = -cos(pi/m_ij), -1 for an
                     infinite label (0 or negative), recomputed in ref/.
  involutions        (P) on cartan_representation, geometric_representation,
                     canonical_representation, tits_vinberg_rep, hyperbolic_rep:
                     every generator matrix squares to the identity.
  braid-relations    (P) same hooks: (rho(s) rho(t))^m = I for every finite label.
  exact-order        (P) canonical_representation: (rho(s) rho(t))^k != I for
                     0 < k < m, and for k <= 12 on an infinite label.
  form-preserved     (P) geometric_representation: rho(s)^T B rho(s) = B with the
                     reference cosine matrix B; diagonalised: some diagonal +-1
                     form of the reference signature is preserved.
  canonical-dual     (P+W) canonical(s)^T geometric(s) = I on generators (P) and
                     on random words through the public word API (W).
  hyperbolic-reflections (P) hyperbolic_rep (only when the reference says the
                     cosine form has signature (d,1) with an eigenvalue margin):
                     generators in O(d,1), involutions with trace d-1, keeping
                     the future cone.
  relation-words     (W) the relation words evaluated through rep[...] /
                     rep.element(..., parse_simple=False) / rep.elements /
                     isometries(...).
  triangle-angles    (W) hyperbolic triangle groups: fixed points of ab, bc, ca
                     (kernel of N - I by SVD) are interior / ideal as the labels
                     say, and span angles pi/p, pi/q, pi/r (reference formula on
                     the hyperboloid, not the library's tangent code).
"""
import itertools
import math

import numpy as np

from ..run import Workload
from .. import attach
from ..ref import coxeter_tits as ct
from ..ref import hyp as rh

ID = "C08"
RULE = ("cases = Coxeter matrix (rank 2..5, labels 2..12 and infinity written 0 or "
        "negative) x constructor route (matrix in 5 packagings / diagram, shuffled) "
        "x naming (alpha, alphanum, multi-character diagram names) x representation "
        "(geometric, diagonalised geometric, canonical, Cartan with a random valid "
        "non-symmetric Cartan matrix, Tits-Vinberg with dict/matrix parameters, "
        "hyperbolic); every generator and every pair of generators is judged; "
        "triangles = all hyperbolic triples p<=q<=r in {2..12,inf}, all vertex "
        "orders; non-trivial = rank >= 2; distinct = distinct (rank, cosine-form "
        "type, has-infinity, route, naming, representation, options) signatures")
ASSUMPTIONS = [
    "words of multi-character generator names are evaluated with "
    "rep.element('s0*s1', parse_simple=False) or from the generator matrices "
    "(DESIGN.md C08); rep['s0'] is not demanded",
    "a diagram lists every pair of generators",
    "diagonalize=True is in domain when every reference eigenvalue of the "
    "(symmetric) Cartan matrix / 2 is either >= 1e-6 or <= 1e-11 in modulus (a "
    "degenerate form, e.g. an affine group, is in domain: the statement says "
    "'every Coxeter matrix ... diagonalised or not'; the diagonal form then has "
    "zeros on the kernel); hyperbolic_rep only when the reference signature is "
    "(d,1) with that margin; tolerances are scaled by 1/min|non-zero eigenvalue|",
    "the order of the basis of a diagonalised representation is not judged (any "
    "diagonal +-1 form of the right signature, negative-first or positive-first)",
    "Cartan matrices passed to cartan_representation are judged only when they "
    "are Cartan matrices of the group (c_ii = 2, c_ij c_ji = 4cos^2(pi/m_ij), "
    "c_ij <= 0, zero pattern for m = 2), checked by the reference",
]
_CX = "geometry_tools/coxeter.py"
ANCHORS = [(_CX, "CoxeterGroup." + q) for q in (
    "bilinear_form", "from_diagram", "from_coxeter_matrix", "cartan_representation",
    "geometric_representation", "canonical_representation", "cartan_matrix",
    "tits_vinberg_rep", "hyperbolic_rep")] + [
    (_CX, "TriangleGroup.__init__"),
    ("geometry_tools/utils/core.py", "diagonalize_form"),
    ("geometry_tools/utils/core.py", "permute_along_axis"),
    ("geometry_tools/representation.py", "Representation._word_value"),
    ("geometry_tools/representation.py", "Representation._compose"),
]
REQUIRED = [
    (_CX, "CoxeterGroup.bilinear_form", "adjusted_cox_matrix[adjusted_cox_matrix.astype(float) <= 0] = half"),
    (_CX, "CoxeterGroup.cartan_representation", "g_name = CoxeterGroup._default_generator_name(i, generator_style)"),
    (_CX, "CoxeterGroup.cartan_representation", "return rep.compose("),
    (_CX, "CoxeterGroup.cartan_representation", "return rep"),
    (_CX, "CoxeterGroup.cartan_matrix", "cartan[r_index] = parameters[index]"),
    (_CX, "CoxeterGroup.hyperbolic_rep", "return hyperbolic.HyperbolicRepresentation(matrix_rep)"),
    (_CX, "CoxeterGroup.canonical_representation", "return self.geometric_representation(**kwargs).compose("),
    ("geometry_tools/utils/core.py", "diagonalize_form", "W = permute_along_axis(W, order, axis=-1, inverse=True)"),
]

TOL = 1e-9
EIG_MARGIN = 1e-6
ALPHA = "abcdefghijklmnopqrstuvwxyz"
_state = {"depth": 0}


def input_class(M):
    return "inf-labels" if any(x == 0 for r in M for x in r) else "finite-labels"


# ---------------------------------------------------------------------------
# numeric judgements on a list of generator matrices

def power_residual(A, Bm, m):
    """max|(A B)^m - I| relative to the largest partial product entry."""
    n = A.shape[0]
    AB = A @ Bm
    P = np.eye(n)
    scale = max(1.0, float(np.max(np.abs(A))), float(np.max(np.abs(Bm))))
    for _ in range(m):
        P = P @ AB
        scale = max(scale, float(np.max(np.abs(P))))
    return float(np.max(np.abs(P - np.eye(n)))) / scale


def check_generators(run, gens, M, what, tolscale, case, exact_order=False):
    """involutions + braid relations (+ exact orders) for generator matrices
    `gens` (list, in the order of the Coxeter matrix M)."""
    n = len(M)
    cls = input_class(M)
    inv = run.monitor("involutions")
    br = run.monitor("braid-relations")
    ok = True
    for i in range(n):
        A = gens[i]
        sc = max(1.0, float(np.max(np.abs(A)))) ** 2
        r = float(np.max(np.abs(A @ A - np.eye(n)))) / sc
        ok &= inv.judge(r, TOL * tolscale, "involutions/%s/%s" % (what, cls),
                        "%s: generator %d of %r does not square to the identity"
                        % (what, i, M), case)
    for i in range(n):
        for j in range(i + 1, n):
            m = M[i][j]
            if m == 0:
                continue
            r = power_residual(gens[i], gens[j], m)
            ok &= br.judge(r, TOL * tolscale * m, "braid-relations/%s/%s" % (what, cls),
                           "%s of %r: (s%d s%d)^%d is not the identity" % (what, M, i, j, m),
                           case)
    if exact_order and ok:
        ex = run.monitor("exact-order")
        for i in range(n):
            for j in range(i + 1, n):
                m = M[i][j]
                AB = gens[i] @ gens[j]
                P = np.eye(n)
                top = (m - 1) if m else 12
                worst = float("inf")
                at = None
                for k in range(1, top + 1):
                    P = P @ AB
                    d = float(np.max(np.abs(P - np.eye(n))))
                    if d < worst:
                        worst, at = d, k
                if top == 0:
                    continue
                _state["min_order_gap"] = min(_state.get("min_order_gap", float("inf")), worst)
                if worst > 1e-6:
                    ex.ok()
                else:
                    ok = False
                    ex.fail("exact-order/%s/%s" % (what, "infinite-label" if m == 0 else "finite-label"),
                            "%s of %r: (s%d s%d)^%d = I although the label is %s"
                            % (what, M, i, j, at, "infinite" if m == 0 else m), case,
                            residual=worst)
    return ok


def sign_forms(sig):
    """candidate diagonal forms for a signature (pos, neg, zero, ...): entries
    +-1, and 0 on the kernel of a degenerate form (affine groups; the order of
    the basis is not judged there: every arrangement is a candidate)."""
    pos, neg, zero = sig[0], sig[1], sig[2]
    if zero == 0:
        return [np.diag([-1.0] * neg + [1.0] * pos), np.diag([1.0] * pos + [-1.0] * neg)]
    entries = [-1.0] * neg + [0.0] * zero + [1.0] * pos
    return [np.diag(p) for p in sorted(set(itertools.permutations(entries)))]


def form_residual(gens, S):
    worst = 0.0
    for A in gens:
        sc = max(1.0, float(np.max(np.abs(A)))) ** 2
        worst = max(worst, float(np.max(np.abs(A.T @ S @ A - S))) / sc)
    return worst


def rep_generators(rep, names):
    out = []
    for nm in names:
        A = np.asarray(rep.generators[nm])
        if A.dtype == object:
            raise TypeError("generator %r has generic-object dtype" % (nm,))
        out.append(np.asarray(A, dtype=float))
    return out


def cartan_domain(C, M, diagonalize):
    """(in_domain, reason, tolscale, signature) for cartan_representation."""
    try:
        C = np.asarray(C, dtype=float)
    except Exception:
        return False, "Cartan matrix is not numeric", 1.0, None
    if not ct.cartan_valid(C, M):
        return False, "not a Cartan matrix of this Coxeter group", 1.0, None
    scale = max(1.0, float(np.max(np.abs(C)))) ** 2
    if not diagonalize:
        return True, "", scale, None
    if float(np.max(np.abs(C - C.T))) > 1e-12:
        # the result is a conjugate of a valid Cartan representation by whatever
        # symmetric matrix the implementation reads off C (a triangle of it, or its
        # symmetric part): the relations are judged (conjugation-invariant), the
        # preserved form is not.  Seeded change C08-r5-2: the reflections
        # themselves built from the symmetrised matrix.
        worst = float("inf")
        H = C / 2.0
        for S in (np.tril(H) + np.tril(H, -1).T, np.triu(H) + np.triu(H, 1).T, (H + H.T) / 2.0):
            sgS = ct.signature(S, margin=EIG_MARGIN)
            if sgS is None or sgS[2] != 0:
                return False, "diagonalize=True, non-symmetric Cartan matrix with a (nearly) degenerate symmetric reading", 1.0, None
            ev = np.linalg.eigvalsh(S)
            worst = min(worst, sgS[3] / max(1.0, float(np.max(np.abs(ev)))))
        return True, "", scale / worst, None
    sg = ct.signature(C / 2.0, margin=EIG_MARGIN)
    if sg is None:
        return False, "diagonalize=True with a nearly degenerate form (eigenvalue in (1e-11, 1e-6))", 1.0, None
    return True, "", scale / sg[3], sg


# ---------------------------------------------------------------------------
# setup: postconditions on the real methods

def setup(run):
    from geometry_tools import coxeter
    CG = coxeter.CoxeterGroup
    for name, k in (("cosine-form", 20), ("involutions", 200), ("braid-relations", 200),
                    ("exact-order", 50), ("form-preserved", 50), ("canonical-dual", 50),
                    ("hyperbolic-reflections", 20), ("relation-words", 100),
                    ("triangle-angles", 20)):
        run.monitor(name, min_events=k)

    def group_matrix(G):
        return ct.normalize(getattr(G, "coxeter_matrix", None))

    def hook_bilinear(call):
        mon = run.monitor("cosine-form")
        if call.exc is not None:
            return
        if call.kwargs:
            return mon.skip("explicit dtype/base_ring")
        M = group_matrix(call.args[0])
        if M is None:
            return mon.skip("not a Coxeter matrix")
        res = np.asarray(call.result)
        case = {"via": "bilinear_form", "coxeter_matrix": np.asarray(call.args[0].coxeter_matrix).tolist(),
                "workload_case": run.current_case}
        if res.dtype == object or res.shape != (len(M), len(M)):
            return mon.fail("cosine-form/bad-array/%s" % input_class(M),
                            "bilinear_form() returns dtype %s shape %r" % (res.dtype, res.shape), case)
        r = float(np.max(np.abs(res.astype(float) - ct.cosine_matrix(M))))
        mon.judge(r, 1e-12, "cosine-form/value/%s" % input_class(M),
                  "bilinear_form() of %r differs from -cos(pi/m) (infinite -> -1)" % (M,), case)

    def names_for(G, b):
        n = len(G.ordered_gens)
        if b.get("rename_generators"):
            st = b.get("generator_style", "alpha")
            return [ALPHA[i] if st == "alpha" else "s%d" % i for i in range(n)]
        return list(G.ordered_gens)

    def hook_cartan(call):
        inv = run.monitor("involutions")
        if call.exc is not None:
            return
        b = call.bound()
        G = b["self"]
        M = group_matrix(G)
        if M is None:
            return inv.skip("not a Coxeter matrix")
        extra = b.get("kwargs") or {}
        if extra:
            return inv.skip("explicit dtype/base_ring")
        dg = bool(b.get("diagonalize"))
        okd, why, tolscale, sg = cartan_domain(b.get("cartan_matrix"), M, dg)
        if not okd:
            return inv.skip(why)
        case = {"via": "cartan_representation", "coxeter_matrix": M,
                "cartan_matrix": np.asarray(b.get("cartan_matrix"), dtype=float),
                "diagonalize": dg, "order_eigenvalues": b.get("order_eigenvalues"),
                "rename_generators": bool(b.get("rename_generators")),
                "workload_case": run.current_case}
        try:
            gens = rep_generators(call.result, names_for(G, b))
        except Exception as e:
            return inv.fail("involutions/cartan_representation/unreadable-generators",
                            "result has no numeric generator matrices under the expected "
                            "names: %s: %s" % (type(e).__name__, e), case)
        what = "cartan_representation" + ("(diagonalize)" if dg else "")
        check_generators(run, gens, M, what, tolscale, case)
        if dg and sg is not None:
            fp = run.monitor("form-preserved")
            r = min(form_residual(gens, S) for S in sign_forms(sg))
            fp.judge(r, TOL * tolscale, "form-preserved/%s/%s" % (what, input_class(M)),
                     "diagonalised representation of %r preserves no diagonal +-1 (0 on the "
                     "kernel) form of signature (%d,%d,%d)" % (M, sg[0], sg[1], sg[2]), case)

    def hook_geometric(call):
        fp = run.monitor("form-preserved")
        if call.exc is not None:
            return
        b = call.bound()
        G = b["self"]
        M = group_matrix(G)
        if M is None:
            return fp.skip("not a Coxeter matrix")
        if b.get("kwargs"):
            return fp.skip("explicit dtype/base_ring")
        dg = bool(b.get("diagonalize"))
        B = ct.cosine_matrix(M)
        sg = ct.signature(B, margin=EIG_MARGIN)
        case = {"via": "geometric_representation", "coxeter_matrix": M, "diagonalize": dg,
                "workload_case": run.current_case}
        tolscale = 4.0
        if dg:
            if sg is None:
                return fp.skip("diagonalize=True with a nearly degenerate cosine form")
            tolscale = 4.0 / sg[3]
        try:
            gens = rep_generators(call.result, list(G.ordered_gens))
        except Exception as e:
            return fp.fail("form-preserved/geometric_representation/unreadable-generators",
                           "no numeric generator matrices: %s: %s" % (type(e).__name__, e), case)
        what = "geometric_representation" + ("(diagonalize)" if dg else "")
        check_generators(run, gens, M, what, tolscale, case)
        if dg:
            r = min(form_residual(gens, S) for S in sign_forms(sg))
            fp.judge(r, TOL * tolscale, "form-preserved/%s/%s" % (what, input_class(M)),
                     "diagonalised geometric representation of %r preserves no diagonal +-1 "
                     "(0 on the kernel) form of signature (%d,%d,%d)" % (M, sg[0], sg[1], sg[2]), case)
        else:
            r = form_residual(gens, B)
            fp.judge(r, TOL * tolscale, "form-preserved/%s/%s" % (what, input_class(M)),
                     "geometric representation of %r does not preserve the cosine form" % (M,),
                     case)

    def hook_canonical(call):
        cd = run.monitor("canonical-dual")
        if call.exc is not None:
            return
        b = call.bound()
        G = b["self"]
        M = group_matrix(G)
        if M is None:
            return cd.skip("not a Coxeter matrix")
        kw = b.get("kwargs") or {}
        dg = bool(kw.get("diagonalize"))
        if set(kw) - {"diagonalize"}:
            return cd.skip("explicit dtype/base_ring/options")
        sg = ct.signature(ct.cosine_matrix(M), margin=EIG_MARGIN)
        tolscale = 4.0
        if dg:
            if sg is None:
                return cd.skip("diagonalize=True with a nearly degenerate cosine form")
            tolscale = 4.0 / sg[3]
        case = {"via": "canonical_representation", "coxeter_matrix": M, "diagonalize": dg,
                "workload_case": run.current_case}
        names = list(G.ordered_gens)
        try:
            gens = rep_generators(call.result, names)
        except Exception as e:
            return cd.fail("canonical-dual/canonical_representation/unreadable-generators",
                           "no numeric generator matrices: %s: %s" % (type(e).__name__, e), case)
        what = "canonical_representation" + ("(diagonalize)" if dg else "")
        check_generators(run, gens, M, what, tolscale, case, exact_order=True)
        # dual of the library's own geometric representation (monitoring is suspended here)
        try:
            geo = rep_generators(G.geometric_representation(**kw), names)
        except Exception as e:
            return cd.skip("geometric_representation raised %s" % type(e).__name__)
        n = len(M)
        for i in range(n):
            sc = max(1.0, float(np.max(np.abs(gens[i])))) * max(1.0, float(np.max(np.abs(geo[i]))))
            r = float(np.max(np.abs(gens[i].T @ geo[i] - np.eye(n)))) / sc
            cd.judge(r, TOL * tolscale, "canonical-dual/generator/%s/%s" % (what, input_class(M)),
                     "canonical(s%d)^T geometric(s%d) is not the identity for %r" % (i, i, M), case)
        if not dg:
            # diagnostic only: the standard-basis matrices of Tits' representation
            ref = ct.dual_reflections(M)
            d = max(float(np.max(np.abs(gens[i] - ref[i]))) for i in range(n))
            if d > 1e-9:
                cd.diag("canonical generators differ from the reference Tits matrices")

    def hook_tv(call):
        inv = run.monitor("involutions")
        if call.exc is not None:
            return
        b = call.bound()
        G = b["self"]
        M = group_matrix(G)
        if M is None:
            return inv.skip("not a Coxeter matrix")
        kw = b.get("kwargs") or {}
        if set(kw) - {"rename_generators", "generator_style"}:
            return inv.skip("options judged at cartan_representation")
        case = {"via": "tits_vinberg_rep", "coxeter_matrix": M,
                "parameters": repr(b.get("parameters"))[:300], "workload_case": run.current_case}
        nb = dict(kw)
        try:
            gens = rep_generators(call.result, names_for(G, nb))
        except Exception as e:
            return inv.fail("involutions/tits_vinberg_rep/unreadable-generators",
                            "no numeric generator matrices: %s: %s" % (type(e).__name__, e), case)
        sc = max(1.0, max(float(np.max(np.abs(A))) for A in gens)) ** 2
        check_generators(run, gens, M, "tits_vinberg_rep", sc, case)

    def hook_hyp(call):
        hr = run.monitor("hyperbolic-reflections")
        if call.exc is not None:
            return
        b = call.bound()
        G = b["self"]
        M = group_matrix(G)
        if M is None:
            return hr.skip("not a Coxeter matrix")
        if b.get("kwargs"):
            return hr.skip("explicit dtype/base_ring")
        n = len(M)
        sg = ct.signature(ct.cosine_matrix(M), margin=EIG_MARGIN)
        if sg is None or not (sg[1] == 1 and sg[2] == 0 and sg[0] == n - 1):
            return hr.skip("cosine form is not of signature (d,1) with margin")
        tolscale = 4.0 / sg[3]
        case = {"via": "hyperbolic_rep", "coxeter_matrix": M, "min_abs_eigenvalue": sg[3],
                "workload_case": run.current_case}
        try:
            gens = rep_generators(call.result, list(G.ordered_gens))
        except Exception as e:
            return hr.fail("hyperbolic-reflections/unreadable-generators",
                           "no numeric generator matrices: %s: %s" % (type(e).__name__, e), case)
        cls = input_class(M)
        check_generators(run, gens, M, "hyperbolic_rep", tolscale, case)
        for i, A in enumerate(gens):
            r = float(rh.form_residual(A))
            if not hr.judge(r, TOL * tolscale, "hyperbolic-reflections/not-in-O(d,1)/%s" % cls,
                            "hyperbolic_rep of %r: generator %d does not preserve "
                            "diag(-1,1,..,1)" % (M, i), case):
                continue
            sc = max(1.0, float(np.max(np.abs(A))))
            hr.judge(abs(float(np.trace(A)) - (n - 2)) / sc, 1e-7 * tolscale,
                     "hyperbolic-reflections/not-a-reflection/%s" % cls,
                     "hyperbolic_rep of %r: generator %d has trace %.6g, a reflection of "
                     "R^(%d,1) has trace %d" % (M, i, float(np.trace(A)), n - 1, n - 2), case)
            hr.require(A[0, 0] >= 1.0 - 1e-6 * tolscale,
                       "hyperbolic-reflections/swaps-time-cones/%s" % cls,
                       "hyperbolic_rep of %r: generator %d has N[0,0] = %.6g < 1: it does not "
                       "keep the future cone (reflection in a timelike vector)"
                       % (M, i, float(A[0, 0])), case)

    attach.wrap_attr(run, CG, "bilinear_form", hook_bilinear)
    attach.wrap_attr(run, CG, "cartan_representation", hook_cartan)
    attach.wrap_attr(run, CG, "geometric_representation", hook_geometric)
    attach.wrap_attr(run, CG, "canonical_representation", hook_canonical)
    attach.wrap_attr(run, CG, "tits_vinberg_rep", hook_tv)
    attach.wrap_attr(run, CG, "hyperbolic_rep", hook_hyp)


# ---------------------------------------------------------------------------
# building groups (both routes)

INF_ENC = [0, -1, -2, -7]
PACKAGINGS = ["int-ndarray", "nested-list", "float-ndarray", "int32-ndarray",
              "tuple-of-tuples"]
DIAGRAM_NAMES = [list("abcde"), list("xyzuv"), ["s0", "s1", "s2", "s3", "s4"],
                 ["r", "g", "b", "k", "w"], ["p1", "p2", "p3", "p4", "p5"],
                 ["ga", "gb", "gc", "gd", "ge"]]
LAB12 = list(range(2, 13)) + [0]


def package(raw, how):
    if how == "int-ndarray":
        return np.array(raw)
    if how == "nested-list":
        return [list(r) for r in raw]
    if how == "float-ndarray":
        return np.array(raw, dtype=float)
    if how == "int32-ndarray":
        return np.array(raw, dtype=np.int32)
    if how == "tuple-of-tuples":
        return tuple(tuple(r) for r in raw)
    raise ValueError(how)


def encode_inf(M, rng, enc=None):
    """raw matrix with each infinite label written as 0 or a negative number
    (symmetric)."""
    n = len(M)
    raw = [list(r) for r in M]
    for i in range(n):
        for j in range(i + 1, n):
            if M[i][j] == 0:
                e = INF_ENC[int(rng.integers(0, len(INF_ENC)))] if enc is None else enc
                raw[i][j] = raw[j][i] = e
    return raw


def build_group(M, route, rng, enc=None):
    from geometry_tools import coxeter
    n = len(M)
    raw = encode_inf(M, rng, enc)
    if route == "matrix":
        how = PACKAGINGS[int(rng.integers(0, len(PACKAGINGS)))]
        style = ["alpha", "alphanum"][int(rng.integers(0, 2))]
        G = coxeter.CoxeterGroup(matrix=package(raw, how), generator_style=style)
        names = [ALPHA[i] if style == "alpha" else "s%d" % i for i in range(n)]
        desc = {"route": "matrix", "packaging": how, "naming": style, "matrix": raw}
        return G, desc, names, M, raw
    names = DIAGRAM_NAMES[int(rng.integers(0, len(DIAGRAM_NAMES)))][:n]
    edges = [(i, j) for i in range(n) for j in range(i + 1, n)]
    edges = [edges[k] for k in rng.permutation(len(edges))]
    edges = [(j, i) if rng.random() < 0.5 else (i, j) for (i, j) in edges]
    diagram = [(names[i], names[j], int(raw[i][j])) for (i, j) in edges]
    order = []
    for (i, j) in edges:
        for k in (i, j):
            if k not in order:
                order.append(k)
    # the documented argument is "an iterable of triples": a list, a tuple of
    # lists, or a one-shot iterator / generator (seeded change C08-r2-3: a second
    # pass over the argument finds a one-shot iterable exhausted)
    form = ["list", "tuple-of-lists", "iterator", "generator"][int(rng.integers(0, 4))]
    arg = {"list": lambda: list(diagram),
           "tuple-of-lists": lambda: tuple(list(t) for t in diagram),
           "iterator": lambda: iter(diagram),
           "generator": lambda: (t for t in diagram)}[form]()
    G = coxeter.CoxeterGroup(diagram=arg)
    Mo = tuple(tuple(M[a][b] for b in order) for a in order)
    rawo = [[raw[a][b] for b in order] for a in order]
    desc = {"route": "diagram", "naming": "multi-char" if len(names[0]) > 1 else "one-char",
            "diagram": [[a, b2, c] for (a, b2, c) in diagram], "diagram_argument": form}
    return G, desc, [names[k] for k in order], Mo, rawo


def random_matrix(rng, n, labels=LAB12, p_two=0.3, p_inf=0.12):
    M = [[1] * n for _ in range(n)]
    for i in range(n):
        for j in range(i + 1, n):
            u = rng.random()
            if u < p_two:
                m = 2
            elif u < p_two + p_inf:
                m = 0
            else:
                m = int(rng.integers(3, 13))
                if rng.random() < 0.5:
                    m = int(rng.integers(3, 6))
            M[i][j] = M[j][i] = m
    return tuple(tuple(r) for r in M)


def word_string(word, names):
    return "".join(names[i] for i in word)


def eval_word(rep, word, names, how):
    """image of an index word through one of the public access paths, as a
    float ndarray acting on column vectors."""
    onechar = all(len(x) == 1 for x in names)
    if how == "getitem":            # rep["abab"] (one-character names only)
        res = rep[word_string(word, names)]
    elif how == "element-star":     # rep.element("s0*s1", parse_simple=False)
        res = rep.element("*".join(names[i] for i in word), parse_simple=False)
    elif how == "elements":         # rep.elements([...]) (one-character names)
        res = rep.elements([word_string(word, names)])
    else:
        raise ValueError(how)
    if hasattr(res, "matrix"):      # Transformation / Isometry: row-vector convention
        A = np.swapaxes(np.asarray(res.matrix), -1, -2)
    else:
        A = np.asarray(res)
    if how == "elements":
        A = A[0]
    if A.dtype == object:
        raise TypeError("word image has generic-object dtype")
    return np.asarray(A, dtype=float), onechar


def access_paths(names):
    if all(len(x) == 1 for x in names):
        return ["getitem", "element-star", "elements"]
    return ["element-star"]


def relation_words(run, rep, M, names, what, tolscale, case, rng, exact=False):
    """every defining relation through the public word API."""
    mon = run.monitor("relation-words")
    n = len(M)
    paths = access_paths(names)
    cls = input_class(M)
    k = 0
    for i in range(n):
        how = paths[k % len(paths)]
        k += 1
        A, _ = eval_word(rep, (i, i), names, how)
        sc = max(1.0, float(np.max(np.abs(A))))
        mon.judge(float(np.max(np.abs(A - np.eye(n)))) / sc, TOL * tolscale,
                  "relation-words/involution/%s/%s/%s" % (what, how, cls),
                  "%s of %r: the word %s is not sent to the identity"
                  % (what, M, "*".join([names[i]] * 2)), case)
    for i in range(n):
        for j in range(n):
            if i == j or M[i][j] == 0:
                continue
            m = M[i][j]
            how = paths[k % len(paths)]
            k += 1
            w = (i, j) * m
            A, _ = eval_word(rep, w, names, how)
            g1, _ = eval_word(rep, (i, j), names, how)
            sc = max(1.0, float(np.max(np.abs(g1)))) ** 2
            mon.judge(float(np.max(np.abs(A - np.eye(n)))) / sc, TOL * tolscale * m,
                      "relation-words/braid/%s/%s/%s" % (what, how, cls),
                      "%s of %r: the word (%s*%s)^%d is not sent to the identity"
                      % (what, M, names[i], names[j], m), case)
            if exact and m > 2:
                kk = int(rng.integers(1, m))
                A, _ = eval_word(rep, (i, j) * kk, names, how)
                d = float(np.max(np.abs(A - np.eye(n))))
                run.monitor("exact-order").require(
                    d > 1e-6, "exact-order/word-api/%s/finite-label" % what,
                    "%s of %r: (%s*%s)^%d is the identity although the label is %d"
                    % (what, M, names[i], names[j], kk, m), case)
    relation_batch(run, rep, M, names, what, tolscale, case, rng)


def relation_batch(run, rep, M, names, what, tolscale, case, rng):
    """relators, generators and two-letter words of mixed lengths in ONE
    elements() call, in random order: entry k must be the image of word k (a
    relator position holds the identity, a generator position an involution that
    is not the identity, and every entry equals the same word evaluated on its
    own).  Seeded change C08-r4-2: elements() evaluating in length order and
    un-permuting with the wrong permutation."""
    if not all(len(x) == 1 for x in names):
        return
    mon = run.monitor("relation-words")
    n = len(M)
    cls = input_class(M)
    words = [(i,) for i in range(n)]
    for i in range(n):
        for j in range(n):
            if i != j and M[i][j] != 0 and M[i][j] <= 12:
                words.append((i, j) * M[i][j])
                words.append((i, j))
    words.append(())
    order = rng.permutation(len(words))
    words = [words[int(k)] for k in order][:14]
    res = rep.elements([word_string(w, names) for w in words])
    A = np.swapaxes(np.asarray(res.matrix), -1, -2) if hasattr(res, "matrix") else np.asarray(res)
    if A.dtype == object or A.shape != (len(words), n, n):
        mon.fail("relation-words/batch-shape/%s/%s" % (what, cls),
                 "elements(%d words) returned dtype %s shape %r" % (len(words), A.dtype, A.shape), case)
        return
    A = A.astype(float)
    eye = np.eye(n)
    for k, w in enumerate(words):
        c = dict(case, batch=[word_string(x, names) for x in words], index=k)
        single, _ = eval_word(rep, w, names, "getitem")
        sc = max(1.0, float(np.max(np.abs(single)))) ** 2
        mon.judge(float(np.max(np.abs(A[k] - single))) / sc, TOL * tolscale * max(len(w), 1),
                  "relation-words/batch-entry-is-not-its-word/%s/%s" % (what, cls),
                  "%s: elements(words)[%d] differs from the image of word %d (%s) evaluated alone"
                  % (what, k, k, word_string(w, names)), c)
        i_j = len(w) >= 4 and len(set(w)) == 2 and M[w[0]][w[1]] * 2 == len(w)
        if len(w) == 0 or i_j:
            mon.judge(float(np.max(np.abs(A[k] - eye))) / sc, TOL * tolscale * max(len(w), 1),
                      "relation-words/batch-relator/%s/%s" % (what, cls),
                      "%s: the relator at position %d of one elements() call is not sent to the identity"
                      % (what, k), c)
        elif len(w) == 1:
            mon.require(float(np.max(np.abs(A[k] - eye))) > 1e-6,
                        "relation-words/batch-generator-is-identity/%s/%s" % (what, cls),
                        "%s: the generator at position %d of one elements() call is sent to the identity"
                        % (what, k), c)
    run.note_class("relation-batch", what, cls, n)


def random_word(rng, n, length):
    return tuple(int(x) for x in rng.integers(0, n, size=length))


# ---------------------------------------------------------------------------
# workloads

def study_group(run, rng, M, route, sample=False):
    G, desc, names, Mo, rawo = build_group(M, route, rng)
    n = len(Mo)
    ctype = ct.coxeter_type(Mo)
    B = ct.cosine_matrix(Mo)
    sg = ct.signature(B, margin=EIG_MARGIN)
    # (name kept: 'diagonalisable by the contract' = no eigenvalue in the ambiguous band;
    #  exactly degenerate forms - affine groups - are in domain, see ASSUMPTIONS)
    nondeg = sg is not None
    case = dict(desc, coxeter_matrix=Mo, type=ctype, rank=n)
    run.current_case = case
    sig = (n, ctype, input_class(Mo), desc["route"], desc["naming"], desc.get("packaging", "-"))
    cd = run.monitor("canonical-dual")
    cf = run.monitor("cosine-form")

    # the group's data
    gm = ct.normalize(G.coxeter_matrix)
    if list(G.ordered_gens) != names or gm != Mo:
        run.monitor("relation-words").fail(
            "relation-words/group-data/%s" % desc["route"],
            "ordered_gens %r / coxeter_matrix %r differ from the input (%r, %r)"
            % (list(G.ordered_gens), gm, names, Mo), case)
        return
    Bl = np.asarray(G.bilinear_form())                      # P: cosine-form
    cf.judge(float(np.max(np.abs(Bl - Bl.T))), 1e-14, "cosine-form/not-symmetric",
             "bilinear_form() is not symmetric", case)

    # geometric, plain and diagonalised
    geo = G.geometric_representation()                      # P hooks
    run.note_class(*sig, "geometric")
    relation_words(run, geo, Mo, names, "geometric_representation", 4.0, case, rng)
    if nondeg:
        run.current_case = dict(case, diagonalize=True)
        geod = G.geometric_representation(diagonalize=True)
        run.note_class(*sig, "geometric-diagonalised", sg[0], sg[1], "kernel:%d" % sg[2])
        relation_words(run, geod, Mo, names, "geometric_representation(diagonalize)",
                       4.0 / sg[3], dict(case, diagonalize=True), rng)
    run.current_case = case

    # canonical + duality on words
    can = G.canonical_representation()                      # P hooks incl. exact order
    run.note_class(*sig, "canonical")
    relation_words(run, can, Mo, names, "canonical_representation", 4.0, case, rng, exact=True)
    paths = access_paths(names)
    for t in range(6):
        w = random_word(rng, n, int(rng.integers(1, 9)))
        how = paths[t % len(paths)]
        Cw, _ = eval_word(can, w, names, how)
        Gw, _ = eval_word(geo, w, names, how)
        sc = max(1.0, float(np.max(np.abs(Cw)))) * max(1.0, float(np.max(np.abs(Gw))))
        cd.judge(float(np.max(np.abs(Cw.T @ Gw - np.eye(n)))) / sc, TOL * 4 * len(w),
                 "canonical-dual/word/%s/%s" % (how, input_class(Mo)),
                 "canonical(w)^T geometric(w) is not the identity for w = %s in %r"
                 % ("*".join(names[i] for i in w), Mo), dict(case, word=list(w)))
        # and against the independent Tits matrices (homomorphism + convention)
        ref = ct.word_matrix(ct.dual_reflections(Mo), w)
        if float(np.max(np.abs(Cw - ref))) > 1e-7 * max(1.0, float(np.max(np.abs(ref)))):
            cd.diag("canonical word image differs from the reference Tits representation")
    if nondeg and rng.random() < 0.5:
        run.current_case = dict(case, diagonalize=True, representation="canonical")
        G.canonical_representation(diagonalize=True)        # P hooks
        run.note_class(*sig, "canonical-diagonalised")
    run.current_case = case

    # a standard subgroup is a third way to construct a Coxeter group
    if n >= 3 and rng.random() < 0.5:
        # any subset of at least two generators, listed in parent order, in a
        # shuffled order or handed over as a set: the subgroup's labels are the
        # parent's labels BY NAME (seeded change C08-r5-3: the Coxeter-matrix block
        # taken over sorted indices but labelled in the caller's order)
        size = int(rng.integers(2, n + 1))
        keep = [int(k) for k in rng.choice(n, size=size, replace=False)]
        order_kind = ["parent-order", "shuffled", "shuffled", "set"][int(rng.integers(0, 4))]
        if order_kind == "parent-order":
            keep = sorted(keep)
        arg = [names[k] for k in keep]
        sub = G.standard_subgroup(set(arg) if order_kind == "set" else arg)
        subnames = list(sub.ordered_gens)
        scase = dict(case, standard_subgroup=[names[k] for k in keep], order=order_kind)
        run.current_case = scase
        if sorted(subnames) != sorted(names[k] for k in keep):
            run.monitor("relation-words").fail(
                "relation-words/group-data/standard_subgroup",
                "standard_subgroup(%r) has generators %r" % ([names[k] for k in keep], subnames), scase)
        else:
            ix = [names.index(x) for x in subnames]
            Ms = tuple(tuple(Mo[a][b2] for b2 in ix) for a in ix)
            if ct.normalize(sub.coxeter_matrix) != Ms:
                run.monitor("relation-words").fail(
                    "relation-words/group-data/standard_subgroup",
                    "standard_subgroup(%r).coxeter_matrix is %r, the parent's labels give %r"
                    % (subnames, np.asarray(sub.coxeter_matrix).tolist(), Ms), scase)
            else:
                run.note_class(*sig, "standard-subgroup", order_kind, len(keep))
                sub.canonical_representation()              # P hooks
                relation_words(run, sub.geometric_representation(), Ms, subnames,
                               "geometric_representation", 4.0, scase, rng)
        run.current_case = case

    # Cartan representation from a random valid (non-symmetric) Cartan matrix
    D = np.exp(rng.uniform(-1.2, 1.2, size=n))
    C = (2.0 * B) * D[:, None] / D[None, :]
    for i in range(n):
        for j in range(i + 1, n):
            if Mo[i][j] == 0 and rng.random() < 0.7:
                u = -float(rng.uniform(2.0, 4.0))
                v = -float(rng.uniform(2.0, 4.0))
                C[i, j], C[j, i] = u, v
    rename = bool(rng.random() < 0.5)
    style = ["alpha", "alphanum"][int(rng.integers(0, 2))]
    ccase = dict(case, cartan_matrix=C, rename_generators=rename, generator_style=style)
    run.current_case = ccase
    crep = G.cartan_representation(C, rename_generators=rename, generator_style=style)
    if rng.random() < 0.5:
        run.current_case = dict(ccase, diagonalize=True)
        G.cartan_representation(C.copy(), diagonalize=True)         # P hooks (relations only)
        run.note_class(*sig, "cartan-nonsymmetric-diagonalised")
        run.current_case = ccase
    cnames = ([ALPHA[i] if style == "alpha" else "s%d" % i for i in range(n)]
              if rename else names)
    run.note_class(*sig, "cartan-nonsymmetric", "renamed-" + style if rename else "own-names")
    relation_words(run, crep, Mo, cnames, "cartan_representation",
                   max(1.0, float(np.max(np.abs(C)))) ** 2, ccase, rng)
    # symmetric Cartan matrix, diagonalised in both orders
    Cs = 2.0 * B
    for i in range(n):
        for j in range(i + 1, n):
            if Mo[i][j] == 0 and rng.random() < 0.5:
                Cs[i, j] = Cs[j, i] = -float(rng.uniform(2.0, 5.0))
    sgs = ct.signature(Cs / 2.0, margin=EIG_MARGIN)
    if sgs is not None:
        order = ["signed", "minkowski"][int(rng.integers(0, 2))]
        dcase = dict(case, cartan_matrix=Cs, diagonalize=True, order_eigenvalues=order)
        run.current_case = dcase
        drep = G.cartan_representation(Cs, diagonalize=True, order_eigenvalues=order)
        run.note_class(*sig, "cartan-symmetric-diagonalised", order, sgs[0], sgs[1], "kernel:%d" % sgs[2])
        relation_words(run, drep, Mo, names, "cartan_representation(diagonalize)",
                       max(1.0, float(np.max(np.abs(Cs)))) ** 2 / sgs[3], dcase, rng)

    # Tits-Vinberg deformations: parameters for the infinite labels
    inf_pairs = [(i, j) for i in range(n) for j in range(i + 1, n) if Mo[i][j] == 0]
    form = ["dict", "dict-asymmetric", "matrix", "empty"][int(rng.integers(0, 4))]
    params = {}
    for (i, j) in inf_pairs:
        if form == "empty":
            break
        u = -float(rng.uniform(2.0, 4.0))
        if form == "dict-asymmetric":
            params[(i, j)] = u
            params[(j, i)] = -float(rng.uniform(2.0, 4.0))
        elif rng.random() < 0.5:
            params[(i, j)] = u
        else:
            params[(j, i)] = u
    if form == "matrix":
        P = np.zeros((n, n))
        for k, v in params.items():
            P[k] = v
        arg = P
    else:
        arg = dict(params)
    tcase = dict(case, parameters=repr(arg)[:300], parameter_form=form)
    run.current_case = tcase
    tv = G.tits_vinberg_rep(arg)                            # P hooks (+ cartan hook)
    run.note_class(*sig, "tits-vinberg", form, "with-inf" if inf_pairs else "no-inf")
    relation_words(run, tv, Mo, names, "tits_vinberg_rep", 16.0, tcase, rng)
    run.current_case = case

    # hyperbolic representation when the reference says signature (d,1)
    if sg is not None and sg[1] == 1 and sg[2] == 0:
        hcase = dict(case, representation="hyperbolic", min_abs_eigenvalue=sg[3])
        run.current_case = hcase
        h = G.hyperbolic_rep()                              # P: hyperbolic-reflections
        run.note_class(*sig, "hyperbolic", n - 1)
        relation_words(run, h, Mo, names, "hyperbolic_rep", 4.0 / sg[3], hcase, rng)
        if all(len(x) == 1 for x in names):
            ws = [word_string(random_word(rng, n, int(rng.integers(0, 7))), names) for _ in range(5)]
            iso = h.isometries(ws)
            mats = np.swapaxes(np.asarray(iso.matrix, dtype=float), -1, -2)
            hr = run.monitor("hyperbolic-reflections")
            r = float(np.max(rh.form_residual(mats)))
            hr.judge(r, TOL * 4.0 / sg[3] * 8, "hyperbolic-reflections/isometries-not-in-O(d,1)",
                     "isometries(%r) of hyperbolic_rep of %r do not preserve diag(-1,1,..,1)"
                     % (ws, Mo), hcase)
    if sample:
        run.sample({"coxeter_matrix": Mo, "type": ctype, "route": desc["route"],
                    "naming": desc["naming"]})


def wl_relations(run, rng, idx):
    n = 2 + idx % 4
    if n == 2:
        m = LAB12[(idx // 4) % len(LAB12)]
        M = ((1, m), (m, 1))
    else:
        M = random_matrix(rng, n)
    study_group(run, rng, M, ["matrix", "diagram"][(idx // 2) % 2], sample=idx < 3)


def wl_dense_rank3(run, rng, idx):
    """all ordered label triples over {2..12, inf} (thorough) / a stride (quick)."""
    k = len(LAB12)
    code = idx if run.tier == "thorough" else (idx * 29 + 5) % (k ** 3)
    p, q, r = LAB12[code % k], LAB12[(code // k) % k], LAB12[(code // (k * k)) % k]
    M = ((1, p, r), (p, 1, q), (r, q, 1))
    study_group(run, rng, M, ["matrix", "diagram"][(code // 7) % 2])
    run.extra["dense_rank3_matrices"] = run.extra.get("dense_rank3_matrices", 0) + 1


def linear(*labels):
    n = len(labels) + 1
    M = [[1 if i == j else 2 for j in range(n)] for i in range(n)]
    for i, m in enumerate(labels):
        M[i][i + 1] = M[i + 1][i] = m
    return tuple(tuple(r) for r in M)


def cyclic(*labels):
    n = len(labels)
    M = [[1 if i == j else 2 for j in range(n)] for i in range(n)]
    for i, m in enumerate(labels):
        j = (i + 1) % n
        M[i][j] = M[j][i] = m
    return tuple(tuple(r) for r in M)


CURATED = [
    ("A3", linear(3, 3)), ("B3", linear(3, 4)), ("H3", linear(3, 5)), ("A4", linear(3, 3, 3)),
    ("F4", linear(3, 4, 3)), ("H4", linear(5, 3, 3)), ("A5", linear(3, 3, 3, 3)),
    ("I2(12)", linear(12)), ("I2(inf)", linear(0)), ("A1xA1", linear(2)),
    ("affine-A2", cyclic(3, 3, 3)), ("affine-C2", linear(4, 4)), ("affine-G2", linear(6, 3)),
    ("affine-A3", cyclic(3, 3, 3, 3)), ("affine-C3", linear(4, 3, 4)), ("affine-A4", cyclic(3, 3, 3, 3, 3)),
    ("compact-[3,5,3]", linear(3, 5, 3)), ("compact-[5,3,4]", linear(5, 3, 4)),
    ("compact-[5,3,5]", linear(5, 3, 5)), ("compact-cyc-3334", cyclic(3, 3, 3, 4)),
    ("compact-[5,3,3,3]", linear(5, 3, 3, 3)), ("compact-[5,3,3,4]", linear(5, 3, 3, 4)),
    ("compact-[5,3,3,5]", linear(5, 3, 3, 5)),
    ("cusped-[3,3,6]", linear(3, 3, 6)), ("cusped-[4,4,3]", linear(4, 4, 3)),
    ("cusped-[3,4,3,4]", linear(3, 4, 3, 4)), ("cusped-[3,3,3,4,3]", linear(3, 3, 4, 3)),
    ("ideal-triangle", cyclic(0, 0, 0)), ("free-4", tuple(tuple(1 if i == j else 0 for j in range(4)) for i in range(4))),
    ("right-angled-pentagon", cyclic(0, 0, 0, 0, 0)),
    ("triangle-2-3-7", ((1, 2, 7), (2, 1, 3), (7, 3, 1))), ("triangle-2-3-inf", ((1, 2, 0), (2, 1, 3), (0, 3, 1))),
    ("I2(7)xI2(9)", ((1, 7, 2, 2), (7, 1, 2, 2), (2, 2, 1, 9), (2, 2, 9, 1))),
    ("all-12-rank5", tuple(tuple(1 if i == j else 12 for j in range(5)) for i in range(5))),
]


def wl_curated(run, rng, idx):
    name, M = CURATED[idx % len(CURATED)]
    run.note_class("curated", name)
    study_group(run, rng, M, ["matrix", "diagram"][(idx // len(CURATED) + idx) % 2], sample=idx < 1)


def hyperbolic_triples():
    labs = list(range(2, 13)) + [0]
    out = []
    for t in itertools.combinations_with_replacement(labs, 3):
        # sort with infinity last
        key = sorted(t, key=lambda m: (m == 0, m))
        if ct.triangle_is_hyperbolic(*key):
            out.append(tuple(key))
    return sorted(set(out), key=lambda t: [(m == 0, m) for m in t])


TRIPLES = hyperbolic_triples()
PERMS = list(itertools.permutations(range(3)))


def wl_triangles(run, rng, idx):
    from geometry_tools import coxeter
    mon = run.monitor("triangle-angles")
    if run.tier == "thorough":
        t = TRIPLES[idx % len(TRIPLES)]
        perm = PERMS[(idx // len(TRIPLES)) % 6]
    else:
        # quick: a stride through the list plus the extreme ones
        special = [(2, 3, 7), (2, 3, 0), (0, 0, 0), (2, 0, 0), (12, 12, 12), (2, 4, 5), (3, 3, 4),
                   (2, 3, 12), (2, 12, 0), (3, 3, 0)]
        t = special[idx] if idx < len(special) else TRIPLES[(idx * 7 + 3) % len(TRIPLES)]
        perm = PERMS[int(rng.integers(0, 6))]
    labs = [t[k] for k in perm]
    enc = INF_ENC[int(rng.integers(0, len(INF_ENC)))]
    kind = int(rng.integers(0, 3))
    raw = [(enc if m == 0 else m) for m in labs]
    arg = [tuple(raw), list(raw), tuple(np.int64(x) for x in raw)][kind]
    M = ((1, labs[0], labs[2]), (labs[0], 1, labs[1]), (labs[2], labs[1], 1))
    case = {"triangle": list(map(int, raw)), "labels": labs}
    run.current_case = case
    sg = ct.signature(ct.cosine_matrix(M), margin=EIG_MARGIN)
    if sg is None or not (sg[0] == 2 and sg[1] == 1 and sg[2] == 0):
        return mon.skip("reference signature is not (2,1) with margin")
    G = coxeter.TriangleGroup(arg)
    h = G.hyperbolic_rep()                                   # P: hyperbolic-reflections
    tolscale = 4.0 / sg[3]
    ninf = sum(1 for m in labs if m == 0)
    run.note_class("triangle", "compact" if ninf == 0 else "%d-ideal-vertices" % ninf,
                   "has-right-angle" if 2 in labs else "no-right-angle",
                   "arg-" + ["tuple", "list", "numpy-ints"][kind])
    words = ["ab", "bc", "ca"]
    iso = h.isometries(words)
    mats = np.swapaxes(np.asarray(iso.matrix, dtype=float), -1, -2)   # column convention
    if mats.shape != (3, 3, 3):
        return mon.fail("triangle-angles/isometries-shape",
                        "isometries(['ab','bc','ca']).matrix has shape %r" % (mats.shape,), case)
    gens = [np.asarray(h.generators[g], dtype=float) for g in "abc"]
    prods = [gens[0] @ gens[1], gens[1] @ gens[2], gens[2] @ gens[0]]
    verts = []
    for k in range(3):
        d = float(np.max(np.abs(mats[k] - prods[k]))) / max(1.0, float(np.max(np.abs(prods[k]))))
        mon.judge(d, TOL * tolscale, "triangle-angles/isometries-vs-generators",
                  "isometries(%r) is not the product of the generator matrices" % words[k], case)
        v, gap, s0 = ct.fixed_vector(mats[k])
        if not (gap > 1e-6):
            # rotation products always have a one-dimensional fixed space
            mon.fail("triangle-angles/no-isolated-fixed-point",
                     "the image of %s fixes more than a point (singular values %.3g, %.3g)"
                     % (words[k], gap, s0), case)
            return
        verts.append(v)
    # the library's own fixed points of the three rotation products, through every
    # option, are those vertices (the triangle of the statement is "spanned by the
    # fixed points of the three rotation products").  Seeded change C08-r6-1: the
    # unsorted branch of Isometry._fixpoint_data lost the key that puts real
    # eigenvectors first.
    for k in range(3):
        if labs[k] == 0:
            # (a parabolic product: its fixed point is a defective eigenvector,
            # accurate to ~sqrt(eps) only; C15 judges those with their conditioning)
            continue
        T = iso[k]
        for opt in (True, False):
            try:
                fp = np.asarray(T.fixed_point(max_eigval=opt).proj_data, dtype=float).reshape(-1)
                pair0 = np.asarray(T.fixed_point_pair(sort_eigvals=opt).proj_data, dtype=float).reshape(-1, 3)[0]
            except Exception as e:
                mon.fail("triangle-angles/fixed_point/exception:%s" % type(e).__name__,
                         "fixed_point(max_eigval=%r) of the image of %s raised %s: %s"
                         % (opt, words[k], type(e).__name__, str(e)[:120]), case)
                continue
            for what, x in (("fixed_point(max_eigval=%r)" % opt, fp),
                            ("fixed_point_pair(sort_eigvals=%r)[0]" % opt, pair0)):
                nx, nv = np.linalg.norm(x), np.linalg.norm(verts[k])
                if not (np.all(np.isfinite(x)) and nx > 0):
                    mon.fail("triangle-angles/fixed_point/degenerate", "%s of the image of %s is zero or "
                             "not finite" % (what, words[k]), case)
                    continue
                c = abs(float(np.dot(x, verts[k]))) / (nx * nv)
                mon.judge(math.sqrt(max(0.0, 1.0 - min(1.0, c) ** 2)), 1e-6 * tolscale,
                          "triangle-angles/fixed_point/not-the-vertex/%s" % ("ideal" if labs[k] == 0 else "interior"),
                          "%s of the image of %s is not the fixed point of that rotation product "
                          "(sine of the angle between the two vectors)" % (what, words[k]),
                          dict(case, option=opt, library=x, reference=verts[k]))
    for k in range(3):
        m = labs[k]
        want = "ideal" if m == 0 else "interior"
        got = ct.vertex_kind(verts[k], margin=1e-7 * tolscale)
        if got != want:
            q = float(ct.mink(verts[k], verts[k]) / np.dot(verts[k], verts[k]))
            mon.fail("triangle-angles/vertex-kind/%s-expected" % want,
                     "TriangleGroup(%r): the fixed point of %s is %s (<v,v>/|v|^2 = %.3g), the "
                     "label %s requires an %s vertex" % (tuple(map(int, raw)), words[k], got, q,
                                                        "infinity" if m == 0 else m, want), case)
            return
        mon.ok()
    for k in range(3):
        m = labs[k]
        if m == 0:
            continue
        ang = ct.angle_at_vertex(verts[k], verts[(k + 1) % 3], verts[(k + 2) % 3])
        mon.judge(abs(ang - math.pi / m), 1e-7 * tolscale,
                  "triangle-angles/angle/%s" % ("compact" if ninf == 0 else "with-ideal-vertices"),
                  "TriangleGroup(%r): angle at the fixed point of %s is %.9f, expected pi/%d = %.9f"
                  % (tuple(map(int, raw)), words[k], ang, m, math.pi / m), case)
        if ninf == 0:
            # second formula (ref/hyp.py) for compact triangles
            a2 = float(rh.angle_at(verts[k], verts[(k + 1) % 3], verts[(k + 2) % 3]))
            mon.judge(abs(a2 - math.pi / m), 1e-7 * tolscale, "triangle-angles/angle/compact-ref-hyp",
                      "angle (ref.hyp.angle_at) at the fixed point of %s is %.9f, expected pi/%d"
                      % (words[k], a2, m), case)
    if idx < 2:
        run.sample({"triangle": list(map(int, raw)), "vertices_klein":
                    [(v[1:] / v[0]).tolist() for v in verts]})


def wl_tutorial(run, rng, idx):
    """front-page tutorial lines that concern C08 (and the docstring example of
    representation.py)."""
    from geometry_tools import coxeter
    mon = run.monitor("relation-words")
    run.current_case = {"tutorial": idx}
    if idx % 2 == 0:
        rep = coxeter.TriangleGroup((2, 3, 7)).hyperbolic_rep()
        refl = rep.isometries(["a", "b", "c"])
        mats = np.swapaxes(np.asarray(refl.matrix, dtype=float), -1, -2)
        for k in range(3):
            mon.judge(float(np.max(np.abs(mats[k] @ mats[k] - np.eye(3)))), 1e-9,
                      "relation-words/tutorial/reflection-not-involution",
                      "tutorial: isometries(['a','b','c'])[%d] is not an involution" % k)
        run.note_class("tutorial", "hyperbolic-237")
    else:
        rep = coxeter.TriangleGroup((3, 3, 4)).canonical_representation()
        M = ((1, 3, 4), (3, 1, 3), (4, 3, 1))
        for w, m in (("ab", 3), ("bc", 3), ("ca", 4)):
            A = np.asarray(rep[w * m], dtype=float)
            mon.judge(float(np.max(np.abs(A - np.eye(3)))), 1e-9,
                      "relation-words/tutorial/canonical-334",
                      "docstring example: rep[%r] is not the identity" % (w * m,))
        run.note_class("tutorial", "canonical-334")


WORKLOADS = [
    Workload("relations", wl_relations, quick=400, thorough=24000),
    Workload("dense-rank3", wl_dense_rank3, quick=100, thorough=len(LAB12) ** 3),
    Workload("curated", wl_curated, quick=len(CURATED), thorough=16 * len(CURATED)),
    Workload("triangles", wl_triangles, quick=240, thorough=6 * len(TRIPLES)),
    Workload("tutorial", wl_tutorial, quick=2, thorough=4),
]


def finalize(run):
    if "min_order_gap" in _state:
        # smallest max|(st)^k - I| seen for 0 < k < m (k <= 12 for infinity); threshold 1e-6
        run.extra["exact_order_gap"] = {"min_per_process": [round(_state["min_order_gap"], 6)]}
