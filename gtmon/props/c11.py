"""C11 -- derived data stays coherent with primary data; queries do not move objects.

Monitors
  aux-coherent   (I) class invariant on every ProjectiveObject subclass of
                 projective.py / hyperbolic.py (ConvexPolygon excluded), evaluated
                 at every outermost public-method return on `self` and on every
                 returned object that carries auxiliary data: stored aux_data is,
                 projectively, what ``type(obj)(obj.proj_data).aux_data``
                 recomputes (monitoring suspended during the recomputation).
                 Hyperbolic segments / tangent vectors that went through a
                 non-form-preserving matrix sit in a weak "aux not comparable"
                 table (counted, not judged).  A stale object is reported once.
  aux-reference  (W) the same objects against reference formulas that do not use
                 the library (edges = consecutive vertex pairs, ideal endpoints =
                 chord/sphere intersection, tangent = Minkowski projection).
  query-purity   (P) write-watch around the read-only queries: the object's and
                 the argument objects' primary and auxiliary data are
                 projectively the same before and after; plain arrays the caller
                 passed are unchanged (projectively for homogeneous coordinates).
  history        (W) histories to depth 6 over {construct, copy, class-copy,
                 apply, reshape, flatten, index, set item, stack, combine,
                 astype}, interleaved with queries: unit contents after every
                 step follow a numpy-only model of the history.
  matrix-product (P, cross monitor of C04, not deciding here).

Input classes beyond the random histories
  flatten-unit   flatten_to_unit(unit=k) with every explicit k from the class's
                 unit rank up to the rank of the primary array (and
                 flatten_to_aux()), on composites of rank >= 3, inside
                 histories: the composite axes of the derived data are those
                 of the primary data (seeded change C11-r3-2).
  lift-scales    objects built from tiny (1e-6..1e-9), huge (1e6..1e9) and
                 row-wise mixed projective lifts of the same geometric data;
                 normalising queries (hyperboloid_coords, origin_to, distance,
                 ...) between the steps (seeded change C11-r3-3).
  special-positions  exact dyadic data on the branch boundaries of the
                 derived-data formulas (endpoint / vertex / base point at the
                 origin, axis-parallel onto an axis, (p-q).q == 0, antipodal,
                 exact boost onto the origin), gen/c11special.py; the ideal
                 endpoints of polygon edges are also judged by the reference
                 formula (seeded change C11-r4-1).
  setitem-unit   item assignment with keys that reach into the unit axes
                 (vertex axis of polygons; endpoint / row axis of segments and
                 tangent vectors with keys that keep both rows) (seeded change
                 C11-r4-2).
  null rows      exactly-null ideal rows (Pythagorean null vectors) in the
                 primary data of segments / polygons / tangent vectors
                 (special classes 9..11) and of ideal points / geodesics in
                 the query workload: the write watch sees a row replaced by
                 the zero vector as a moved point (seeded change C11-r5-1).
  identity-maps  apply by EXACT identities (module identity, rep[''],
                 standard_rotation(0.), A @ A^-1, composite and integer
                 identities) and other operations that may hand back the
                 source's buffers, followed by item assignments; every live
                 relative must keep its primary data and coherent derived
                 data (seeded change C11-r5-2).  Iteration (list / for / zip /
                 unpacking) is such an operation, in both directions: items
                 edited -> parent judged, parent edited -> items judged
                 (seeded change C11-r6-2).
  query operands tangent-vector queries with a SECOND operand at other base
                 points (angle, isometry_to, both ways: the write watch judges
                 every argument) and point_along with exactly-zero, negative
                 and linspace(0, L, k) distances (seeded changes C11-r6-1,
                 C11-r6-3).
  setters        the documented setter-style entry points (model-coordinate
                 setters with data, coords(model, data), projective / affine
                 coordinates with data, set()) applied to an EXISTING object:
                 derived data is that of the new primary data (seeded change
                 C11-r7-1).
  inherited queries  the Point queries multi-point objects inherit (origin_to,
                 distance, unit_tangent_towards, model coordinates) on
                 segments, geodesics, point pairs and polygons; judged as the
                 property states it: the geometric points are unchanged
                 (projectively) -- the pinned library renormalises in place,
                 so bit-identity is not demanded (seeded change C11-r7-3).
"""
import copy
import os
import weakref
import numpy as np

from ..run import Workload
from .. import attach
from ..ref import hyp as rh
from ..ref import proj as rp
from ..gen import projobjs as G
from ..gen import c11special as SP
from . import c04

ID = "C11"
RULE = ("histories = initial construction route x up to 6 operations from {copy, "
        "deep copy, class-copy, apply (isometry / general matrix / non-form-preserving "
        "matrix; unit or composite; three broadcast modes), reshape, flatten, index, "
        "set item, stack, combine, astype(float32/float64)} on hyperbolic polygons, "
        "segments, tangent vectors and projective polygons of composite shapes "
        "(),(3,),(2,3),(1,3),(2,1,3), with read-only queries interleaved; non-trivial "
        "= at least one operation after construction on an object with auxiliary "
        "data; distinct = distinct (class, dimension, initial shape, multiset of "
        "operations) signatures; plus flatten_to_unit(unit=k) for every k from the unit "
        "rank to the array rank inside such histories, and every construction route x "
        "{tiny, huge, row-wise mixed} scale of the homogeneous representatives")
ASSUMPTIONS = [
    "recomputation = type(obj)(obj.proj_data).aux_data, as the property states it",
    "a hyperbolic segment's ideal endpoints / a tangent vector's projected vector "
    "must follow the primary data only under form-preserving maps (M J M^T = c J, "
    "c>0, relative residual <= 1e-9): other images are 'aux not comparable', and so "
    "is everything derived from them",
    "ConvexPolygon is excluded (constructor re-orders vertices)",
    "flatten_to_unit(unit=k), k >= unit rank, is a flattening in the property's sense: "
    "the result is the same class with composite shape (-1,) + the last k - unit_rank "
    "composite axes, and its derived data has the same composite axes; flatten_to_aux() "
    "is only driven on classes whose derived data has the rank of the primary data",
    "item assignment obj[key] = value follows numpy semantics on proj_data for every key "
    "numpy accepts, provided type(obj)(value) can be built (a vertex-axis key of a "
    "polygon needs a value of rank >= 2; an endpoint-axis key of a segment / tangent "
    "vector must keep both rows); afterwards the derived data is that of the new "
    "proj_data",
    "a recomputation type(obj)(obj.proj_data).aux_data that is not finite although the "
    "stored derived data is finite, for separated interior endpoints (segments) or an "
    "interior base point (tangent vectors), is a stored-vs-recomputed mismatch",
    "a setter call (coordinates in a model with data, coords(model, data), set(data)) on "
    "an existing object replaces its primary data by the given points; afterwards the "
    "derived data is that of the new primary data",
    "an operation other than copy.copy returns an object that owns its data: editing the "
    "result by item assignment neither moves nor de-synchronises any object it was "
    "derived from (also when the operation is geometrically the identity)",
    "an exactly null row (ideal endpoint / vertex) is a legitimate point: a query may "
    "leave it unnormalised but must not replace it by another vector (0 included)",
    "a positive rescaling of a homogeneous representative (1e-9 .. 1e9 per row) does "
    "not change the object: the base point of a tangent vector, the endpoints of a "
    "segment and the vertices of a polygon are rescaled, never the tangent vector row",
    "comparison is projective per row (tangent vectors: equal-sign scalars); "
    "tolerance 1e-7/separation for segments, 1e3*eps(dtype) after astype",
    "copy.copy shares the arrays with its source by Python semantics: after a "
    "shallow copy the history continues with the copy only",
    "plain arrays passed to queries must be bitwise unchanged, except homogeneous "
    "coordinates handed to timelike_to / spacelike_to / hyperboloid_coords, which "
    "may be rescaled in place (projectively unchanged)",
]
ANCHORS = [
    ("geometry_tools/projective.py", "ProjectiveObject.set"),
    ("geometry_tools/projective.py", "ProjectiveObject._construct_from_object"),
    ("geometry_tools/projective.py", "ProjectiveObject.reshape"),
    ("geometry_tools/projective.py", "ProjectiveObject.flatten_to_unit"),
    ("geometry_tools/projective.py", "ProjectiveObject.__getitem__"),
    ("geometry_tools/projective.py", "ProjectiveObject.__setitem__"),
    ("geometry_tools/projective.py", "ProjectiveObject.astype"),
    ("geometry_tools/projective.py", "ProjectiveObject.combine"),
    ("geometry_tools/projective.py", "Polygon._compute_aux_data"),
    ("geometry_tools/projective.py", "Transformation.apply"),
    ("geometry_tools/hyperbolic.py", "Segment._compute_aux_data"),
    ("geometry_tools/hyperbolic.py", "TangentVector._compute_aux_data"),
    ("geometry_tools/hyperbolic.py", "Polygon._compute_aux_data"),
    ("geometry_tools/hyperbolic.py", "TangentVector.origin_to"),
    ("geometry_tools/hyperbolic.py", "Point.origin_to"),
    ("geometry_tools/utils/core.py", "normalize"),
]
REQUIRED = [
    ("geometry_tools/projective.py", "ProjectiveObject.__setitem__", "self.proj_data[key] ="),
    ("geometry_tools/projective.py", "ProjectiveObject.combine", "flattened_objs = ["),
    ("geometry_tools/projective.py", "ProjectiveObject.astype", "new_aux = self.aux_data.astype(dtype)"),
    ("geometry_tools/projective.py", "ProjectiveObject.reshape", "aux_data = self.aux_data.reshape("),
    ("geometry_tools/projective.py", "ProjectiveObject.flatten_to_unit", "new_aux_data = np.reshape(self.aux_data, new_aux_shape)"),
    ("geometry_tools/projective.py", "Transformation.apply", "aux_product = self._apply_to_data("),
    ("geometry_tools/hyperbolic.py", "Segment._compute_aux_data", "ideal_basis = np.stack([null1, null2], axis=-2)"),
    ("geometry_tools/hyperbolic.py", "TangentVector._compute_aux_data", "return np.stack([point_data, projected], axis=-2)"),
]

_not_comparable = weakref.WeakSet()    # aux need not follow proj_data (by precondition)
_reported = weakref.WeakSet()          # stale objects already reported (and their derivatives)
_prec = weakref.WeakKeyDictionary()    # coarsest floating precision upstream of an object
_state = {"history": None}
FORM_TOL = 1e-9


# ---------------------------------------------------------------------------
# the invariant

def _classes():
    from geometry_tools import projective as P, hyperbolic as H
    seen = []
    for mod in (P, H):
        for v in vars(mod).values():
            if isinstance(v, type) and issubclass(v, P.ProjectiveObject) and v not in seen \
                    and v.__module__ == mod.__name__:
                seen.append(v)
    return seen


def eps_of(obj):
    dt = np.asarray(obj.proj_data).dtype
    if dt.kind in "fc":
        return float(np.finfo(dt).eps)
    return float(np.finfo(float).eps)


def prec_of(obj):
    """coarsest eps among the object's dtype and everything it was derived
    from (astype(float32) followed by a float64 product keeps float32 content)."""
    try:
        return max(eps_of(obj), _prec.get(obj, 0.0))
    except TypeError:
        return eps_of(obj)


def inherit(new, *sources):
    """provenance (not-comparable, already-reported, precision) of derived objects."""
    for s in sources:
        if s is None or s is new:
            continue
        try:
            if s in _not_comparable and getattr(new, "aux_ndims", 0) > 0:
                _not_comparable.add(new)
            if s in _reported:
                _reported.add(new)
            p = prec_of(s)
            if p > prec_of(new):
                _prec[new] = p
        except TypeError:
            pass


def coherence(obj):
    """-> (status, deviation, tolerance, detail).  status in {'judge', 'skip:<reason>'}."""
    from geometry_tools import projective as P, hyperbolic as H
    cls = type(obj)
    if cls in (P.ProjectiveObject, H.HyperbolicObject):
        return "skip:generic carrier object", 0, 0, ""
    if isinstance(obj, P.ConvexPolygon):
        return "skip:ConvexPolygon", 0, 0, ""
    if getattr(obj, "aux_ndims", 0) <= 0 or getattr(obj, "proj_data", None) is None:
        return "skip:no auxiliary data", 0, 0, ""
    if obj.aux_data is None:
        return "judge", np.inf, 0.0, "aux_data is None on a class with aux_ndims>0"
    pd = np.asarray(obj.proj_data)
    if pd.dtype.kind not in "biufc":
        return "skip:non-numeric dtype", 0, 0, ""
    if obj in _not_comparable:
        return "skip:aux not comparable (non-form-preserving map upstream)", 0, 0, ""
    if not np.all(np.isfinite(pd)):
        return "skip:non-finite primary data", 0, 0, ""
    tol = max(1e-7, 1e3 * prec_of(obj))
    try:
        with np.errstate(all="ignore"):
            fresh = cls(pd.copy())
            want = fresh.aux_data
    except Exception as e:       # the recomputation itself cannot be done
        return "skip:recomputation raised %s" % type(e).__name__, 0, 0, ""
    if want is None:
        return "skip:recomputation gives no aux", 0, 0, ""
    want = np.asarray(want)
    got = np.asarray(obj.aux_data)
    if got.shape != want.shape:
        return "judge", np.inf, tol, "aux_data shape %r, recomputed %r" % (got.shape, want.shape)
    if not np.all(np.isfinite(want.astype(complex))):
        # In-domain primary data (clearly interior, separated endpoints / an
        # interior base point) has finite derived data.  If the stored one is
        # finite and the recomputation is not, the two differ (seeded change
        # C11-r4-1: an isometry carries correct ideal endpoints onto a segment
        # ending exactly at the origin, where the recomputation divides 0 by 0).
        # Both non-finite: equal as stored data; the aux-reference monitor judges.
        if np.all(np.isfinite(got.astype(complex))) and pd.size and not np.iscomplexobj(pd):
            with np.errstate(all="ignore"):
                if isinstance(obj, H.Segment):
                    indom = bool(np.all(rh.kind(pd, margin=1e-6) == "interior")) and \
                        float(np.min(rp.klein_sep(pd[..., 0, :], pd[..., 1, :]))) >= 1e-5
                elif isinstance(obj, H.TangentVector):
                    indom = bool(np.all(rh.kind(pd[..., 0, :], margin=1e-6) == "interior"))
                else:
                    indom = False
            if indom:
                return "judge", np.inf, tol, ("the recomputation is not finite for in-domain "
                                              "primary data, the stored derived data is")
        return "skip:degenerate primary data (recomputation not finite)", 0, 0, ""
    if isinstance(obj, H.TangentVector):
        with np.errstate(all="ignore"):
            nrm = np.abs(rh.mink_sq(np.real(want[..., 1, :])))
        if np.any(nrm < 1e-12):
            return "skip:zero tangent vector", 0, 0, ""
        return "judge", rp.tangent_dev(got, want, project=(False, False)), tol, ""
    if isinstance(obj, H.Segment):
        sep = float(np.min(rp.klein_sep(pd[..., 0, :], pd[..., 1, :]))) if pd.size else 1.0
        kinds = rh.kind(np.real(pd), margin=1e-9)
        if sep < 1e-5:
            return "skip:coincident endpoints", 0, 0, ""
        tol = tol / sep
        d_ord = rp.max_row_dev(got, want)
        if d_ord <= tol:
            return "judge", d_ord, tol, ""
        d_un = rp.unordered_pair_dev(got, want)
        if d_un <= tol:
            return "judge", d_un, tol, "ideal endpoints swapped"
        if np.any(kinds != "interior"):
            tol = max(tol, 1e-5)
        return "judge", d_un, tol, ""
    return "judge", rp.max_row_dev(got, want), tol, ""


def make_invariant(run):
    from geometry_tools import projective as P
    mon = run.monitor("aux-coherent", min_events=300)

    def check(o, method, derived_from=None):
        if not isinstance(o, P.ProjectiveObject) or not hasattr(o, "proj_data"):
            return
        if derived_from is not None:
            inherit(o, derived_from)
        for src in _state.get("pending") or ():
            inherit(o, src)            # created inside Class.combine([...])
        if o in _reported:
            return mon.skip("stale object already reported (or derived from one)")
        status, dev, tol, detail = coherence(o)
        if status != "judge":
            return mon.skip(status[5:])
        if detail == "ideal endpoints swapped":
            mon.diag("segment ideal endpoints equal as a set, order swapped")
        cls = type(o)
        key = "aux-stale/%s.%s/after:%s" % (cls.__module__.split(".")[-1], cls.__name__, method)
        ok = mon.judge(dev, tol, key,
                       "%s: stored aux_data is not what %s(obj.proj_data) recomputes, at the "
                       "return of %s %s" % (cls.__name__, cls.__name__, method, detail),
                       {"history": _state.get("history"), "class": cls.__name__,
                        "proj_data": np.asarray(o.proj_data), "aux_data": np.asarray(o.aux_data)
                        if o.aux_data is not None else None})
        if not ok:
            _reported.add(o)

    def invariant(obj, method, result):
        check(obj, method)
        results = result if isinstance(result, (tuple, list)) else (result,)
        for r in results[:8]:
            if r is not obj and isinstance(r, P.ProjectiveObject):
                check(r, method, derived_from=obj)
    return invariant, check


def conformal(T):
    """is every matrix of the (row or column alike) transformation a positive
    multiple of an element of O(n,1), by the reference's test?"""
    M = np.asarray(T.proj_data)
    if M.dtype.kind not in "biufc":
        return False
    with np.errstate(all="ignore"):
        res = rp.conformal_residual(M)
    return bool(np.all(res <= FORM_TOL))


# ---------------------------------------------------------------------------
# write watch

def _snap(v):
    from geometry_tools import projective as P
    if isinstance(v, P.ProjectiveObject):
        pd = getattr(v, "proj_data", None)
        ad = getattr(v, "aux_data", None)
        return ("obj", v, None if pd is None else np.array(pd, copy=True),
                None if ad is None else np.array(ad, copy=True))
    if isinstance(v, np.ndarray):
        return ("arr", v, np.array(v, copy=True), None)
    return None


def obj_moved(v, pd0, ad0):
    """projective deviation of an object's data from its snapshot."""
    from geometry_tools import projective as P, hyperbolic as H
    out = 0.0
    pd1 = getattr(v, "proj_data", None)
    if pd0 is not None:
        if pd1 is None or np.shape(pd1) != pd0.shape:
            return np.inf, "primary data replaced"
        if np.asarray(pd1).dtype.kind in "biufc" and pd0.size:
            if isinstance(v, P.Transformation):
                out = max(out, rp.max_mat_dev(pd1, pd0))
            elif isinstance(v, H.TangentVector):
                out = max(out, rp.tangent_dev(pd1, pd0))
                # and row by row as stored projective points (a query has no
                # business rewriting the stored vector row either: seeded C11-2)
                fin = np.all(np.isfinite(pd0.astype(complex)), axis=-1) & \
                    (np.sum(np.abs(pd0) ** 2, axis=-1) > 1e-200)
                if np.any(fin):
                    out = max(out, float(np.max(rp.row_dev(np.asarray(pd1)[fin], pd0[fin]))))
            else:
                fin = np.all(np.isfinite(pd0.astype(complex)), axis=-1) & \
                    (np.sum(np.abs(pd0) ** 2, axis=-1) > 0)
                if np.any(fin):
                    out = max(out, float(np.max(rp.row_dev(np.asarray(pd1)[fin], pd0[fin]))))
    ad1 = getattr(v, "aux_data", None)
    if ad0 is not None:
        if ad1 is None or np.shape(ad1) != ad0.shape:
            return np.inf, "auxiliary data replaced"
        if np.asarray(ad1).dtype.kind in "biufc" and ad0.size:
            if isinstance(v, H.TangentVector):
                with np.errstate(all="ignore"):
                    ok = np.all(np.abs(rh.mink_sq(ad0[..., 1, :])) > 1e-12)
                if ok:
                    out = max(out, rp.tangent_dev(ad1, ad0, project=(False, False)))
            else:
                fin = np.all(np.isfinite(ad0.astype(complex)), axis=-1) & \
                    (np.sum(np.abs(ad0) ** 2, axis=-1) > 0)
                if np.any(fin):
                    out = max(out, float(np.max(rp.row_dev(np.asarray(ad1)[fin], ad0[fin]))))
    return out, ""


SETTER_FIRST_ARG = {"coords": 1, "kleinian_coords": 0, "poincare_coords": 0,
                    "halfspace_coords": 0, "hyperboloid_coords": 0,
                    "projective_coords": 0, "affine_coords": 0}


def attach_write_watch(run):
    from geometry_tools import projective as P, hyperbolic as H
    mon = run.monitor("query-purity", min_events=300)

    def make(label, projective_arrays=False, method=True):
        short = label.split(".")[-1]

        def pre(call):
            args = list(call.args)
            if method and short in SETTER_FIRST_ARG:
                k = SETTER_FIRST_ARG[short] + 1
                data = args[k] if len(args) > k else call.kwargs.get(
                    "proj_data", call.kwargs.get("aff_data"))
                if data is not None:
                    return None        # used as a setter: not a query
            snaps = []
            for v in args + list(call.kwargs.values()):
                s = _snap(v)
                if s is not None:
                    snaps.append(s)
            return snaps

        def hook(call, snaps):
            if snaps is None:
                return mon.skip("setter call")
            if call.exc is not None:
                return
            for kind, v, a0, b0 in snaps:
                if kind == "obj":
                    if b0 is not None and v in _not_comparable:
                        b0 = None      # derived data that need not follow the primary data
                    dev, why = obj_moved(v, a0, b0)
                    # in-place renormalisation is exact up to the data's own precision
                    qtol = max(1e-10, 1e3 * prec_of(v)) if a0 is not None else 1e-10
                    mon.judge(dev, qtol, "query-purity/object-moved/%s" % label,
                              "%s changed the geometric content of a %s it was given %s"
                              % (label, type(v).__name__, why),
                              {"query": label, "history": _state.get("history"),
                               "before": a0, "after": getattr(v, "proj_data", None)})
                    if a0 is not None and not np.array_equal(a0, v.proj_data, equal_nan=True):
                        mon.diag("%s rescales primary data in place (projectively unchanged)" % label)
                else:
                    same = np.array_equal(a0, v, equal_nan=True) if a0.dtype.kind in "biufc" \
                        else True
                    if same:
                        mon.ok(0.0)
                    elif projective_arrays:
                        mon.judge(rp.max_row_dev(v, a0),
                                  max(1e-12, 1e2 * float(np.finfo(a0.dtype).eps)
                                      if a0.dtype.kind in "fc" else 1e-12),
                                  "query-purity/caller-array-moved/%s" % label,
                                  "%s changed the points represented by the caller's array" % label,
                                  {"query": label, "before": a0, "after": np.array(v)})
                        mon.diag("%s rescales the caller's array in place" % label)
                    else:
                        mon.fail("query-purity/caller-array-changed/%s" % label,
                                 "%s wrote into an array passed by the caller" % label,
                                 {"query": label, "before": a0, "after": np.array(v)})
        return pre, hook

    targets = [
        (H.HyperbolicObject, ["coords", "kleinian_coords"]),
        (H.Point, ["coords", "hyperboloid_coords", "poincare_coords", "halfspace_coords",
                   "distance", "origin_to", "unit_tangent_towards"]),
        (P.ProjectiveObject, ["projective_coords", "affine_coords"]),
        (H.Subspace, ["ideal_basis_coords", "sphere_parameters", "spacelike_complement",
                      "reflection_across", "boundary_sphere_parameters"]),
        (H.PointPair, ["endpoint_coords", "get_endpoints", "get_end_pair"]),
        (P.PointPair, ["get_endpoints", "get_end_pair", "endpoint_affine_coords",
                       "endpoint_projective_coords"]),
        (H.Geodesic, ["circle_parameters"]),
        (H.Segment, ["circle_parameters", "ideal_endpoint_coords", "geodesic"]),
        (H.TangentVector, ["normalized", "origin_to", "isometry_to", "angle", "point_along"]),
        (H.Horosphere, ["sphere_parameters", "center_coords", "ref_coords"]),
        (H.Polygon, ["get_vertices", "get_edges"]),
        (P.Polygon, ["get_vertices", "get_edges"]),
        (H.Isometry, ["fixed_point", "fixed_point_pair", "axis"]),
        (P.Transformation, ["inv", "apply"]),
        (P.Subspace, ["intersect"]),
    ]
    n = 0
    for cls, names in targets:
        for name in names:
            if name not in cls.__dict__:
                continue
            label = "%s.%s" % (cls.__name__, name)
            pre, hook = make(label)
            attach.wrap_attr(run, cls, name, hook, pre=pre, label="ww:" + label)
            n += 1
    for fname in ("timelike_to", "spacelike_to", "hyperboloid_coords"):
        pre, hook = make("hyperbolic." + fname, projective_arrays=True, method=False)
        attach.wrap_everywhere(run, getattr(H, fname), hook, pre=pre, label="ww:hyperbolic." + fname)
    for fname in ("kleinian_to_poincare", "poincare_to_kleinian", "poincare_to_halfspace",
                  "halfspace_to_poincare"):
        pre, hook = make("hyperbolic." + fname, projective_arrays=False, method=False)
        attach.wrap_everywhere(run, getattr(H, fname), hook, pre=pre, label="ww:hyperbolic." + fname)
    return n


# ---------------------------------------------------------------------------
# setup

def setup(run):
    from geometry_tools import projective as P, hyperbolic as H
    c04.attach_funnel(run, deciding=False)
    invariant, check = make_invariant(run)
    _state["check"] = check

    # provenance of "aux not comparable": set before the invariant looks
    def apply_hook(call):
        if call.exc is not None:
            return
        b = call.bound()
        T, X = b.get("self"), b.get("proj_obj")
        res = call.result
        if not isinstance(X, P.ProjectiveObject) or not isinstance(res, P.ProjectiveObject):
            return
        inherit(res, X)
        if prec_of(T) > prec_of(res):
            _prec[res] = prec_of(T)
        if getattr(X, "aux_ndims", 0) > 0 and isinstance(X, (H.Segment, H.TangentVector)):
            if not conformal(T):
                _not_comparable.add(res)
    attach.wrap_attr(run, P.Transformation, "apply", apply_hook, label="taint:apply")

    def construct_hook(call):
        if call.exc is not None:
            return
        b = call.bound()
        new, src = b.get("self"), b.get("hyp_obj")
        srcs = [src] if isinstance(src, P.ProjectiveObject) else (
            list(src) if isinstance(src, (list, tuple)) else [])
        for s in srcs:
            if isinstance(s, P.ProjectiveObject):
                inherit(new, s)
    attach.wrap_attr(run, P.ProjectiveObject, "_construct_from_object", construct_hook,
                     label="taint:construct")

    # Class.combine([...]) is a classmethod: everything built inside it derives
    # from the objects in its argument list
    def combine_pre(call):
        objs = call.args[1] if len(call.args) > 1 else call.kwargs.get("to_combine", ())
        try:
            _state["pending"] = [o for o in objs if isinstance(o, P.ProjectiveObject)]
        except TypeError:
            _state["pending"] = []
        return None

    def combine_post(call, st):
        pend = _state.pop("pending", None) or []
        if call.exc is None and isinstance(call.result, P.ProjectiveObject):
            inherit(call.result, *pend)
    attach.wrap_attr(run, P.ProjectiveObject, "combine", combine_post, pre=combine_pre,
                     label="taint:combine")

    attach_write_watch(run)
    for cls in _classes():
        if cls is P.ConvexPolygon:
            continue
        attach.attach_invariant(run, cls, invariant)
    run.monitor("aux-reference", min_events=100)
    run.monitor("history", min_events=100)


# ---------------------------------------------------------------------------
# histories

HKINDS = ["H.Polygon", "H.Segment", "H.TangentVector", "P.Polygon"]
LIFTS = ["tiny", "huge", "mixed"]
SPECIAL_KINDS = ["H.Segment", "H.Polygon", "H.TangentVector"]


def lift_scales(rng, shape, lift):
    """positive factors, one per homogeneous row: the scale class of the
    projective lift.  tiny 1e-6..1e-9, huge 1e6..1e9, mixed = each row
    independently unit / tiny / huge.  The geometric data does not depend on
    it; library code with an *absolute* threshold does (seeded change C11-r3-3:
    |<p,p>| < 1e-12 taken for a null vector)."""
    shape = tuple(shape) + (1,)
    e = rng.uniform(6.0, 9.0, size=shape)
    if lift == "tiny":
        return 10.0 ** (-e)
    if lift == "huge":
        return 10.0 ** e
    pick = rng.integers(0, 3, size=shape)
    return np.where(pick == 0, 1.0, np.where(pick == 1, 10.0 ** (-e), 10.0 ** e))


def rescale_raw(rng, kind, raw, lift):
    """the same object from other representatives of its points: base point of
    a tangent vector (the vector row carries a magnitude: untouched),
    endpoints of a segment, vertices of a polygon."""
    if not lift:
        return raw
    out = G.copy_raw(raw)
    names = {"H.TangentVector": ["P"], "H.Segment": ["P", "Q"]}.get(kind, ["X"])
    for k in names:
        out[k] = out[k] * lift_scales(rng, out[k].shape[:-1], lift)
    return out


def draw_value(rng, kind, n, shape, nv=None):
    """raw inputs of a further object entering the history (item value,
    stacking / combining partner), in the case's scale class."""
    sp = _state.get("special")
    if sp is not None and kind in SPECIAL_KINDS:
        return SP.draw(rng, kind, n, shape, sp["class"], sp.get("boost"), nv=nv)
    raw = G.draw(rng, kind, n, shape, nv=nv)
    return rescale_raw(rng, kind, raw, _state.get("lift"))
OPS = ["copy", "deepcopy", "class-copy", "apply", "apply-composite", "apply-pairwise",
       "apply-nonform", "reshape", "flatten", "index", "setitem", "setitem-raw", "stack",
       "combine", "astype32", "astype64", "query"]
# further operations, driven by the targeted workloads (not in the random draw
# of wl_history, whose case stream stays what it was)
EXTRA_OPS = ["flatten-unit", "flatten-aux", "query-normalising", "apply-given", "setitem-unit",
             "apply-identity", "same-astype", "same-reshape", "full-index", "iterate",
             "iterate-siblings", "setitem-all", "reset-coords"]
SETTERS = {
    "tangent": ["set", "projective_coords", "coords:projective", "hyperboloid_coords",
                "coords:hyperboloid"],
    "hyperbolic": ["kleinian_coords", "coords:klein", "poincare_coords", "coords:poincare",
                   "halfspace_coords", "coords:halfspace", "hyperboloid_coords",
                   "coords:hyperboloid", "projective_coords", "coords:projective", "set",
                   "affine_coords"],
    "projective": ["set", "projective_coords", "affine_coords", "affine_coords:1"],
}
IDENTITIES = ["module-identity", "rep-empty-word", "rotation-by-0", "A@A.inv", "composite-identity",
              "integer-identity", "matmul-module-identity"]


def identity_map(rng, kind, n, shape, which):
    """a transformation that is geometrically the identity, in the ways a user
    gets one: every matrix exactly np.eye except (possibly) A @ A.inv()."""
    from geometry_tools import projective as P, hyperbolic as H
    hyp = G.KINDS[kind][1]
    name = IDENTITIES[which % len(IDENTITIES)]
    eye = np.eye(n + 1)
    if name in ("module-identity", "matmul-module-identity"):
        T = H.identity(n) if hyp else P.identity(n)
    elif name == "rep-empty-word":
        rep = H.HyperbolicRepresentation() if hyp else P.ProjectiveRepresentation()
        tk = "H.Isometry" if hyp else "P.Transformation"
        rep["a"] = G.build(tk, G.draw(rng, tk, n, ()))
        T = rep[""]
    elif name == "rotation-by-0":
        T = H.Isometry.standard_rotation(0.0, dimension=n) if hyp else P.Transformation(eye)
    elif name == "A@A.inv":
        if hyp:
            A = H.Isometry(SP.exact_boost(n, 1 + int(rng.integers(0, n)),
                                          int(rng.choice([1, 2, -1])))[0], column_vectors=True)
        else:
            A = P.Transformation(np.diag(2.0 ** rng.integers(-2, 3, size=n + 1)))
        T = A @ A.inv()
    elif name == "composite-identity":
        tshape = tuple(shape[-1:])
        M = np.broadcast_to(eye, tshape + eye.shape).copy()
        T = H.Isometry(M) if hyp else P.Transformation(M)
    else:
        M = np.eye(n + 1, dtype=np.int64)
        T = H.Isometry(M) if hyp else P.Transformation(M)
    return T, name


class Model:
    """numpy-only model of the history: the primary data the object must carry
    (projectively, per unit) and whether its aux is comparable."""

    def __init__(self, kind, n, prim):
        self.kind = kind
        self.n = n
        self.prim = np.array(prim, copy=True)
        self.unit = G.KINDS[kind][2]
        self.comparable = True
        self.lowprec = False

    @property
    def shape(self):
        return self.prim.shape[:self.prim.ndim - self.unit]


def explicit_check(run, obj, model, step, opname):
    """after every step: ambient-style coherence check + reference formula +
    model of the primary data."""
    hist = run.monitor("history")
    ref = run.monitor("aux-reference")
    case = {"history": _state.get("history"), "step": step}
    if not hist.require(type(obj) is G.class_of(model.kind),
                        "history/class/after:%s" % opname,
                        "after %s the object is a %s" % (opname, type(obj).__name__), case):
        return False
    if not hist.require(tuple(obj.shape) == tuple(model.shape), "history/shape/after:%s" % opname,
                        "after %s the composite shape is %r, the model says %r"
                        % (opname, obj.shape, model.shape), case):
        return False
    tol = 1e-4 if model.lowprec else 1e-8
    if model.kind == "H.TangentVector":
        dev = rp.tangent_dev(np.real(obj.proj_data), model.prim)
    else:
        dev = rp.max_row_dev(obj.proj_data, model.prim)
    if not hist.judge(dev, tol, "history/primary/after:%s" % opname,
                      "after %s the primary data is not what the history gives" % opname, case):
        return False
    # composite axes of the derived data are those of the primary data (numpy
    # only; also for 'aux not comparable' objects): flatten_to_unit(unit=k)
    # reshaping the two arrays by different rules (seeded change C11-r3-2)
    aux = getattr(obj, "aux_data", None)
    if aux is not None and getattr(obj, "aux_ndims", 0) > 0:
        axes = tuple(np.shape(aux)[:max(0, np.ndim(aux) - obj.aux_ndims)])
        if not hist.require(np.ndim(aux) >= obj.aux_ndims and axes == tuple(model.shape),
                            "history/aux-composite-axes/%s/after:%s" % (model.kind, opname),
                            "after %s the derived data has composite axes %r (array shape %r), "
                            "the primary data %r (array shape %r)"
                            % (opname, axes, np.shape(aux), tuple(model.shape),
                               np.shape(obj.proj_data)), case):
            _reported.add(obj)
            return False
    _state["check"](obj, opname)
    if obj in _reported:
        return False
    if model.comparable and obj not in _not_comparable:
        auxk = G.KINDS[model.kind][3]
        rtol = 1e-3 if model.lowprec else 1e-6
        if auxk == "ideal":
            sep = float(np.min(rp.klein_sep(model.prim[..., 0, :], model.prim[..., 1, :])))
            if sep < 1e-3:
                ref.skip("nearly coincident endpoints")
                return True
            rtol = rtol / sep
        with np.errstate(all="ignore"):
            d = G.reference_aux_dev(model.kind, np.asarray(obj.proj_data, dtype=float),
                                    np.asarray(obj.aux_data, dtype=float))
        if not ref.judge(d, rtol, "aux-reference/%s/after:%s" % (model.kind, opname),
                         "after %s the stored derived data is not what the reference formula "
                         "gives for the stored primary data (%s)" % (opname, model.kind), case):
            _reported.add(obj)
            return False
    else:
        ref.skip("aux not comparable")
    return accessor_check(run, obj, model, opname, case)


def accessor_check(run, obj, model, opname, case):
    """the derived data as *read through the public accessors* (the property's
    observation points Polygon.get_edges(), Segment.ideal_endpoint_coords()) is
    what a freshly built object gives for the same primary data -- a cache
    inside an accessor can go stale while aux_data itself stays right (seeded
    change C11-3).  Called after every step, so an accessor has always been
    read before the next mutation."""
    acc = run.monitor("accessors", min_events=50)
    if obj in _reported or (not model.comparable) or obj in _not_comparable:
        return True
    tol = 1e-3 if model.lowprec else 1e-6
    try:
        if hasattr(obj, "get_edges") and model.kind.endswith("Polygon"):
            got = obj.get_edges()
            fresh = type(obj)(np.array(obj.proj_data, copy=True)).get_edges()
            dev = rp.max_row_dev(np.asarray(got.proj_data), np.asarray(fresh.proj_data))
            if getattr(got, "aux_data", None) is not None and getattr(fresh, "aux_data", None) is not None:
                ga, fa = np.asarray(got.aux_data, dtype=float), np.asarray(fresh.aux_data, dtype=float)
                # ideal endpoints of an edge are conditioned like 1/separation
                sep = float(np.min(rp.klein_sep(model.prim, np.roll(model.prim, -1, axis=-2))))
                if ga.shape == fa.shape and np.all(np.isfinite(fa)) and sep >= 1e-3:
                    dev = max(dev, float(np.max(rp.unordered_pair_dev(ga, fa))) * sep)
            ok = acc.judge(dev, tol, "accessors/get_edges-stale/%s/after:%s" % (model.kind, opname),
                           "after %s, %s.get_edges() is not what a fresh object built from the "
                           "same proj_data returns" % (opname, model.kind), case)
            if ok and model.kind == "H.Polygon":
                ok = edges_reference_check(run, got, model, opname, case)
            return ok
        if model.kind == "H.Segment":
            sep = float(np.min(rp.klein_sep(model.prim[..., 0, :], model.prim[..., 1, :])))
            if sep < 1e-3:
                acc.skip("nearly coincident endpoints")
                return True
            got = np.asarray(obj.ideal_endpoint_coords("klein"), dtype=float)
            fresh = np.asarray(type(obj)(np.array(obj.proj_data, copy=True)).ideal_endpoint_coords("klein"),
                               dtype=float)
            if got.shape != fresh.shape:
                return acc.fail("accessors/ideal_endpoint_coords-shape/after:%s" % opname,
                                "shape %r vs %r" % (got.shape, fresh.shape), case)
            if not np.all(np.isfinite(fresh)):
                acc.skip("non-finite ideal endpoints of the fresh object")
                return True
            dev = float(np.max(rp.unordered_pair_dev(got, fresh)))
            return acc.judge(dev, tol / sep, "accessors/ideal_endpoint_coords-stale/after:%s" % opname,
                             "after %s, Segment.ideal_endpoint_coords() is not what a fresh object "
                             "built from the same proj_data returns" % opname, case)
    except Exception as e:
        import traceback
        from .. import core
        if core.raised_in_harness(e.__traceback__):
            raise
        return acc.fail("accessors/exception:%s/%s/after:%s" % (type(e).__name__, model.kind, opname),
                        "reading the derived data through its accessor raised %s: %s"
                        % (type(e).__name__, str(e)[:120]), case, tb=traceback.format_exc())
    return True


def edges_reference_check(run, edges, model, opname, case):
    """the segments returned by hyperbolic Polygon.get_edges() carry derived
    data of their own (ideal endpoints), computed by the library on both sides
    of the accessor comparison above: judged here by the library-free chord /
    sphere formula (seeded change C11-r4-1: NaN ideal endpoints for an edge
    ending at the origin, on the fresh object just as well)."""
    ref = run.monitor("aux-reference")
    ep = np.asarray(edges.proj_data)
    ea = getattr(edges, "aux_data", None)
    if ea is None or ep.dtype.kind not in "biuf" or not ep.size or not np.all(np.isfinite(ep)):
        ref.skip("edges without numeric derived data")
        return True
    ep = ep.astype(float)
    with np.errstate(all="ignore"):
        interior = bool(np.all(rh.kind(ep, margin=1e-3) == "interior"))
        sep = float(np.min(rp.klein_sep(ep[..., 0, :], ep[..., 1, :])))
    if not interior or not sep >= 1e-3:
        ref.skip("edge endpoints not clearly interior / nearly coincident")
        return True
    ea = np.asarray(ea)
    if ea.dtype.kind not in "biuf":
        d = np.inf
    else:
        with np.errstate(all="ignore"):
            d = G.reference_aux_dev("H.Segment", ep, ea.astype(float))
    rtol = (1e-3 if model.lowprec else 1e-6) / sep
    return ref.judge(d, rtol, "aux-reference/H.Polygon.get_edges/after:%s" % opname,
                     "after %s the ideal endpoints stored in Polygon.get_edges() are not the "
                     "ideal points of the lines through the edges' endpoints" % opname, case)


def relatives_check(run, relatives, step, opname):
    """objects the current one was derived from (by class-copy, reshape,
    flatten, index, astype, deepcopy, apply, stack, combine -- not by the shallow
    copy.copy, which shares arrays by definition) must stay coherent while
    their descendant is edited: buffers shared between relatives (seeded change
    C11-1: item assignment writing the recomputed aux data into the old buffer)
    show up as a relative whose aux_data no longer follows its own proj_data."""
    hist = run.monitor("history")
    for r in relatives:
        r, mr = r if isinstance(r, tuple) else (r, None)
        if r in _reported:
            continue
        if mr is not None:
            # ... and must not move: the model of the history at the time the
            # relative was the current object is what it still has to carry
            # (seeded change C11-r5-2: apply by an exact identity returns the
            # shallow copy, so item assignment on the image writes into the source)
            pd = np.asarray(r.proj_data)
            if pd.dtype.kind in "biuf" and mr.prim.dtype.kind in "biuf":
                if mr.kind == "H.TangentVector":
                    dev = rp.tangent_dev(pd, mr.prim)
                else:
                    dev = rp.max_row_dev(pd, mr.prim)
                if not hist.judge(dev, 1e-4 if mr.lowprec else 1e-8,
                                  "history/relative-moved/%s/after:%s" % (mr.kind, opname),
                                  "after %s on a derived object, an object it was derived from "
                                  "no longer carries its own primary data" % opname,
                                  {"history": _state.get("history"), "step": step}):
                    _reported.add(r)
                    continue
        if r in _not_comparable:
            continue
        _state["check"](r, "relative-after:" + opname)


def do_queries(rng, obj, kind):
    """a few read-only queries (results discarded; the write watch judges)."""
    from geometry_tools import hyperbolic as H
    with np.errstate(all="ignore"):
        q = int(rng.integers(0, 4))
        if kind != "P.Polygon" and q == 0:
            # normalises the object's own primary data in place (projectively
            # harmless; the stored derived data must keep describing it)
            obj.hyperboloid_coords()
        if kind in ("H.Polygon", "P.Polygon"):
            obj.get_vertices()
            e = obj.get_edges()
            if kind == "H.Polygon":
                obj.coords("klein")
                obj.coords("projective")
                if q == 1:
                    # Point queries a polygon inherits (one frame / distance per
                    # vertex): the vertices stay where they are (C11-r7-3)
                    obj.origin_to()
                    obj.distance(H.Point(np.array(obj.proj_data, copy=True)))
                v = obj.get_vertices()
                v.coords(("poincare", "hyperboloid", "klein", "halfspace")[q])
                if obj.dimension == 2 and q % 2:
                    e.ideal_endpoint_coords("klein")
            else:
                obj.projective_coords()
                e.get_end_pair()
        elif kind == "H.Segment":
            obj.endpoint_coords("klein")
            obj.ideal_endpoint_coords(("klein", "poincare")[q % 2])
            obj.get_end_pair()
            obj.geodesic()
            if obj.dimension == 2:
                obj.circle_parameters(model="poincare", degrees=bool(q % 2))
                obj.sphere_parameters("poincare")
            a, b = obj.get_end_pair(as_points=True)
            a.distance(b)
            a.origin_to()
            # ... and the Point queries the segment itself inherits (C11-r7-3:
            # a frame completion running in place on the endpoint rows)
            if q % 2:
                obj.origin_to()
            else:
                obj.distance(H.Point(np.array(obj.proj_data, copy=True)))
                pdq = np.asarray(obj.proj_data)
                if pdq.dtype.kind in "iuf" and np.all(np.isfinite(pdq)) and \
                        np.all(rh.kind(pdq.astype(float), margin=1e-6) == "interior"):
                    # (a unit tangent at an ideal / exterior base point is out of domain)
                    obj.unit_tangent_towards(H.Point(np.array(pdq[..., ::-1, :], copy=True)))
        elif kind == "H.TangentVector":
            obj.normalized()
            obj.origin_to()
            obj.point_along(distance_class(q, tuple(obj.shape)))
            obj.angle(obj.normalized())
            obj.isometry_to(obj)
            other = other_tangent(obj)
            if other is not None:
                # the second operand of a query is an object the query must not
                # move either (the write watch snapshots every argument)
                obj.angle(other)
                other.angle(obj)
                if q >= 2:
                    (obj.isometry_to if q % 2 else other.isometry_to)(other if q % 2 else obj)
            if np.all(np.asarray(obj.proj_data)[..., 0] != 0):
                # (affine coordinates of the vector row need a non-zero time
                # coordinate: exact special-position vectors may lie in t = 0)
                obj.coords("klein")
            H.Point(obj.point).hyperboloid_coords()


def distance_class(q, shape):
    """distances for TangentVector.point_along: positive, EXACTLY zero,
    negative, and a ray sampled from its base point (np.linspace(0, L, k): the
    first distance is exactly 0.0).  sinh(0) == 0 and sinh(r) < 0 are where an
    in-place rescaling of the stored frame by (cosh r, sinh r) stops being a
    positive rescaling (seeded change C11-r6-3)."""
    q = q % 4
    if q == 0:
        return 0.3
    if q == 1:
        return 0.0
    if q == 2:
        return -0.4
    size = int(np.prod(shape, dtype=int)) if shape else 1
    d = np.linspace(0.0, 1.0, max(size, 2))[:size].reshape(shape)
    return d if shape else float(d)


def other_tangent(obj):
    """a tangent vector at OTHER base points (the image of obj's stored primary
    data under a fixed boost, numpy only; no random numbers are consumed), as
    second operand of two-operand queries: with a common base point the
    re-projection of the operand's vector is invisible (seeded change
    C11-r6-1: angle() rewrites other's stored projected vector in place)."""
    from geometry_tools import hyperbolic as H
    pd = np.asarray(obj.proj_data)
    if obj in _not_comparable or pd.dtype.kind not in "iuf" or not pd.size:
        return None
    pd = pd.astype(float)
    with np.errstate(all="ignore"):
        if not np.all(np.isfinite(pd)) or \
                not np.all(rh.kind(pd[..., 0, :], margin=1e-6) == "interior"):
            return None
    B = rh.boost(pd.shape[-1] - 1, 1, 0.6)
    if pd.shape[-1] > 2:
        B = B @ rh.boost(pd.shape[-1] - 1, 2, -0.35)
    new = H.TangentVector(pd @ B.T)
    inherit(new, obj)
    return new


NORMALISING = {
    "H.TangentVector": ["origin_to", "hyperboloid_coords", "isometry_to", "point_along",
                        "coords:hyperboloid", "normalized+angle"],
    "H.Segment": ["hyperboloid_coords", "endpoints:distance+origin_to", "coords:poincare",
                  "ideal_endpoint_coords", "coords:hyperboloid", "geodesic", "origin_to",
                  "distance:self"],
    "H.Polygon": ["hyperboloid_coords", "vertices:origin_to+distance", "coords:poincare",
                  "edges:ideal_endpoint_coords", "coords:hyperboloid", "origin_to",
                  "distance:self"],
    "P.Polygon": ["projective_coords", "affine_coords", "edges:get_end_pair"],
}


def normalising_query(obj, kind, which):
    """one read-only query of the family that rescales / re-orthogonalises
    stored arrays in place (utils.normalize writes into its argument).  The
    write watch and the invariant judge; the result is discarded."""
    names = NORMALISING[kind]
    name = names[which % len(names)]
    with np.errstate(all="ignore"):
        if name == "origin_to":
            obj.origin_to()
        elif name == "hyperboloid_coords":
            obj.hyperboloid_coords()
        elif name == "distance:self":
            from geometry_tools import hyperbolic as H
            obj.distance(H.Point(np.array(obj.proj_data, copy=True)))
        elif name == "isometry_to":
            obj.isometry_to(obj)
        elif name == "point_along":
            obj.point_along(distance_class(which // len(names), tuple(obj.shape)))
        elif name.startswith("coords:"):
            obj.coords(name[7:])
        elif name == "normalized+angle":
            obj.angle(obj.normalized())
        elif name == "endpoints:distance+origin_to":
            a, b = obj.get_end_pair(as_points=True)
            a.distance(b)
            b.origin_to()
        elif name == "ideal_endpoint_coords":
            obj.ideal_endpoint_coords("poincare")
        elif name == "geodesic":
            obj.geodesic().ideal_basis_coords("klein")
        elif name == "vertices:origin_to+distance":
            v = obj.get_vertices()
            v.origin_to()
            v.distance(v)
        elif name == "edges:ideal_endpoint_coords":
            obj.get_edges().ideal_endpoint_coords("klein")
        elif name == "projective_coords":
            obj.projective_coords()
        elif name == "affine_coords":
            obj.affine_coords()
        elif name == "edges:get_end_pair":
            obj.get_edges().get_end_pair()
        else:
            raise ValueError(name)
    return name


def apply_step(run, rng, op, obj, model, step):
    """-> (obj, model, status) ; status 'ok' | 'skip:<why>' | 'violation'."""
    from geometry_tools import projective as P, hyperbolic as H
    kind, n = model.kind, model.n
    cls = type(obj)
    hyp = G.KINDS[kind][1]
    shape = tuple(model.shape)
    hist = run.monitor("history")
    case = {"history": _state.get("history"), "step": step}
    if op == "copy":
        new = copy.copy(obj)
        inherit(new, obj)
        return new, model, "ok"
    if op == "deepcopy":
        new = copy.deepcopy(obj)
        inherit(new, obj)
        return new, model, "ok"
    if op == "class-copy":
        return cls(obj), model, "ok"
    if op in ("apply", "apply-composite", "apply-pairwise", "apply-nonform"):
        if op == "apply":
            tshape, mode = (), "elementwise"
        elif op == "apply-composite":
            tshape = shape[-1:] if shape else (2,)
            mode = "elementwise"
        elif op == "apply-pairwise":
            if len(shape) >= 3 or int(np.prod(shape, dtype=int)) > 12:
                return obj, model, "skip:composite too large for pairwise"
            tshape = (2,)
            mode = ("pairwise", "pairwise_reversed")[int(rng.integers(0, 2))]
        else:
            tshape, mode = (), "elementwise"
        if op == "apply-nonform" or not hyp:
            tkind = "P.Transformation"
        else:
            tkind = "H.Isometry"
        traw = G.draw(rng, tkind, n, tshape)
        T = G.build(tkind, traw)
        M = G.row_matrix(tkind, traw)
        new = T.apply(obj, broadcast=mode)
        exp, _ = rp.loop_matrix_product(model.prim, M, model.unit, 2, mode)
        m2 = copy.copy(model)
        m2.prim = exp
        if op == "apply-nonform" and kind in ("H.Segment", "H.TangentVector"):
            m2.comparable = False
            if not hist.require(new in _not_comparable, "history/not-comparable-table",
                                "image of a hyperbolic %s under a general matrix was not entered "
                                "in the aux-not-comparable table (monitor bug)" % kind, case):
                return new, m2, "violation"
        return new, m2, "ok"
    if op == "reshape":
        total = int(np.prod(shape, dtype=int)) if shape else 1
        choices = [(total,), (1, total), (total, 1)] + \
            [(a, total // a) for a in range(2, total) if total % a == 0]
        new_shape = choices[int(rng.integers(0, len(choices)))]
        new = obj.reshape(new_shape)
        m2 = copy.copy(model)
        m2.prim = model.prim.reshape(new_shape + model.prim.shape[model.prim.ndim - model.unit:])
        return new, m2, "ok"
    if op == "flatten":
        new = obj.flatten_to_unit()
        m2 = copy.copy(model)
        m2.prim = model.prim.reshape((-1,) + model.prim.shape[model.prim.ndim - model.unit:])
        return new, m2, "ok"
    if op in ("flatten-unit", "flatten-aux"):
        # flatten down to an explicit unit of k >= unit_ndims axes: the last
        # k - unit_ndims composite axes are kept, the others merged.  Primary
        # and derived data must be reshaped alike (seeded change C11-r3-2:
        # derived data always flattened to its own rank)
        rank = model.prim.ndim
        if op == "flatten-aux":
            if getattr(obj, "aux_ndims", 0) != model.unit:
                return obj, model, "skip:flatten_to_aux on a class whose derived data has another rank"
            k = model.unit
            new = obj.flatten_to_aux()
        else:
            k = _state.get("unit_k") or int(rng.integers(model.unit, rank + 1))
            k = max(model.unit, min(int(k), rank))
            new = obj.flatten_to_unit(unit=k)
        if isinstance(_state.get("history"), dict):
            _state["history"].setdefault("units", []).append(k)
        m2 = copy.copy(model)
        m2.prim = model.prim.reshape((-1,) + model.prim.shape[rank - k:])
        return new, m2, "ok"
    if op == "apply-identity":
        # the model: nothing changes -- and the image owns its data, like the
        # image under any other map (seeded change C11-r5-2)
        base = _state.get("ident")
        which = int(rng.integers(0, 70)) if base is None else base + step
        T, name = identity_map(rng, kind, n, shape, which)
        if isinstance(_state.get("history"), dict):
            _state["history"].setdefault("identities", []).append(name)
        new = (T @ obj) if name.startswith("matmul") else T.apply(obj)
        return new, copy.copy(model), "ok"
    if op in ("same-astype", "same-reshape", "full-index"):
        # further operations that are the identity on the data and could hand
        # back the source's buffers (same-dtype astype: seeded change C11-r5-3)
        if op == "same-astype":
            new = obj.astype(np.asarray(obj.proj_data).dtype)
        elif op == "same-reshape":
            new = obj.reshape(tuple(shape))
        else:
            new = obj[...] if step % 2 else obj[(slice(None),) * len(shape)] if shape else obj[...]
        return new, copy.copy(model), "ok"
    if op in ("iterate", "iterate-siblings"):
        # items obtained by ITERATION over the first composite axis are objects
        # of their own, like obj[i] (seeded change C11-r6-2: an __iter__ that
        # hands out numpy views of the parent).  "iterate": the history goes on
        # with one item, the parent stays among the relatives; "-siblings": it
        # goes on with the parent, every item joins the relatives
        if not shape:
            return obj, model, "skip:unit object"
        base = _state.get("ident")
        mode = (int(rng.integers(0, 4)) if base is None else base) + step
        if mode % 4 == 0:
            items = list(obj)
        elif mode % 4 == 1:
            items = [x for x in obj]
        elif mode % 4 == 2:
            items = [x for x, _ in zip(obj, range(shape[0]))]
        else:
            first, *rest = obj
            items = [first] + rest
        if not hist.require(len(items) == shape[0] and all(type(x) is cls for x in items),
                            "history/iteration/items/%s" % kind,
                            "iterating a %s of composite shape %r gives %d items of types %s"
                            % (kind, shape, len(items), sorted({type(x).__name__ for x in items})),
                            case):
            return obj, model, "violation"
        models = []
        for i, x in enumerate(items):
            inherit(x, obj)
            mi = copy.copy(model)
            mi.prim = np.array(model.prim[i], copy=True)
            models.append(mi)
        if op == "iterate":
            i = int(rng.integers(0, shape[0]))
            _state["extra_relatives"] = [(x, m) for k, (x, m) in enumerate(zip(items, models))
                                         if k != i][:2]
            return items[i], models[i], "ok"
        _state["extra_relatives"] = list(zip(items, models))[:3]
        return obj, model, "ok"
    if op == "reset-coords":
        # a setter-style entry point on the EXISTING object: new primary data,
        # given in some model; the derived data must be recomputed from it
        # (seeded change C11-r7-1: the affine-chart setter hands the old
        # aux_data to set(), which then keeps it)
        from ..ref import circles as rc
        raw = draw_value(rng, kind, n, shape, nv=model.prim.shape[-2] if "Polygon" in kind else None)
        new = np.asarray(G.primary(kind, raw), dtype=float)
        table = SETTERS["tangent" if kind == "H.TangentVector" else
                        "hyperbolic" if hyp else "projective"]
        base = _state.get("setter")
        name = table[(int(rng.integers(0, 60)) if base is None else base + step) % len(table)]
        if isinstance(_state.get("history"), dict):
            _state["history"].setdefault("setters", []).append(name)
        mname, _, arg = name.partition(":")
        if kind == "H.TangentVector":
            data = np.array(new, copy=True)
            if "hyperboloid" in name:
                data[..., 0, :] = rh.hyperboloid_pos(new[..., 0, :])
        elif not hyp:
            ch = 1 if arg == "1" else 0
            data = np.array(new, copy=True) if mname != "affine_coords" else \
                np.delete(new, ch, axis=-1) / new[..., ch:ch + 1]
        else:
            mdl = arg or {"kleinian_coords": "klein", "poincare_coords": "poincare",
                          "halfspace_coords": "halfspace", "affine_coords": "klein"}.get(mname, mname)
            if mdl in ("klein", "poincare", "halfspace"):
                data = rc.model_of_proj(new, mdl)
            elif mdl in ("hyperboloid", "hyperboloid_coords"):
                data = rh.hyperboloid_pos(new)
            else:
                data = np.array(new, copy=True)
        data0 = np.array(data, copy=True)
        if mname == "coords":
            obj.coords(arg, data)
        elif mname == "affine_coords" and not hyp:
            obj.affine_coords(data, chart_index=1 if arg == "1" else 0)
        else:
            getattr(obj, mname)(data)
        run.monitor("query-purity").require(
            np.array_equal(data, data0), "query-purity/setter-argument-changed/%s" % mname,
            "%s(data) wrote into the caller's data array" % name, case)
        m2 = copy.copy(model)
        m2.prim = new
        return obj, m2, "ok"
    if op == "setitem-all":
        # obj[...] = value: every unit replaced (works on a unit object too)
        raw = draw_value(rng, kind, n, shape, nv=model.prim.shape[-2] if "Polygon" in kind else None)
        val_prim = G.primary(kind, raw)
        value = G.build(kind, raw) if rng.random() < 0.5 else np.array(val_prim, copy=True)
        if np.asarray(obj.proj_data).dtype != np.asarray(val_prim).dtype:
            val_prim = val_prim.astype(np.asarray(obj.proj_data).dtype)
        obj[...] = value
        m2 = copy.copy(model)
        m2.prim = np.array(val_prim, copy=True)
        return obj, m2, "ok"
    if op == "apply-given":
        # one given isometry (column convention), e.g. the exact boost that moves
        # an endpoint / vertex / base point of every unit onto the origin
        M = _state.get("given_M")
        if M is None or not hyp:
            return obj, model, "skip:no transformation given"
        T = H.Isometry(np.array(M, copy=True), column_vectors=True)
        new = T.apply(obj)
        exp, _ = rp.loop_matrix_product(model.prim, np.swapaxes(M, -1, -2), model.unit, 2,
                                        "elementwise")
        m2 = copy.copy(model)
        m2.prim = exp
        return new, m2, "ok"
    if op == "setitem-unit":
        # a key that reaches into the unit axes: composite part (int / slice per
        # composite axis) + a key on the vertex axis of a polygon, or on the
        # endpoint / row axis of a segment / tangent vector (keeping both rows:
        # the library builds type(obj)(value) first).  numpy semantics on
        # proj_data; the derived data must be that of the new proj_data -- for a
        # polygon also the edges next to the assigned vertices (seeded change
        # C11-r4-2: only aux[key] recomputed, from proj_data[key] alone)
        comp = []
        for sz in shape:
            r = int(rng.integers(0, 3))
            comp.append(slice(None) if r == 0 else int(rng.integers(0, sz)) if r == 1
                        else slice(int(rng.integers(0, sz)), None))
        comp = tuple(comp)
        rows = model.prim.shape[-2]
        base = _state.get("ukey")
        which = int(rng.integers(0, 64)) if base is None else base + step
        if "Polygon" in kind:
            vparts = [slice(1, 3), slice(0, 2), slice(rows - 2, rows), slice(None, None, 2),
                      slice(rows - 1, rows), [0, rows - 1], slice(None, None, -1),
                      int(rng.integers(0, rows)), slice(0, 1), [rows - 1, 1]]
        else:
            vparts = [slice(None), slice(None, None, -1), [1, 0], [0, 1]]
        vp = vparts[which % len(vparts)]
        key = comp + (vp,)
        target = model.prim[key]
        if target.ndim < model.unit or target.size == 0 or \
                ("Polygon" not in kind and target.shape[-2] != 2):
            return obj, model, "skip:type(obj)(value) cannot be built for this key"
        tmp = np.array(model.prim, copy=True)
        if "Polygon" in kind:
            if hyp:
                newv = G.interior(rng, n, target.shape[:-1], rmax=0.85)
            else:
                newv = rng.normal(size=target.shape)
            tmp[key] = newv
        else:
            sub = tmp[comp].shape[:-2] if comp else shape
            raw = draw_value(rng, kind, n, sub)
            if comp:
                tmp[comp] = G.primary(kind, raw)
            else:
                tmp[...] = G.primary(kind, raw)
        value = np.array(tmp[key], copy=True)
        if np.asarray(obj.proj_data).dtype != value.dtype:
            value = value.astype(np.asarray(obj.proj_data).dtype)
        if isinstance(_state.get("history"), dict):
            _state["history"].setdefault("keys", []).append(repr(key))
        with np.errstate(all="ignore"):
            if rng.random() < 0.5:
                value = cls(value)
            obj[key if len(key) > 1 else key[0]] = value
        m2 = copy.copy(model)
        m2.prim = tmp
        return obj, m2, "ok"
    if op == "query-normalising":
        base = _state.get("nquery")
        which = int(rng.integers(0, 60)) if base is None else base + step
        name = normalising_query(obj, kind, which)
        if isinstance(_state.get("history"), dict):
            _state["history"].setdefault("queries", []).append(name)
        return obj, model, "ok"
    if op == "index":
        nvert = model.prim.shape[-2] if "Polygon" in kind else 0
        if nvert >= 4 and rng.random() < 0.35:
            # an index that reaches the vertex axis of a polygon: a polygon on
            # fewer / reordered vertices, whose edges must be those of the new
            # vertex list (seeded change C11-r2-2: aux_data[item] carried along)
            lead = (slice(None),) * len(shape)
            vkey = [slice(0, 3), slice(None, None, 2), slice(None, None, -1),
                    slice(1, None)][int(rng.integers(0, 4))]
            key = lead + (vkey,) if shape else vkey
            if len(range(*vkey.indices(nvert))) >= 3:
                new = obj[key]
                m2 = copy.copy(model)
                m2.prim = model.prim[key]
                return new, m2, "ok"
        if not shape:
            return obj, model, "skip:unit object"
        r = int(rng.integers(0, 4))
        if r == 0:
            key = int(rng.integers(0, shape[0]))
        elif r == 1:
            key = slice(int(rng.integers(0, shape[0])), None)
            if len(range(*key.indices(shape[0]))) == 0:
                key = slice(0, None)
        elif r == 2:
            key = tuple(int(rng.integers(0, s)) for s in shape[:int(rng.integers(1, len(shape) + 1))])
        else:
            key = -1
        new = obj[key]
        m2 = copy.copy(model)
        m2.prim = model.prim[key]
        return new, m2, "ok"
    if op in ("setitem", "setitem-raw"):
        if not shape:
            return obj, model, "skip:unit object"
        key = int(rng.integers(0, shape[0]))
        sub = shape[1:]
        raw = draw_value(rng, kind, n, sub, nv=model.prim.shape[-2] if "Polygon" in kind else None)
        val_prim = G.primary(kind, raw)
        value = G.build(kind, raw)
        if op == "setitem-raw":
            value = np.array(value.proj_data, copy=True)
        if np.asarray(obj.proj_data).dtype != np.asarray(val_prim).dtype:
            val_prim = val_prim.astype(np.asarray(obj.proj_data).dtype)
        obj[key] = value
        m2 = copy.copy(model)
        m2.prim = np.array(model.prim, copy=True)
        m2.prim[key] = val_prim
        return obj, m2, "ok"
    if op == "stack":
        raw = draw_value(rng, kind, n, shape, nv=model.prim.shape[-2] if "Polygon" in kind else None)
        other = G.build(kind, raw)
        first = bool(rng.integers(0, 2))
        new = cls([obj, other] if first else [other, obj])
        oprim = G.primary(kind, raw)
        if model.lowprec:
            oprim = oprim.astype(np.float32)
        m2 = copy.copy(model)
        m2.prim = np.stack([model.prim, oprim] if first else [oprim, model.prim], axis=0)
        return new, m2, "ok"
    if op == "combine":
        oshape = [(2,), (), (1, 2)][int(rng.integers(0, 3))]
        raw = draw_value(rng, kind, n, oshape, nv=model.prim.shape[-2] if "Polygon" in kind else None)
        other = G.build(kind, raw)
        mon = run.monitor("history")
        try:
            new = cls.combine([obj, other])
        except Exception as e:
            import traceback
            from .. import core
            if core.raised_in_harness(e.__traceback__):
                raise
            mon.fail("history/combine/exception:%s/%s" % (type(e).__name__, kind),
                     "%s.combine([a, b]) raises %s: %s" % (cls.__name__, type(e).__name__, str(e)[:120]),
                     case, tb=traceback.format_exc())
            return obj, model, "violation"
        ushape = model.prim.shape[model.prim.ndim - model.unit:]
        m2 = copy.copy(model)
        m2.prim = np.concatenate([model.prim.reshape((-1,) + ushape),
                                  G.primary(kind, raw).reshape((-1,) + ushape)], axis=0)
        if new is not None:
            inherit(new, obj, other)
        if new is None:
            mon.fail("history/combine/returns-None/%s" % kind, "combine returned None", case)
            return obj, model, "violation"
        return new, m2, "ok"
    if op in ("astype32", "astype64"):
        dt = np.float32 if op == "astype32" else np.float64
        new = obj.astype(dt)
        m2 = copy.copy(model)
        m2.prim = model.prim.astype(dt)
        m2.lowprec = model.lowprec or dt is np.float32
        if not hist.require(np.asarray(new.proj_data).dtype == np.dtype(dt)
                            and (new.aux_data is None or np.asarray(new.aux_data).dtype == np.dtype(dt)),
                            "history/astype/dtype", "astype(%s) left dtype %s / %s"
                            % (np.dtype(dt), np.asarray(new.proj_data).dtype,
                               None if new.aux_data is None else np.asarray(new.aux_data).dtype), case):
            return new, m2, "violation"
        return new, m2, "ok"
    if op == "query":
        do_queries(rng, obj, kind)
        return obj, model, "ok"
    raise ValueError(op)


ROUTES = ["arrays", "objects", "stack-units", "class-copy"]


def construct(rng, kind, n, shape, route, lift=None):
    raw = draw_value(rng, kind, n, shape) if _state.get("special") is not None \
        else rescale_raw(rng, kind, G.draw(rng, kind, n, shape), lift)
    prim = G.primary(kind, raw)
    cls = G.class_of(kind)
    if route == "arrays":
        obj = cls(prim.copy())
    elif route == "stack-units" and len(shape) == 1:
        obj = cls([G.build(kind, G.unit_raw(raw, i)) for i in np.ndindex(*shape)])
    elif route == "class-copy":
        obj = cls(G.build(kind, raw))
    else:
        obj = G.build(kind, raw)
    return obj, raw, prim


def wl_history(run, rng, idx):
    kind = HKINDS[idx % len(HKINDS)]
    r = idx // len(HKINDS)
    shape = G.OBJ_SHAPES[r % len(G.OBJ_SHAPES)]
    r //= len(G.OBJ_SHAPES)
    route = ROUTES[r % len(ROUTES)]
    n = 2 + (r // len(ROUTES)) % 3
    depth = 1 + int(rng.integers(0, 6))
    # operation weights: the mutating / structural ones more often
    w = np.array([1, 1, 2, 3, 2, 1, 1, 3, 2, 3, 4, 2, 2, 2, 1, 1, 3], dtype=float)
    ops = [OPS[int(i)] for i in rng.choice(len(OPS), size=depth, p=w / w.sum())]
    _state["history"] = {"kind": kind, "dimension": n, "shape": list(shape), "route": route,
                         "ops": ops}
    run.current_case = _state["history"]
    obj, raw, prim = construct(rng, kind, n, shape, route)
    raw0 = G.copy_raw(raw)
    model = Model(kind, n, prim)
    if not explicit_check(run, obj, model, -1, "construct:" + route):
        _state["history"] = None
        return
    done = []
    relatives = []
    for step, op in enumerate(ops):
        prev, prev_model = obj, model
        obj, model, status = apply_step(run, rng, op, obj, model, step)
        if status.startswith("skip"):
            run.monitor("history").skip(status[5:])
            continue
        if status == "violation":
            break
        done.append(op)
        if obj is not prev:
            if op == "copy":
                relatives = []          # shallow copies share arrays by definition
            else:
                relatives.append((prev, prev_model))
        relatives.extend(_state.pop("extra_relatives", None) or [])
        if not explicit_check(run, obj, model, step, op):
            break
        relatives_check(run, relatives[-4:], step, op)
        if rng.random() < 0.35:
            do_queries(rng, obj, kind)
            if not explicit_check(run, obj, model, step, op + "+queries"):
                break
    # the caller's construction arrays were not moved
    pm = run.monitor("query-purity")
    for k in raw:
        pm.require(np.array_equal(raw[k], raw0[k]), "query-purity/construction-array-changed",
                   "the array %r handed to the constructor changed during the history" % k,
                   _state["history"])
    if done:
        run.note_class("history", kind, n, shape, route, ",".join(sorted(set(done))))
    if idx < 4:
        run.sample(dict(_state["history"]))
    _state["history"] = None


# ---------------------------------------------------------------------------
# targeted: item assignment and combine on every aux class (depth 2..3)

def wl_setitem_combine(run, rng, idx):
    """construct -> set item -> read derived data; construct -> combine -> read:
    the two histories of the property's own example, on every aux class/shape."""
    kind = HKINDS[idx % len(HKINDS)]
    shape = [(3,), (2, 3), (1, 3), (2, 1, 3), (4,)][(idx // len(HKINDS)) % 5]
    n = 2 + (idx // 20) % 3
    which = ["setitem", "setitem-raw", "combine", "setitem+apply", "combine+index"][(idx // 60) % 5]
    ops = {"setitem": ["setitem", "query"], "setitem-raw": ["setitem-raw", "query"],
           "combine": ["combine", "query"], "setitem+apply": ["setitem", "apply", "query"],
           "combine+index": ["combine", "index", "query"]}[which]
    _state["history"] = {"kind": kind, "dimension": n, "shape": list(shape), "route": "objects",
                         "ops": ops}
    run.current_case = _state["history"]
    obj, raw, prim = construct(rng, kind, n, shape, "objects")
    model = Model(kind, n, prim)
    if explicit_check(run, obj, model, -1, "construct:objects"):
        for step, op in enumerate(ops):
            obj, model, status = apply_step(run, rng, op, obj, model, step)
            if status != "ok":
                break
            if not explicit_check(run, obj, model, step, op):
                break
        else:
            run.note_class("targeted", kind, n, shape, which)
    _state["history"] = None


def run_history(run, rng, kind, n, shape, route, ops, lift=None, note=()):
    """construct, then the listed operations, with the full set of checks after
    every step (and the relatives of the object while it is edited)."""
    obj, raw, prim = construct(rng, kind, n, shape, route, lift=lift)
    raw0 = G.copy_raw(raw)
    model = Model(kind, n, prim)
    done = []
    if explicit_check(run, obj, model, -1, "construct:" + route):
        relatives = []
        for step, op in enumerate(ops):
            prev, prev_model = obj, model
            obj, model, status = apply_step(run, rng, op, obj, model, step)
            if status.startswith("skip"):
                run.monitor("history").skip(status[5:])
                continue
            if status == "violation":
                break
            done.append(op)
            if obj is not prev:
                relatives = [] if op == "copy" else relatives + [(prev, prev_model)]
            relatives = relatives + (_state.pop("extra_relatives", None) or [])
            if not explicit_check(run, obj, model, step, op):
                break
            relatives_check(run, relatives[-(_state.get("keep_relatives") or 3):], step, op)
    pm = run.monitor("query-purity")
    for k in raw:
        pm.require(np.array_equal(raw[k], raw0[k]), "query-purity/construction-array-changed",
                   "the array %r handed to the constructor changed during the history" % k,
                   _state["history"])
    if done:
        run.note_class(*(tuple(note) + (kind, n, shape, route, ",".join(sorted(set(done))))))
    return done


FU_SHAPES = {True: [(3,), (2, 3), (2, 1, 3), (3, 2)], False: [(2, 3), (2, 1, 3), (2, 2, 3), (3, 2)]}
FU_PRE = ["reshape", "apply-composite", "stack", "class-copy", "setitem", "index", "astype64",
          "deepcopy"]
FU_POST = ["apply", "index", "query", "apply-composite", "setitem", "flatten-aux", "class-copy",
           "combine", "flatten", "astype64", "apply-pairwise", "stack"]


def wl_flatten_unit(run, rng, idx):
    """flatten_to_unit(unit=k) for every explicit k from the class's unit rank up
    to the rank of the primary array, on composites of rank >= 3, optionally
    after other operations, followed by apply / index / item assignment / ...:
    derived data keeps the composite axes of the primary data and its values
    (seeded change C11-r3-2: an explicit unit only honoured for the primary
    data of segments and tangent vectors)."""
    kind = HKINDS[idx % len(HKINDS)]
    shapes = FU_SHAPES["Polygon" in kind]
    shape = shapes[(idx // 4) % len(shapes)]
    unit = G.KINDS[kind][2]
    rank = len(shape) + unit
    k = unit + (idx // 16) % (rank - unit + 1)    # unit rank .. array rank
    n = 2 + (idx // 7) % 3
    npre = (idx // 64) % 3
    pre = [FU_PRE[int(i)] for i in rng.integers(0, len(FU_PRE), size=npre)]
    post = [FU_POST[(idx // 4 + idx // 48) % len(FU_POST)], "query"]
    if idx % 3 == 0:
        post.append(FU_POST[int(rng.integers(0, len(FU_POST)))])
    ops = pre + ["flatten-unit"] + post
    _state["history"] = {"kind": kind, "dimension": n, "shape": list(shape), "route": "objects",
                         "ops": ops, "unit": k}
    _state["unit_k"] = k
    run.current_case = _state["history"]
    try:
        run_history(run, rng, kind, n, shape, "objects", ops, note=("flatten-unit", k))
    finally:
        _state["unit_k"] = None
        _state["history"] = None


LS_OPS = ["setitem", "index", "apply", "stack", "flatten", "combine", "class-copy", "astype64",
          "reshape", "setitem-raw", "apply-composite", "deepcopy", "flatten-unit", "astype32"]


def wl_lift_scales(run, rng, idx):
    """the same geometric objects from tiny / huge / row-wise mixed projective
    lifts, every construction route: derived data right at construction
    (reference formula), a normalising query next (it must neither change what
    the stored derived data represents -- write watch -- nor make it differ from
    the recomputation -- invariant at the query's return), then operations whose
    further operands come in the same scale class, with queries between them
    (seeded change C11-r3-3: an absolute null-vector threshold in
    utils.projection takes the base point of a small lift for a null vector)."""
    kind = HKINDS[idx % len(HKINDS)]
    lift = LIFTS[(idx // 4) % len(LIFTS)]
    shape = [(), (3,), (2, 3), (1, 3)][(idx // 12) % 4]
    route = ROUTES[(idx // 5) % len(ROUTES)]
    n = 2 + (idx // 48) % 3
    op1 = LS_OPS[(idx // 4 + idx // 12) % len(LS_OPS)]
    op2 = LS_OPS[int(rng.integers(0, len(LS_OPS)))]
    ops = ["query-normalising", op1, "query-normalising"] + \
        ([op2, "query"] if idx % 2 else ["index", "query-normalising"])
    _state["history"] = {"kind": kind, "dimension": n, "shape": list(shape), "route": route,
                         "ops": ops, "lift": lift}
    _state["lift"] = lift
    _state["nquery"] = idx // 12          # (+ step): decorrelated from the lift class
    run.current_case = _state["history"]
    try:
        run_history(run, rng, kind, n, shape, route, ops, lift=lift, note=("lift", lift))
    finally:
        _state["lift"] = None
        _state.pop("nquery", None)
        _state["history"] = None


SP_OPS = ["index", "setitem", "class-copy", "reshape", "flatten", "stack", "combine", "deepcopy",
          "astype64", "setitem-raw", "flatten-unit", "copy", "setitem-unit"]


def wl_special_positions(run, rng, idx):
    """exact special-position data (gen/c11special.py): the derived data is
    right at construction by the reference formula -- for polygons also the
    ideal endpoints of get_edges() -- and stays equal to the recomputation
    through exactness-preserving operations and through the exact boost that
    moves an endpoint / vertex / base point onto the origin (seeded change
    C11-r4-1: a sign(b) == 0 branch of a rewritten quadratic formula)."""
    kind = SPECIAL_KINDS[idx % 3]
    c = (idx // 3) % SP.N_CLASSES
    shape = [(), (3,), (2, 2)][(idx // 3 + idx // 27) % 3]
    route = ROUTES[(idx // 2) % len(ROUTES)]
    n = 2 + (idx // 9) % 3
    spec = SP.boost_spec(rng, n) if c == 8 else None
    ops = (["apply-given"] if c == 8 else []) + \
        [SP_OPS[(idx // 3) % len(SP_OPS)], "query", SP_OPS[int(rng.integers(0, len(SP_OPS)))]]
    if c == 8:
        ops.append("apply")
    if c in SP.NULL_CLASSES:
        # exactly-null rows: the in-place normalising queries first, and again
        # at the end (seeded change C11-r5-1: normalize overwrites them with 0)
        ops = ["query-normalising"] + ops + ["query-normalising"]
        _state["nquery"] = idx // 3
    _state["history"] = {"kind": kind, "dimension": n, "shape": list(shape), "route": route,
                         "ops": ops, "special-class": c, "boost": spec}
    _state["special"] = {"class": c, "boost": spec}
    _state["given_M"] = SP.exact_boost(n, spec["axis"], spec["k"])[0] if spec else None
    run.current_case = _state["history"]
    try:
        run_history(run, rng, kind, n, shape, route, ops, note=("special", c))
    finally:
        _state["special"] = None
        _state["given_M"] = None
        _state.pop("nquery", None)
        _state["history"] = None


SU_POST = ["query", "apply", "index", "class-copy", "setitem", "stack", "flatten", "combine"]


def wl_setitem_unit(run, rng, idx):
    """item assignment through keys that reach into the unit axes, twice, with
    queries and another operation around them (seeded change C11-r4-2)."""
    kind = HKINDS[idx % len(HKINDS)]
    shape = [(), (3,), (2, 3), (4,)][(idx // 4) % 4]
    n = 2 + (idx // 16) % 3
    route = ROUTES[(idx // 3) % len(ROUTES)]
    ops = ["setitem-unit", "query", SU_POST[(idx // 4) % len(SU_POST)], "setitem-unit", "query"]
    _state["history"] = {"kind": kind, "dimension": n, "shape": list(shape), "route": route,
                         "ops": ops}
    _state["ukey"] = idx // 4 + idx // 16
    run.current_case = _state["history"]
    try:
        run_history(run, rng, kind, n, shape, route, ops, note=("setitem-unit",))
    finally:
        _state.pop("ukey", None)
        _state["history"] = None


ID_OPS = ["apply-identity", "iterate", "same-astype", "iterate-siblings", "same-reshape",
          "full-index", "apply-identity"]
ID_EDITS = ["setitem", "setitem-all", "setitem-raw", "setitem-unit"]
ID_PRE = ["class-copy", "apply", "reshape", "stack", "deepcopy", "index", "astype64", "flatten"]


def wl_identity_maps(run, rng, idx):
    """histories [op] -> identity-like operation -> item assignment on the result
    -> queries -> identity-like operation -> item assignment: all live relatives
    (the source of every operation included) keep their primary data and coherent
    derived data (seeded change C11-r5-2: Transformation.apply returns the
    shallow copy when the matrix is exactly the identity)."""
    kind = HKINDS[idx % len(HKINDS)]
    shape = [(3,), (2, 3), (), (4,), (1, 3)][(idx // 4) % 5]
    n = 2 + (idx // 20) % 3
    route = ROUTES[(idx // 3) % len(ROUTES)]
    first = ID_OPS[(idx // 4) % len(ID_OPS)]
    pre = [ID_PRE[int(rng.integers(0, len(ID_PRE)))]] if idx % 3 == 2 else []
    ops = pre + [first, ID_EDITS[(idx // 4 + idx // 12) % len(ID_EDITS)], "query",
                 ID_OPS[int(rng.integers(0, len(ID_OPS)))],
                 ID_EDITS[int(rng.integers(0, len(ID_EDITS)))]]
    _state["history"] = {"kind": kind, "dimension": n, "shape": list(shape), "route": route,
                         "ops": ops}
    _state["ident"] = idx // 4 + idx // 28
    _state["keep_relatives"] = 6
    run.current_case = _state["history"]
    try:
        run_history(run, rng, kind, n, shape, route, ops, note=("identity-maps",))
    finally:
        _state.pop("ident", None)
        _state.pop("keep_relatives", None)
        _state["history"] = None


def wl_setters(run, rng, idx):
    """setter-style entry points on existing objects with derived data, twice,
    with queries and another operation between them (seeded change C11-r7-1)."""
    kind = HKINDS[idx % len(HKINDS)]
    shape = [(3,), (), (2, 3)][(idx // 4) % 3]
    n = 2 + (idx // 12) % 3
    route = ROUTES[(idx // 3) % len(ROUTES)]
    ops = ["reset-coords", "query", SU_POST[(idx // 4) % len(SU_POST)], "reset-coords", "query"]
    _state["history"] = {"kind": kind, "dimension": n, "shape": list(shape), "route": route,
                         "ops": ops}
    _state["setter"] = idx // 4
    run.current_case = _state["history"]
    try:
        run_history(run, rng, kind, n, shape, route, ops, note=("setters",))
    finally:
        _state.pop("setter", None)
        _state["history"] = None


def wl_integer_primary(run, rng, idx):
    """objects built from INTEGER-typed primary data: the derived data is
    fractional in general and must not be truncated to the primary data's dtype
    (seeded change C11-r2-1: TangentVector aux written into a copy of integer
    proj_data).  The library's own recomputation shares such a defect, so this is
    judged by the library-free reference formula only."""
    from geometry_tools import hyperbolic as H
    ref = run.monitor("aux-reference")
    kind = ["H.TangentVector", "H.Segment", "H.Polygon"][idx % 3]
    n = 2 + (idx // 3) % 2
    k = [None, 3][(idx // 6) % 2]

    def int_interior():
        while True:
            x = rng.integers(-3, 4, size=n)
            t = int(rng.integers(3, 7))
            if t * t - int(np.sum(x * x)) >= 0.3 * t * t:
                return np.concatenate([[t], x]).astype(np.int64)

    def unit():
        if kind == "H.TangentVector":
            while True:
                v = rng.integers(-3, 4, size=n + 1)
                p = int_interior()
                w = rh.tangent_project(p.astype(float), v.astype(float))
                if rh.mink_sq(w) > 0.2:
                    return np.stack([p, v]).astype(np.int64)
        if kind == "H.Segment":
            while True:
                p, q = int_interior(), int_interior()
                if np.linalg.norm(p[1:] / p[0] - q[1:] / q[0]) > 0.2:
                    return np.stack([p, q])
        while True:
            vs = np.stack([int_interior() for _ in range(4)])
            kl = vs[:, 1:] / vs[:, :1]
            if min(np.linalg.norm(kl[i] - kl[(i + 1) % 4]) for i in range(4)) > 0.2:
                return vs
    data = unit() if k is None else np.stack([unit() for _ in range(k)])
    case = {"kind": kind, "dimension": n, "integer_primary_data": data}
    run.current_case = case
    cls = G.class_of(kind)
    routes = [lambda: cls(data.copy()), lambda: cls(data.tolist())]
    if kind == "H.TangentVector":
        routes.append(lambda: cls(H.Point(data[..., 0, :].copy()), data[..., 1, :].copy()))
    for r, build in enumerate(routes):
        obj = build()
        with np.errstate(all="ignore"):
            d = G.reference_aux_dev(kind, np.asarray(obj.proj_data, dtype=float),
                                    np.asarray(obj.aux_data, dtype=float))
        ref.judge(d, 1e-6, "aux-reference/%s/integer-primary-data" % kind,
                  "derived data of a %s built from integer-typed primary data is not what the "
                  "reference formula gives (truncated?)" % kind, dict(case, route=r))
        # and after an item assignment / an isometry
        if k is not None:
            obj[0] = cls(unit())
            with np.errstate(all="ignore"):
                d = G.reference_aux_dev(kind, np.asarray(obj.proj_data, dtype=float),
                                        np.asarray(obj.aux_data, dtype=float))
            ref.judge(d, 1e-6, "aux-reference/%s/integer-primary-data/after:setitem" % kind,
                      "derived data after item assignment into an integer-typed %s" % kind,
                      dict(case, route=r))
    run.note_class("integer-primary", kind, n, k)


def wl_queries(run, rng, idx):
    """read-only queries on every kind of object (write watch), composite and
    unit, with caller-owned arrays passed where the API takes arrays."""
    from geometry_tools import hyperbolic as H
    kinds = [k for k in G.HYPERBOLIC_KINDS]
    kind = kinds[idx % len(kinds)]
    shape = G.OBJ_SHAPES[(idx // len(kinds)) % len(G.OBJ_SHAPES)]
    n = max(2, G.KINDS[kind][0]) + (idx // 95) % 2
    raw = G.draw(rng, kind, n, shape)
    if kind in ("H.Point", "H.IdealPoint", "H.DualPoint", "H.PointPair", "H.Geodesic") and idx % 2:
        # hostile class: negative representatives (per unit row)
        for k in raw:
            raw[k] = raw[k] * rng.choice([-1.0, 1.0], size=raw[k].shape[:-1] + (1,))
    exact_null = kind in ("H.IdealPoint", "H.Geodesic") and (idx // len(kinds)) % 3 == 2
    if exact_null:
        # hostile class: ideal rows of Minkowski norm EXACTLY 0.0 (seeded change
        # C11-r5-1: an in-place normalisation that zeroes such rows)
        for ix in np.ndindex(*shape):
            if kind == "H.IdealPoint":
                raw["X"][ix] = SP.null_vector(rng, n)
            else:
                raw["P"][ix], raw["Q"][ix] = SP.distinct_null_vectors(rng, n, 2)
    _state["history"] = {"kind": kind, "dimension": n, "shape": list(shape), "ops": ["queries"],
                         "exactly-null": bool(exact_null)}
    run.current_case = dict(_state["history"], raw=raw)
    X = G.build(kind, raw)
    mon = run.monitor("query-purity")
    klein0 = None
    with np.errstate(all="ignore"):
        if exact_null:
            X.hyperboloid_coords()
            X.coords("hyperboloid")
        if kind in ("H.Point", "H.IdealPoint", "H.DualPoint"):
            for m in ("projective", "klein"):
                X.coords(m)
            if kind != "H.DualPoint":
                X.coords("poincare")
            if kind == "H.Point":
                klein0 = np.array(X.coords("klein"), copy=True)
                X.coords("hyperboloid")
                X.coords("halfspace")
                other = H.Point(G.interior(rng, n, shape) *
                                rng.choice([-1.0, 1.0], size=tuple(shape) + (1,)))
                X.distance(other)
                X.origin_to()
                X.unit_tangent_towards(other)
                # module-level helpers with caller arrays
                # (a composite of timelike vectors is (..., 1, n+1): a (k, n+1)
                # array is read by the API as one k-frame)
                v = np.array(raw["X"], copy=True)[..., None, :]
                H.timelike_to(v)
                H.hyperboloid_coords(np.array(raw["X"], copy=True))
        elif kind in ("H.PointPair", "H.Segment", "H.Geodesic"):
            X.endpoint_coords("klein")
            X.get_end_pair()
            # inherited Point queries, one per endpoint (seeded change C11-r7-3)
            X.origin_to()
            if kind != "H.Geodesic":
                # (distances / tangents between ideal points are out of domain)
                Y = G.build(kind, G.draw(rng, kind, n, shape))
                X.distance(Y)
                X.unit_tangent_towards(Y)
            X.coords("poincare")
            X.origin_to(force_oriented=False)
            if kind != "H.PointPair":
                X.ideal_basis_coords("klein")
                X.sphere_parameters("poincare")
                if n == 2:
                    X.circle_parameters(model="poincare")
                    X.circle_parameters(model="halfspace", degrees=False)
        elif kind == "H.TangentVector":
            X.normalized()
            X.origin_to()
            X.point_along(np.full(shape, 0.4))
            d = np.array(0.25)
            X.point_along(d)
            X.angle(X.normalized())
            X.isometry_to(X.normalized())
            # exactly-zero / negative / sampled-ray distances, then further
            # queries on the same object (seeded change C11-r6-3)
            X.point_along(distance_class(idx // len(kinds), tuple(shape)))
            X.point_along(distance_class(idx // len(kinds) + 1, tuple(shape)))
            X.origin_to()
            # a second operand at other base points, both ways (C11-r6-1)
            Y = G.build(kind, G.draw(rng, kind, n, shape))
            X.angle(Y)
            Y.angle(X)
            X.isometry_to(Y)
            Y.isometry_to(X)
        elif kind == "H.Polygon":
            X.get_edges()
            X.get_vertices()
            X.coords("klein")
            X.origin_to()
            X.distance(H.Point(np.array(X.proj_data, copy=True)))
            X.coords("poincare")
            X.get_edges().origin_to()
        elif kind in ("H.Horosphere", "H.HorosphereArc"):
            X.sphere_parameters("poincare")
            X.center_coords("klein")
            X.ref_coords("poincare")
        elif kind == "H.Hyperplane":
            X.reflection_across()
            X.ideal_basis_coords("klein")
            X.sphere_parameters("poincare")
            s = np.array(raw["N"], copy=True)
            H.spacelike_to(s)
        elif kind == "H.Subspace":
            X.ideal_basis_coords("klein")
            X.sphere_parameters("poincare")
        elif kind == "H.Isometry":
            X.inv()
            p = H.Point(G.interior(rng, n, shape))
            X.apply(p)
            X @ X
    if klein0 is not None:
        mon.judge(rp.rel_dev(X.coords("klein"), klein0), 1e-12,
                  "query-purity/klein-coordinates-moved/H.Point",
                  "Klein coordinates of a point changed after read-only queries",
                  run.current_case)
    run.note_class("queries", kind, n, shape)
    _state["history"] = None


WORKLOADS = [
    Workload("history", wl_history, quick=460, thorough=16000),
    Workload("setitem-combine", wl_setitem_combine, quick=200, thorough=3000),
    Workload("queries", wl_queries, quick=190, thorough=2850),
    Workload("integer-primary", wl_integer_primary, quick=48, thorough=960),
    Workload("flatten-unit", wl_flatten_unit, quick=72, thorough=1920),
    Workload("lift-scales", wl_lift_scales, quick=60, thorough=2304),
    Workload("special-positions", wl_special_positions, quick=72, thorough=1728),
    Workload("setitem-unit", wl_setitem_unit, quick=56, thorough=1536),
    Workload("identity-maps", wl_identity_maps, quick=60, thorough=1680),
    Workload("setters", wl_setters, quick=40, thorough=1152),
]
