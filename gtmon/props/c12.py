"""C12 -- results are independent of number packaging and of homogeneous rescaling.

Monitors
  dtype-funnel  (P) on utils.check_type / array_like / zeros / ones / identity /
                number: real-numeric `like`/data never yields object dtype.
                Fires on every internal call of every workload.
  packaging     (W) metamorphic: the same numbers as Python scalar, NumPy scalar,
                0-d array, nested list, ndarray through every documented entry
                point; results float/complex (never object), numerically equal,
                and the library's own inv / eig / trig follow-ups succeed.
  rescaling     (W) metamorphic: per-unit non-zero rescaling (negative included)
                of homogeneous input coordinates changes no geometric output.
  docs          (W) README / docstring programs run.
"""
import math
import numpy as np

from ..run import Workload
from .. import attach
from ..ref import hyp as rh

ID = "C12"
RULE = ("packaging cases = (entry point, value, packaging) with packagings "
        "{python scalar, numpy scalar, 0-d array, nested list, ndarray}; "
        "rescaling cases = (operation, dimension, composite shape, sign pattern "
        "of per-unit factors in +-[0.1,10]); non-trivial = the variant differs in "
        "type or in representative from the reference variant; distinct = "
        "distinct (entry point/operation, packaging or sign pattern, dimension, "
        "shape) signatures")
ASSUMPTIONS = [
    "only NumPy 2.5.3 is installed: the NumPy-version quantifier of C12 is not "
    "explored (stated in DESIGN.md section 7)",
    "the order of a segment's two ideal endpoints is not geometric (follows the "
    "sign of the representatives); compared as unordered pairs",
]
ANCHORS = [("geometry_tools/utils/types.py", "is_linalg_type"),
           ("geometry_tools/utils/types.py", "inexact_type"),
           ("geometry_tools/utils/core.py", "check_type"),
           ("geometry_tools/utils/core.py", "array_like"),
           ("geometry_tools/utils/core.py", "number"),
           ("geometry_tools/utils/core.py", "rotation_matrix"),
           ("geometry_tools/hyperbolic.py", "Point.unit_tangent_towards"),
           ("geometry_tools/hyperbolic.py", "Point.distance"),
           ("geometry_tools/hyperbolic.py", "Segment._compute_aux_data"),
           ("geometry_tools/hyperbolic.py", "Isometry.standard_rotation"),
           ("geometry_tools/hyperbolic.py", "Isometry.elliptic"),
           ("geometry_tools/hyperbolic.py", "IdealPoint.from_angle"),
           ("geometry_tools/hyperbolic.py", "Polygon.regular_polygon"),
           ("geometry_tools/hyperbolic.py", "sl2_iso"),
           ("geometry_tools/coxeter.py", "CoxeterGroup.bilinear_form")]
REQUIRED = [
    ("geometry_tools/utils/core.py", "check_type", "if not types.is_linalg_type(like):"),
]

TOL = 1e-9


def real_numeric(x):
    """independent classifier: Python/NumPy real scalars, 0-d arrays, nested
    lists of them, numeric ndarrays -- not callables or arbitrary objects."""
    if x is None or callable(x) or isinstance(x, (str, bytes, dict)):
        return False
    if isinstance(x, (bool, int, float, np.integer, np.floating)):
        return True
    if isinstance(x, np.ndarray):
        return x.dtype.kind in "biuf"
    if isinstance(x, (list, tuple)):
        try:
            return np.asarray(x).dtype.kind in "biuf"
        except Exception:
            return False
    return False


def setup(run):
    from geometry_tools.utils import core as ucore
    mon = run.monitor("dtype-funnel", min_events=20)

    def funnel(which, like_arg, pos):
        def hook(call):
            if call.exc is not None:
                return
            b = call.bound()
            if b.get("dtype") is not None or b.get("base_ring") is not None:
                return mon.skip("explicit dtype/base_ring")
            like = b.get("like")
            if like is None and like_arg is not None:
                like = b.get(like_arg)
            if like is None:
                return mon.skip("no like")
            if not real_numeric(like):
                return mon.skip("like is not real-numeric")
            res = call.result
            dt = res[1] if which == "check_type" else getattr(res, "dtype", None)
            if which == "number":
                dt = np.asarray(res).dtype
            if dt is None:
                return mon.skip("no dtype on result")
            kind = type(like).__name__
            if isinstance(like, (list, tuple)):
                kind = "nested-" + kind
            if np.dtype(dt) == np.dtype("O"):
                mon.fail("dtype-funnel/object-dtype/%s/like:%s" % (which, kind),
                         "utils.%s(like=%r) gives dtype object for real-numeric input"
                         % (which, like if np.size(like) < 6 else type(like)),
                         case={"function": which, "like": repr(like)[:200]})
            else:
                mon.ok()
        return hook
    for name, like_arg in (("check_type", None), ("array_like", "array"),
                           ("zeros", None), ("ones", None), ("identity", None),
                           ("number", None)):
        attach.wrap_everywhere(run, getattr(ucore, name), funnel(name, like_arg, 0))
    run.monitor("packaging", min_events=50)
    run.monitor("rescaling", min_events=50)
    run.monitor("docs", min_events=10)


# ---------------------------------------------------------------------------
# packaging

def scalar_packagings(x, integer=False):
    out = {"python": (int(x) if integer else float(x)),
           "numpy-scalar": (np.int64(x) if integer else np.float64(x)),
           "0d-array": np.array(int(x) if integer else float(x))}
    return out


def matrix_packagings(M):
    M = np.asarray(M, dtype=float)
    return {"ndarray": M.copy(), "nested-list": M.tolist(),
            "tuple-of-tuples": tuple(tuple(r) for r in M.tolist()),
            "list-of-arrays": [np.array(r) for r in M.tolist()],
            "list-of-numpy-scalars": [[np.float64(v) for v in r] for r in M.tolist()]}


def arrays_of(res):
    """numeric arrays carried by a result (object / tuple / ndarray)."""
    if isinstance(res, (tuple, list)):
        out = []
        for r in res:
            out.extend(arrays_of(r))
        return out
    if hasattr(res, "proj_data"):
        return [np.array(res.proj_data)]       # copy: queries normalise in place
    return [np.array(res)]


def compare_variants(run, entry, variants, post=None, cls=(), expected=None,
                     integer_ok=False, require_float=True):
    """variants: label -> thunk.  All must succeed, give non-object inexact
    arrays, agree numerically, and survive `post` (follow-up library calls)."""
    mon = run.monitor("packaging")
    ref = None
    ref_label = None
    for label, thunk in variants.items():
        case = {"entry": entry, "packaging": label}
        run.current_case = case
        try:
            res = thunk()
            arrs = arrays_of(res)
            if post is not None:
                arrs = arrs + arrays_of(post(res))
        except Exception as e:
            import traceback
            mon.fail("packaging/exception:%s/%s/%s" % (type(e).__name__, entry, label),
                     "%s with %s packaging raised %s: %s"
                     % (entry, label, type(e).__name__, str(e)[:160]),
                     case, tb=traceback.format_exc())
            continue
        bad = [a.dtype for a in arrs if a.dtype == np.dtype("O")]
        if bad:
            mon.fail("packaging/object-dtype/%s/%s" % (entry, label),
                     "%s with %s packaging returned generic-object data" % (entry, label),
                     case)
            continue
        notfloat = [str(a.dtype) for a in arrs if a.dtype.kind not in "fc"]
        if notfloat and not integer_ok and require_float:
            mon.fail("packaging/non-float-dtype/%s/%s" % (entry, label),
                     "%s with %s packaging returned %s data for real input (floating point expected)"
                     % (entry, label, notfloat[0]), case)
            continue
        if expected is not None:
            exp = np.asarray(expected, dtype=complex)
            got = arrs[0].astype(complex)
            if got.shape != exp.shape:
                mon.fail("packaging/absolute-shape/%s/%s" % (entry, label),
                         "%s: shape %r, expected %r" % (entry, got.shape, exp.shape), case)
                continue
            if not mon.judge(float(np.max(np.abs(got - exp))) if exp.size else 0.0, TOL,
                             "packaging/absolute-value/%s/%s" % (entry, label),
                             "%s with %s packaging is not the documented value" % (entry, label),
                             case):
                continue
        run.note_class(entry, label, *cls)
        if ref is None:
            ref, ref_label = arrs, label
            mon.ok()
            continue
        if len(arrs) != len(ref) or any(a.shape != b.shape for a, b in zip(arrs, ref)):
            mon.fail("packaging/shape-differs/%s/%s" % (entry, label),
                     "%s: shapes differ between %s and %s packaging: %r vs %r"
                     % (entry, ref_label, label, [a.shape for a in ref], [a.shape for a in arrs]),
                     case)
            continue
        err = 0.0
        for a, b in zip(arrs, ref):
            if a.size:
                with np.errstate(all="ignore"):
                    d = np.abs(a.astype(complex) - b.astype(complex))
                    err = max(err, float(np.max(d / (1.0 + np.abs(b.astype(complex))))))
        mon.judge(err, TOL, "packaging/value-differs/%s/%s" % (entry, label),
                  "%s: %s packaging differs from %s packaging" % (entry, label, ref_label),
                  case)


def std_rotation_ref(a, d):
    """rotation by a in the (x1, x2) plane of R^(d,1), as a map of Klein
    coordinates; compared on the matrix up to transpose convention by checking
    the action: returned here as the (d+1)x(d+1) matrix stored by an Isometry
    built with column_vectors=True (proj_data = transpose of the column-vector
    matrix)."""
    M = np.eye(d + 1)
    M[1:3, 1:3] = [[math.cos(a), -math.sin(a)], [math.sin(a), math.cos(a)]]
    return M.T


def int_packagings(x):
    """an integer-valued real parameter in every packaging (the reference
    variant, listed first, is the Python float)."""
    return {"python-float": float(x), "python-int": int(x), "numpy-int64": np.int64(x),
            "int-0d-array": np.array(int(x)), "numpy-float64": np.float64(x),
            "numpy-int32": np.int32(x)}


def wl_packaging_scalar(run, rng, idx):
    from geometry_tools import utils, hyperbolic
    from geometry_tools.hyperbolic import Isometry, IdealPoint, Polygon, TangentVector, Point
    d = int(rng.integers(2, 5))
    n = int(rng.integers(3, 9))
    if idx % 3 == 2:
        # integer-valued parameters (an angle of 1 radian, a radius of 2, ...)
        a = float(rng.integers(-6, 7))
        pk = int_packagings(a)
        scalar_pk = int_packagings
        r_int = float(rng.integers(1, 4))
        t_int = float(rng.integers(-3, 4))
        par_int = float(rng.integers(2, 8))
    else:
        a = float(rng.uniform(-2 * math.pi, 2 * math.pi))
        pk = scalar_packagings(a)
        scalar_pk = scalar_packagings
        r_int = t_int = par_int = None
    ca, sa = math.cos(a), math.sin(a)
    compare_variants(run, "utils.rotation_matrix",
                     {k: (lambda v=v: utils.rotation_matrix(v)) for k, v in pk.items()},
                     post=lambda R: np.linalg.inv(R), expected=[[ca, -sa], [sa, ca]])
    compare_variants(run, "Isometry.standard_rotation",
                     {k: (lambda v=v: Isometry.standard_rotation(v, dimension=d))
                      for k, v in pk.items()},
                     post=lambda T: (T.inv(), T @ Point(np.full(d, 0.1), model="klein"),
                                     np.linalg.eig(T.proj_data)[0]), cls=(d,),
                     expected=std_rotation_ref(a, d))
    compare_variants(run, "IdealPoint.from_angle",
                     {k: (lambda v=v: IdealPoint.from_angle(v).coords("klein")) for k, v in pk.items()},
                     expected=[ca, sa])
    compare_variants(run, "IdealPoint.from_angle->poincare",
                     {k: (lambda v=v: IdealPoint.from_angle(v)) for k, v in pk.items()},
                     post=lambda p: p.coords("poincare"))
    ang = float(rng.uniform(0.05, 0.95)) * (n - 2) * math.pi / n
    if r_int is not None and (n - 2) * math.pi / n > 1.0:
        ang = 1.0
    compare_variants(run, "Polygon.regular_polygon(angle)",
                     {k: (lambda v=v: Polygon.regular_polygon(n, angle=v))
                      for k, v in (scalar_pk(ang) if ang == 1.0 else scalar_packagings(ang)).items()},
                     post=lambda P: P.coords("klein"), cls=(n,))
    rad = float(rng.uniform(0.1, 3.0)) if r_int is None else r_int
    compare_variants(run, "Polygon.regular_polygon(radius)",
                     {k: (lambda v=v: Polygon.regular_polygon(n, radius=v))
                      for k, v in scalar_pk(rad).items()},
                     post=lambda P: P.coords("poincare"), cls=(n,))
    par = float(rng.uniform(1.1, 8.0)) if par_int is None else par_int
    compare_variants(run, "Isometry.standard_loxodromic",
                     {k: (lambda v=v: Isometry.standard_loxodromic(d, v))
                      for k, v in scalar_pk(par).items()},
                     post=lambda T: (T.inv(), T.fixed_point_pair()), cls=(d,))
    t = float(rng.uniform(-3, 3)) if t_int is None else t_int
    compare_variants(run, "TangentVector.point_along",
                     {k: (lambda v=v: TangentVector.get_base_tangent(d).normalized().point_along(v))
                      for k, v in scalar_pk(t).items()},
                     post=lambda p: p.coords("klein"), cls=(d,))
    for fname in ("array_like", "zeros", "ones", "identity", "number"):
        f = getattr(utils, fname)
        if fname == "array_like":
            th = {k: (lambda v=v: f(v)) for k, v in pk.items()}
            th["nested-list"] = lambda: f([a])[0]
        elif fname == "number":
            th = {k: (lambda v=v: np.asarray(f(a, like=v))) for k, v in pk.items()}
            th["nested-list"] = lambda: np.asarray(f(a, like=[a]))
        elif fname == "identity":
            th = {k: (lambda v=v: f(3, like=v)) for k, v in pk.items()}
            th["nested-list"] = lambda: f(3, like=[a])
        else:
            th = {k: (lambda v=v: f((2, 2), like=v)) for k, v in pk.items()}
            th["nested-list"] = lambda: f((2, 2), like=[a])
        # an integer `like` legitimately gives an integer array here
        # (integer_type=True is the factories' documented default): only
        # 'never object' and equal values are required of the factories
        compare_variants(run, "utils." + fname, th, integer_ok=True)
    if idx < 2:
        run.sample({"angle": a, "dimension": d, "n": n})


def rand_sl2(rng, integer=False):
    if integer:
        # product of elementary matrices: exact integer SL(2,Z)
        M = np.eye(2, dtype=int)
        for _ in range(int(rng.integers(1, 5))):
            k = int(rng.integers(-2, 3))
            E = np.array([[1, k], [0, 1]]) if rng.random() < 0.5 else np.array([[1, 0], [k, 1]])
            M = M @ E
        return M
    while True:
        M = rng.normal(size=(2, 2))
        dt = np.linalg.det(M)
        if abs(dt) > 0.2 and np.linalg.cond(M) < 50:
            return M / math.sqrt(abs(dt))


def wl_packaging_matrix(run, rng, idx):
    from geometry_tools import hyperbolic, projective, utils
    from geometry_tools.hyperbolic import Isometry, Point
    d = int(rng.integers(2, 5))
    M = rand_sl2(rng)
    compare_variants(run, "hyperbolic.sl2_iso",
                     {k: (lambda v=v: hyperbolic.sl2_iso(v)) for k, v in matrix_packagings(M).items()},
                     post=lambda T: (T.inv(), np.linalg.eig(T.proj_data)[0].real * 0 + 1))
    Mi = rand_sl2(rng, integer=True)
    pk = {"int-ndarray": Mi, "int-nested-list": Mi.tolist(),
          "float-ndarray": Mi.astype(float), "float-nested-list": Mi.astype(float).tolist()}
    compare_variants(run, "hyperbolic.sl2_iso(integer entries)",
                     {k: (lambda v=v: hyperbolic.sl2_iso(v)) for k, v in pk.items()},
                     post=lambda T: T.inv())
    # orthogonal block
    Q, _ = np.linalg.qr(rng.normal(size=(d, d)))
    compare_variants(run, "Isometry.elliptic",
                     {k: (lambda v=v: Isometry.elliptic(d, v)) for k, v in matrix_packagings(Q).items()},
                     post=lambda T: (T.inv(), T @ Point(np.full(d, 0.1), model="klein")), cls=(d,))
    # points
    x = rng.normal(size=(3, d))
    x = 0.8 * x / (1 + np.linalg.norm(x, axis=-1, keepdims=True))
    for model in ("klein", "poincare", "halfspace", "projective", "hyperboloid"):
        if model == "halfspace":
            y = x.copy()
            y[..., -1] = np.abs(y[..., -1]) + 0.1
        elif model in ("projective", "hyperboloid"):
            y = np.concatenate([np.ones((3, 1)), x], axis=-1)
            if model == "hyperboloid":
                y = y / np.sqrt(1 - np.sum(x ** 2, axis=-1, keepdims=True))
        else:
            y = x
        compare_variants(run, "hyperbolic.Point(model=%s)" % model,
                         {k: (lambda v=v: Point(v, model=model)) for k, v in matrix_packagings(y).items()},
                         post=lambda p: (p.coords("klein"), p.distance(p.origin_to() @ p)),
                         cls=(d,))
    A = rng.normal(size=(d + 1, d + 1)) + 2 * np.eye(d + 1)
    compare_variants(run, "projective.Transformation",
                     {k: (lambda v=v: projective.Transformation(v)) for k, v in matrix_packagings(A).items()},
                     post=lambda T: (T.inv(), T @ projective.Point(np.ones(d + 1))), cls=(d,))


INT_POINTS = {
    # integer homogeneous / model coordinates of interior points, per model
    "projective": [[2, 1, 0], [3, 1, -1], [5, 2, 3], [-4, 1, 2], [7, -3, 2, 4]],
    "hyperboloid": [[3, 2, 2], [9, 4, 8], [-3, 2, 2], [1, 0, 0]],
    "halfspace": [[1, 2], [-3, 1], [0, 5], [2, 0, 3]],
    "klein": [[0, 0], [0, 0, 0]],
    "poincare": [[0, 0]],
}


def unit_rep(v):
    """projective representative: divided by its entry of largest modulus."""
    v = np.asarray(v, dtype=float)
    a = np.abs(v)
    # first entry within 10% of the largest modulus (robust to exact ties,
    # which integer data produces and rounding then breaks either way)
    i = np.argmax(a >= 0.9 * np.max(a, axis=-1, keepdims=True), axis=-1)
    return v / np.take_along_axis(v, np.asarray(i)[..., None], axis=-1)


def int_data_packagings(v):
    a = np.array(v)
    return {"float-ndarray": a.astype(float), "int-nested-list": [int(x) for x in v],
            "int-ndarray": a.astype(np.int64), "int32-ndarray": a.astype(np.int32),
            "float-nested-list": [float(x) for x in v],
            "tuple-of-ints": tuple(int(x) for x in v)}


def wl_packaging_integer_data(run, rng, idx):
    """integer-valued coordinates and matrices (real numeric input in integer
    packaging): same geometric object as the float packaging, and every
    follow-up query the library offers succeeds on it.  The stored dtype may
    stay integral for coordinate / matrix data (exact values); what is judged
    is values and the success of the library's own routines."""
    from geometry_tools import hyperbolic, projective
    from geometry_tools.hyperbolic import Isometry, Point, Segment
    models = sorted(INT_POINTS)
    model = models[idx % len(models)]
    pts = INT_POINTS[model]
    v = pts[(idx // len(models)) % len(pts)]
    d = len(v) - (1 if model in ("projective", "hyperboloid") else 0)
    other = np.full(d, 0.25)

    def post(p):
        q = Point(other, model="klein")
        return (p.coords("klein"), p.coords("poincare"), p.coords("hyperboloid") ** 2,
                p.coords("halfspace"), p.distance(q), q.distance(p),
                (p.origin_to() @ Point.get_origin(d)).coords("klein"),
                Segment(p, q).ideal_endpoint_coords("klein") ** 2)
    compare_variants(run, "hyperbolic.Point(integer coordinates, model=%s)" % model,
                     {k: (lambda w=w: Point(w, model=model)) for k, w in int_data_packagings(v).items()},
                     post=post, cls=(d,), require_float=False)
    # integer matrices
    n = int(rng.integers(2, 5))
    while True:
        A = rng.integers(-3, 4, size=(n, n))
        if abs(np.linalg.det(A)) > 0.5:
            break
    pk = {"float-ndarray": A.astype(float), "int-ndarray": A.astype(np.int64),
          "int-nested-list": A.tolist(), "float-nested-list": A.astype(float).tolist()}
    compare_variants(run, "projective.Transformation(integer matrix)",
                     {k: (lambda w=w: projective.Transformation(w)) for k, w in pk.items()},
                     post=lambda T: (T.inv(), unit_rep((T @ projective.Point(np.arange(1.0, n + 1))).proj_data),
                                     (T @ T.inv()).proj_data),
                     cls=(n,), require_float=False)
    # signed permutation block for elliptic
    dd = int(rng.integers(2, 5))
    P = np.eye(dd, dtype=int)[rng.permutation(dd)] * rng.choice([-1, 1], size=(dd, 1))
    pk = {"float-ndarray": P.astype(float), "int-ndarray": P, "int-nested-list": P.tolist()}
    compare_variants(run, "Isometry.elliptic(integer block)",
                     {k: (lambda w=w: Isometry.elliptic(dd, w)) for k, w in pk.items()},
                     post=lambda T: (T.inv(), (T @ Point(np.full(dd, 0.1), model="klein")).coords("klein")),
                     cls=(dd,), require_float=False)
    # integer-typed spacelike normals of hyperplanes (stored un-normalised:
    # seeded change C12-r2-2) -- reflection and wall recovered from it
    from geometry_tools.hyperbolic import Hyperplane
    while True:
        nv = rng.integers(-4, 5, size=dd + 1)
        if -nv[0] * nv[0] + int(np.sum(nv[1:] * nv[1:])) >= max(2, 0.2 * int(np.sum(nv * nv))):
            break
    compare_variants(run, "Hyperplane(int-normal).reflection_across",
                     {k: (lambda u=u: Hyperplane(u).reflection_across())
                      for k, u in int_data_packagings(nv.tolist()).items()},
                     post=lambda R: (R @ R, unit_rep(Hyperplane.from_reflection(R).proj_data[..., 0, :])),
                     cls=(dd,), require_float=False)
    pp = projective.Point
    w = [int(x) for x in rng.integers(1, 6, size=n)]
    compare_variants(run, "projective.Point(integer coordinates)",
                     {k: (lambda u=u: pp(u)) for k, u in int_data_packagings(w).items()},
                     post=lambda p: p.affine_coords(), cls=(n,), require_float=False)


COX = [
    [[1, 3, 2], [3, 1, 7], [2, 7, 1]],
    [[1, 3, 3], [3, 1, 4], [3, 4, 1]],
    [[1, 4, 2], [4, 1, 3], [2, 3, 1]],
    [[1, 0, 3], [0, 1, 3], [3, 3, 1]],
    [[1, -1, -1], [-1, 1, -1], [-1, -1, 1]],
    [[1, 5], [5, 1]],
    [[1, 3, 2, 2], [3, 1, 3, 2], [2, 3, 1, 5], [2, 2, 5, 1]],
    [[1, 4, 4], [4, 1, 4], [4, 4, 1]],
]


def wl_packaging_coxeter(run, rng, idx):
    from geometry_tools import coxeter
    M = COX[idx % len(COX)]
    Mi = np.array(M)
    pk = {"int-ndarray": Mi, "nested-int-list": [list(map(int, r)) for r in M],
          "float-ndarray": Mi.astype(float),
          "nested-float-list": [list(map(float, r)) for r in M],
          "int32-ndarray": Mi.astype(np.int32)}
    n = len(M)
    sig_ok = None
    for method in ("bilinear_form", "geometric_representation", "canonical_representation",
                   "hyperbolic_rep"):
        if method == "hyperbolic_rep":
            ev = np.linalg.eigvalsh(-np.cos(np.pi / np.where(Mi <= 0, 0.5, Mi.astype(float))))
            if not (np.sum(ev < -1e-6) == 1 and np.sum(ev > 1e-6) == n - 1):
                continue

        def thunk(v, method=method):
            G = coxeter.CoxeterGroup(matrix=v)
            r = getattr(G, method)()
            if method == "bilinear_form":
                return r
            word = "ab" * 2 + "a"
            return (r[word], r["a"])

        def post(res, method=method):
            if method == "bilinear_form":
                return np.linalg.eigvalsh(np.asarray(res, dtype=float))
            T = res[0]
            m = T.proj_data if hasattr(T, "proj_data") else np.asarray(T)
            return np.linalg.inv(m)
        compare_variants(run, "CoxeterGroup.%s" % method,
                         {k: (lambda v=v: thunk(v)) for k, v in pk.items()},
                         post=post, cls=(n,))
    # a history on ONE group object per packaging: the cosine form first, then a
    # Tits-Vinberg deformation of an infinite label (written as a negative
    # number), then the geometric representation again.  The group's own Coxeter
    # matrix and the caller's array must survive the calls (seeded change
    # C12-r2-3: array_like aliasing the float-packaged Coxeter matrix, which
    # bilinear_form then overwrites in place).
    neg = [(i, j) for i in range(n) for j in range(i + 1, n) if M[i][j] < 0]
    if neg:
        mon = run.monitor("packaging")
        par = {neg[0]: -3.0}

        def history(v):
            keep = np.array(v, dtype=float)
            G = coxeter.CoxeterGroup(matrix=v)
            own = np.array(G.coxeter_matrix, dtype=float)
            B = G.bilinear_form()
            tv = G.tits_vinberg_rep(par)
            geo = G.geometric_representation()
            after_own = np.array(G.coxeter_matrix, dtype=float)
            after_in = np.array(v, dtype=float)
            if not (np.array_equal(own, after_own) and np.array_equal(keep, after_in)):
                mon.fail("packaging/coxeter-matrix-mutated",
                         "the group's Coxeter matrix (or the caller's array) changed during "
                         "bilinear_form / tits_vinberg_rep / geometric_representation: %r -> %r"
                         % (own.tolist(), after_own.tolist()),
                         {"matrix": M, "packaging": type(v).__name__})
            return (np.asarray(B, dtype=float), np.asarray(tv["ab"], dtype=float),
                    np.asarray(tv["a"], dtype=float), np.asarray(geo["ab"], dtype=float))
        compare_variants(run, "CoxeterGroup.tits_vinberg_rep(history)",
                         {k: (lambda v=v: history(v)) for k, v in pk.items()}, cls=(n,))
        # and against the definition: s_i = I - e_i e_i^T C with C[i,j] = par
        C = -2 * np.cos(np.pi / np.where(Mi <= 0, 0.5, Mi.astype(float)))
        C[neg[0]] = par[neg[0]]
        C[neg[0][::-1]] = par[neg[0]]
        G = coxeter.CoxeterGroup(matrix=[list(map(float, r)) for r in M])
        G.bilinear_form()
        tv = G.tits_vinberg_rep(par)
        for i, g in enumerate("abcdefgh"[:n]):
            E = np.zeros((n, n))
            E[i, i] = 1.0
            mon.judge(float(np.max(np.abs(np.asarray(tv[g], dtype=float) - (np.eye(n) - E @ C)))),
                      TOL, "packaging/absolute-value/CoxeterGroup.tits_vinberg_rep/float-list",
                      "tits_vinberg_rep generator is not I - e_i e_i^T C for the Cartan matrix "
                      "with the requested parameter", {"matrix": M, "generator": g})
    # diagram route with python ints / numpy ints / floats as labels
    if n == 3:
        labs = (M[0][1], M[1][2], M[2][0])
        variants = {"python-int": tuple(int(v) for v in labs),
                    "numpy-int": tuple(np.int64(v) for v in labs),
                    "python-float": tuple(float(v) for v in labs)}
        compare_variants(run, "TriangleGroup.geometric_representation",
                         {k: (lambda v=v: coxeter.TriangleGroup(v).geometric_representation()["abc"])
                          for k, v in variants.items()},
                         post=lambda m: np.linalg.inv(np.asarray(m)))


# ---------------------------------------------------------------------------
# rescaling (homogeneous coordinates x per-unit non-zero scalars)

def rand_factors(rng, shape, pattern):
    mag = np.exp(rng.uniform(np.log(0.1), np.log(10), size=shape))
    if pattern == "positive":
        sgn = np.ones(shape)
    elif pattern == "negative":
        sgn = -np.ones(shape)
    else:
        sgn = rng.choice([-1.0, 1.0], size=shape)
        if sgn.size > 1 and np.all(sgn == sgn.flat[0]):
            sgn.flat[0] *= -1
    return mag * sgn


def klein_of(obj):
    return np.asarray(obj.coords("klein"))


def proj_equal_matrix(A, B):
    """max relative deviation of A from a scalar multiple of B (per unit)."""
    A = np.asarray(A, dtype=float)
    B = np.asarray(B, dtype=float)
    a = A.reshape(A.shape[:-2] + (-1,))
    b = B.reshape(B.shape[:-2] + (-1,))
    lam = np.sum(a * b, axis=-1, keepdims=True) / np.sum(b * b, axis=-1, keepdims=True)
    return float(np.max(np.linalg.norm(a - lam * b, axis=-1) /
                        np.linalg.norm(a, axis=-1)))


SHAPES = [(), (3,), (2, 2), (1, 3)]
PATTERNS = ["positive", "negative", "mixed"]


def wl_rescaling(run, rng, idx):
    from geometry_tools import hyperbolic
    from geometry_tools.hyperbolic import Point, Segment, Polygon, Isometry
    mon = run.monitor("rescaling")
    d = int(rng.integers(1, 5)) if idx % 4 else 2
    shape = SHAPES[idx % len(SHAPES)]
    pattern = PATTERNS[(idx // len(SHAPES)) % len(PATTERNS)]
    kp = rh.rand_ball(rng, d, shape, rmax=0.95)
    kq = rh.rand_ball(rng, d, shape, rmax=0.95)
    P0 = rh.klein_to_proj(kp)
    Q0 = rh.klein_to_proj(kq)
    lp = rand_factors(rng, shape + (1,), pattern)
    lq = rand_factors(rng, shape + (1,), pattern if pattern != "mixed" else "mixed")
    P1 = P0 * lp
    Q1 = Q0 * lq
    case = {"dimension": d, "shape": list(shape), "pattern": pattern,
            "P": P0, "Q": Q0, "lambda_P": lp, "lambda_Q": lq}
    run.current_case = case
    sig = (d, shape, pattern)
    p0, q0 = Point(P0.copy()), Point(Q0.copy())
    p1, q1 = Point(P1.copy()), Point(Q1.copy())

    def judge(op, err, tol=1e-8):
        run.note_class("rescale:" + op, *sig)
        return mon.judge(err, tol, "rescaling/%s/%s" % (op, pattern),
                         "%s changes under per-unit rescaling (%s factors)" % (op, pattern),
                         case)

    # model coordinates
    for model in ("klein", "poincare", "halfspace", "hyperboloid"):
        a = np.asarray(p0.coords(model))
        b = np.asarray(p1.coords(model))
        if model == "hyperboloid":
            err = float(np.max(np.abs(np.abs(a) - np.abs(b)) / (1 + np.abs(a))))
        elif model == "halfspace":
            with np.errstate(all="ignore"):
                err = float(np.max(np.abs(a - b) / (1 + np.abs(a))))
        else:
            err = float(np.max(np.abs(a - b)))
        judge("coords:" + model, err)
    # distances
    dref = rh.dist_klein(kp, kq)
    d0 = np.asarray(p0.distance(q0))
    d1 = np.asarray(p1.distance(q1))
    judge("distance", float(np.max(np.abs(d1 - d0))), 1e-7)
    judge("distance-vs-reference", float(np.max(np.abs(d1 - dref))), 1e-6)
    # origin_to / isometry as projective maps
    try:
        T0 = p0.origin_to()
        T1 = p1.origin_to()
        o = Point.get_origin(d, shape)
        judge("origin_to-image", float(np.max(np.abs(klein_of(T1 @ o) - kp))))
    except Exception:
        raise
    if d >= 1:
        sep = np.linalg.norm(kp - kq, axis=-1)
        # (tangent directions are a dimension>=2 notion in the library: in H^1
        # the frame (point, vector) is already complete and force_oriented
        # negates the vector; C13 quantifies over dimensions 2..5)
        if np.all(sep > 1e-3) and d >= 2:
            # tangent direction and the point reached along it
            tv0 = p0.unit_tangent_towards(q0)
            tv1 = p1.unit_tangent_towards(q1)
            arr0 = klein_of(tv0.point_along(dref))
            arr1 = klein_of(tv1.point_along(dref))
            judge("unit_tangent_towards->point_along(arrival)",
                  float(np.max(np.abs(arr1 - kq))), 1e-6)
            judge("unit_tangent_towards->point_along(vs unscaled)",
                  float(np.max(np.abs(arr1 - arr0))), 1e-6)
            # the angle at p between the directions towards q and towards a
            # third point r, read off the tangent vectors themselves (seeded
            # change C12-r3-3: projection to the tangent space assuming a unit
            # basepoint representative; point_along / isometry_to re-orthogonalise
            # and hide it, the stored vector and angle() do not)
            kr = rh.rand_ball(rng, d, shape, rmax=0.95)
            R0 = rh.klein_to_proj(kr)
            lr = rand_factors(rng, shape + (1,), pattern)
            if np.all(np.linalg.norm(kp - kr, axis=-1) > 1e-3):
                r0, r1 = Point(R0.copy()), Point((R0 * lr).copy())
                # fresh basepoint objects: earlier queries may have normalised p0, p1 in place
                pa, pb = Point(P0.copy()), Point(P1.copy())
                a0 = np.asarray(pa.unit_tangent_towards(q0).angle(pa.unit_tangent_towards(r0)))
                a1 = np.asarray(pb.unit_tangent_towards(q1).angle(pb.unit_tangent_towards(r1)))
                aref = rh.angle_at(P0, Q0, R0)
                # arccos is ill-conditioned at 0 and pi: compare cosines there
                judge("tangent-angle:vs-unscaled", float(np.max(np.abs(np.cos(a1) - np.cos(a0)))), 1e-7)
                judge("tangent-angle:vs-reference", float(np.max(np.abs(np.cos(a1) - np.cos(aref)))), 1e-6)
                # the stored tangent vector is tangent at the basepoint whatever
                # representative was given: <vector, point> = 0 relative to sizes
                tvb = pb.unit_tangent_towards(q1)
                vec = np.asarray(tvb.vector, dtype=float)
                pt = np.asarray(tvb.point, dtype=float)
                with np.errstate(all="ignore"):
                    defect = np.abs(rh.mink(vec, pt)) / (np.linalg.norm(vec, axis=-1) * np.linalg.norm(pt, axis=-1))
                judge("tangent-vector-orthogonal-to-basepoint", float(np.max(defect)), 1e-7)
            # segments with their ideal endpoints
            s0 = Segment(p0, q0)
            s1 = Segment(p1, q1)
            e0 = np.asarray(s0.ideal_endpoint_coords("klein"))
            e1 = np.asarray(s1.ideal_endpoint_coords("klein"))
            direct = np.max(np.abs(e0 - e1), axis=(-1, -2))
            swapped = np.max(np.abs(e0 - e1[..., ::-1, :]), axis=(-1, -2))
            judge("segment-ideal-endpoints(unordered)",
                  float(np.max(np.minimum(direct, swapped))), 1e-6)
            judge("segment-endpoints",
                  float(np.max(np.abs(np.asarray(s0.endpoint_coords("klein")) -
                                      np.asarray(s1.endpoint_coords("klein"))))))
            # circle parameters are ill-conditioned for nearly coincident
            # endpoints (error ~ eps/sep^2): judged for separated endpoints
            if d == 2 and np.all(sep > 0.05):
                for model in ("poincare", "halfspace"):
                    if model == "halfspace" and not rh.away_from_infinity(
                            np.concatenate([kp[..., None, :], kq[..., None, :], e0], axis=-2), 0.2):
                        continue
                    c0, r0, th0 = s0.circle_parameters(model=model, degrees=False)
                    c1, r1, th1 = s1.circle_parameters(model=model, degrees=False)
                    r0 = np.asarray(r0, dtype=float)
                    if np.all(np.isfinite(r0)) and np.all(r0 < 50):
                        judge("segment-circle-centre:" + model,
                              float(np.max(np.abs(np.asarray(c0) - np.asarray(c1)) /
                                           (1 + np.abs(np.asarray(c0))))), 1e-5)
                        judge("segment-circle-radius:" + model,
                              float(np.max(np.abs(r0 - np.asarray(r1)) / r0)), 1e-5)
                        dth = np.angle(np.exp(1j * (np.asarray(th0) - np.asarray(th1))))
                        judge("segment-circle-angles:" + model,
                              float(np.max(np.abs(dth) * np.minimum(r0, 1e3)[..., None])), 1e-5)
            # isometry_to between tangent vectors, as a projective map
            I0 = tv0.isometry_to(tv0.__class__(q0, rh.some_tangent(Q0)))
            I1 = tv1.isometry_to(tv1.__class__(q1, rh.some_tangent(Q1) * lq))
            img0 = klein_of(I0 @ p0)
            img1 = klein_of(I1 @ p1)
            judge("isometry_to-image", float(np.max(np.abs(img0 - img1))), 1e-6)
    # images under a transformation
    A = rh.rand_isometry(rng, d)
    T = Isometry(A, column_vectors=True)
    judge("transformation-image",
          float(np.max(np.abs(klein_of(T @ p0) - klein_of(T @ p1)))))
    # polygons (vertices rescaled independently)
    if d == 2:
        nv = int(rng.integers(3, 7))
        kv = rh.rand_ball(rng, 2, shape + (nv,), rmax=0.9)
        V0 = rh.klein_to_proj(kv)
        lv = rand_factors(rng, shape + (nv, 1), pattern)
        poly0 = Polygon(V0.copy())
        poly1 = Polygon((V0 * lv).copy())
        judge("polygon-vertices",
              float(np.max(np.abs(np.asarray(poly0.coords("klein")) -
                                  np.asarray(poly1.coords("klein"))))))
        eA = np.asarray(poly0.get_edges().endpoint_coords("klein"))
        eB = np.asarray(poly1.get_edges().endpoint_coords("klein"))
        judge("polygon-edges", float(np.max(np.abs(eA - eB))))
        judge("polygon-image",
              float(np.max(np.abs(np.asarray((T @ poly0).coords("klein")) -
                                  np.asarray((T @ poly1).coords("klein"))))))
    if idx < 2:
        run.sample({"dimension": d, "shape": list(shape), "pattern": pattern,
                    "P": P0, "lambda_P": lp})


EXACT_NULL = {
    2: [[1, 1, 0], [1, 0, -1], [5, 3, 4], [5, -4, 3], [13, 5, -12], [25, 7, 24], [1, -1, 0],
        [17, -8, -15]],
    3: [[3, 1, 2, 2], [1, 0, 0, 1], [7, 2, 3, 6], [9, -4, 4, 7], [3, -2, 1, -2], [1, -1, 0, 0]],
    4: [[2, 1, 1, 1, 1], [1, 0, 1, 0, 0], [5, 1, 2, 2, 4], [7, -1, 4, 4, -4]],
}


def wl_rescaling_ideal(run, rng, idx):
    """rays and bi-infinite geodesics: segments with one or two *exactly*
    lightlike endpoints (integer null vectors) and with ideal points that are
    null only up to round-off (from angles), under per-unit rescaling."""
    from geometry_tools.hyperbolic import Point, Segment, IdealPoint, Isometry
    mon = run.monitor("rescaling")
    d = 2 + idx % 3
    pattern = PATTERNS[(idx // 3) % len(PATTERNS)]
    nulls = EXACT_NULL[d]
    exact = (idx // 9) % 2 == 0
    k = int(rng.integers(1, 4))
    if exact:
        Q0 = np.array([nulls[i] for i in rng.integers(0, len(nulls), size=k)], dtype=float)
        Q2 = np.array([nulls[i] for i in rng.integers(0, len(nulls), size=k)], dtype=float)
    else:
        u = rh.rand_sphere(rng, d, (k,))
        Q0 = rh.klein_to_proj(u)
        u2 = rh.rand_sphere(rng, d, (k,))
        Q2 = rh.klein_to_proj(u2)
    kq, kq2 = rh.proj_to_klein(Q0), rh.proj_to_klein(Q2)
    kp = rh.rand_ball(rng, d, (k,), rmax=0.9)
    P0 = rh.klein_to_proj(kp)
    lp = rand_factors(rng, (k, 1), pattern)
    lq = rand_factors(rng, (k, 1), pattern)
    lq2 = rand_factors(rng, (k, 1), pattern)
    case = {"dimension": d, "pattern": pattern, "exact_null": exact, "P": P0, "Q_ideal": Q0,
            "Q2_ideal": Q2, "lambda_P": lp, "lambda_Q": lq, "lambda_Q2": lq2}
    run.current_case = case
    sig = (d, k, pattern, "exact" if exact else "roundoff")

    def judge(op, err, tol=1e-7):
        run.note_class("rescale-ideal:" + op, *sig)
        return mon.judge(err, tol, "rescaling/ideal/%s/%s" % (op, pattern),
                         "%s changes under per-unit rescaling (%s factors, ideal endpoints)"
                         % (op, pattern), case)

    def unordered(e0, e1):
        direct = np.max(np.abs(e0 - e1), axis=(-1, -2))
        swapped = np.max(np.abs(e0 - e1[..., ::-1, :]), axis=(-1, -2))
        return float(np.max(np.minimum(direct, swapped)))

    for (A0, B0, la, lb, name, ka, kb) in (
            (P0, Q0, lp, lq, "ray", kp, kq), (Q0, P0, lq, lp, "ray-ideal-first", kq, kp),
            (Q0, Q2, lq, lq2, "geodesic", kq, kq2)):
        if np.min(np.linalg.norm(ka - kb, axis=-1)) < 0.2:
            mon.skip("endpoints nearly coincide")
            continue
        s0 = Segment(Point(A0.copy()), Point(B0.copy()))
        s1 = Segment(Point((A0 * la).copy()), Point((B0 * lb).copy()))
        e0 = np.asarray(s0.ideal_endpoint_coords("klein"), dtype=float)
        e1 = np.asarray(s1.ideal_endpoint_coords("klein"), dtype=float)
        # reference: the two boundary points of the Klein chord through ka, kb
        dirv = kb - ka
        a_ = np.sum(dirv * dirv, axis=-1)
        b_ = 2 * np.sum(ka * dirv, axis=-1)
        c_ = np.sum(ka * ka, axis=-1) - 1
        disc = np.sqrt(np.clip(b_ * b_ - 4 * a_ * c_, 0, None))
        t1, t2 = (-b_ + disc) / (2 * a_), (-b_ - disc) / (2 * a_)
        ref = np.stack([ka + t1[:, None] * dirv, ka + t2[:, None] * dirv], axis=-2)
        judge(name + "-ideal-endpoints-vs-reference", unordered(ref, e1), 1e-6)
        judge(name + "-ideal-endpoints(unordered)", unordered(e0, e1), 1e-6)
        judge(name + "-endpoints",
              float(np.max(np.abs(np.asarray(s0.endpoint_coords("klein")) -
                                  np.asarray(s1.endpoint_coords("klein"))))))
        if d == 2:
            c0, r0, th0 = s0.circle_parameters(model="poincare", degrees=False)
            c1, r1, th1 = s1.circle_parameters(model="poincare", degrees=False)
            r0 = np.asarray(r0, dtype=float)
            r1 = np.asarray(r1, dtype=float)
            # reference circle: orthogonal to the unit circle through the two
            # boundary points ref[...,0,:], ref[...,1,:]
            m = 0.5 * (ref[..., 0, :] + ref[..., 1, :])
            m2 = np.sum(m * m, axis=-1)
            ok = (m2 > 1e-3) & np.isfinite(r1) & (r1 < 50)
            if np.any(ok):
                cref = m / m2[:, None]
                rref = np.sqrt(np.clip(1 / m2 - 1, 0, None))
                judge(name + "-circle-centre-vs-reference",
                      float(np.max(np.abs(np.asarray(c1)[ok] - cref[ok]) / (1 + np.abs(cref[ok])))), 1e-5)
                judge(name + "-circle-radius-vs-reference",
                      float(np.max(np.abs(r1[ok] - rref[ok]) / rref[ok])), 1e-5)
                dth = np.angle(np.exp(1j * (np.asarray(th0)[ok] - np.asarray(th1)[ok])))
                judge(name + "-circle-angles", float(np.max(np.abs(dth) * np.minimum(r0[ok], 1e3)[..., None])), 1e-5)
    # horospheres: ideal centre and interior reference point rescaled
    # independently (seeded change C12-r2-1: a closed formula that assumes a
    # positive time coordinate of the reference point)
    from geometry_tools.hyperbolic import Horosphere
    h0 = Horosphere(Point(Q0.copy()), Point(P0.copy()))
    h1 = Horosphere(Point((Q0 * lq).copy()), Point((P0 * lp).copy()))
    for model in ("poincare", "halfspace"):
        if model == "halfspace" and not rh.away_from_infinity(kq, 0.3):
            continue
        c0, r0 = h0.sphere_parameters(model=model)
        c1, r1 = h1.sphere_parameters(model=model)
        c0, r0, c1, r1 = (np.asarray(x, dtype=float) for x in (c0, r0, c1, r1))
        if not (np.all(np.isfinite(r0)) and np.all(r0 < 50)):
            continue
        judge("horosphere-centre:" + model, float(np.max(np.abs(c0 - c1) / (1 + np.abs(c0)))), 1e-6)
        judge("horosphere-radius:" + model, float(np.max(np.abs(r0 - r1) / np.abs(r0))), 1e-6)
        if model == "poincare":
            # reference: tangent to the unit sphere at the centre, through the
            # reference point x:  r = |x - u|^2 / (2 (1 - x.u))
            xp = rh.klein_to_poincare(kp)
            rref = np.sum((xp - kq) ** 2, axis=-1) / (2 * (1 - np.sum(xp * kq, axis=-1)))
            judge("horosphere-radius-vs-reference:" + model,
                  float(np.max(np.abs(r1 - rref) / rref)), 1e-6)
    # coordinates of ideal points themselves
    q0, q1 = Point(Q0.copy()), Point((Q0 * lq).copy())
    for model in ("klein", "poincare"):
        judge("ideal-coords:" + model,
              float(np.max(np.abs(np.asarray(q0.coords(model)) - np.asarray(q1.coords(model))))))
    A = rh.rand_isometry(rng, d)
    T = Isometry(A, column_vectors=True)
    judge("ideal-image", float(np.max(np.abs(klein_of(T @ q0) - klein_of(T @ q1)))))
    if idx < 1:
        run.sample({"dimension": d, "pattern": pattern, "Q_ideal": Q0, "lambda_Q": lq})


def wl_docs(run, rng, idx):
    """the documentation's python blocks and examples/*.py, run as programs."""
    from .. import examples
    mon = run.monitor("docs")
    progs = examples.programs()
    if not progs:
        return mon.skip("no documentation programs found")
    doc, bl = progs[idx % len(progs)]
    run.current_case = {"document": doc}
    for i, status, detail in examples.run_program(doc, bl, shrink=(run.tier == "quick")):
        if status == "ok":
            mon.ok()
            run.note_class("doc", doc, i)
        elif status == "skipped":
            mon.skip(detail)
        else:
            mon.fail("docs/exception:%s/%s[block %d]" % (detail.split(":")[0], doc, i),
                     "documentation program %s block %d does not run: %s"
                     % (doc, i, detail.splitlines()[0]),
                     case={"document": doc, "block": i, "code": bl[i][:1500]},
                     tb=detail)
    if idx < 1:
        run.sample({"document": doc, "first_block": bl[0][:400]})


WORKLOADS = [
    Workload("packaging-scalar", wl_packaging_scalar, quick=12, thorough=300),
    Workload("packaging-matrix", wl_packaging_matrix, quick=12, thorough=300),
    Workload("packaging-coxeter", wl_packaging_coxeter, quick=8, thorough=64),
    Workload("packaging-integer-data", wl_packaging_integer_data, quick=25, thorough=250),
    Workload("rescaling", wl_rescaling, quick=240, thorough=6000),
    Workload("rescaling-ideal", wl_rescaling_ideal, quick=90, thorough=1800),
    Workload("docs", wl_docs, quick=12, thorough=12),
]
