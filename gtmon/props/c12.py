"""C12 -- results are independent of number packaging and of homogeneous rescaling.

Monitors
  dtype-funnel  (P) on utils.check_type / array_like / zeros / ones / identity /
                number: real-numeric `like`/data never yields object dtype.
                Fires on every internal call of every workload.
  packaging     (W) metamorphic: the same numbers as Python scalar, NumPy scalar,
                0-d array, nested list, ndarray through every documented entry
                point; results float/complex (never object), numerically equal,
                and the library's own inv / eig / trig follow-ups succeed.
  rescaling     (W) metamorphic: per-unit non-zero rescaling (negative included)
                of homogeneous input coordinates changes no geometric output.
                Workloads `rescaling` (points, segments, tangent vectors,
                polygons), `rescaling-ideal` (rays, geodesics, horospheres) and
                `rescaling-objects` (per-*point* factors inside every other
                object built from points / ideal points / normals: horosphere
                intersections and arcs, boundary arcs, geodesics, subspaces,
                hyperplanes and dual points, tangent vectors, projective pairs,
                polygons, subspace intersections, chart normals), judged
                against numpy references in ref/rescale.py.
  docs          (W) README / docstring programs run.
"""
import math
import numpy as np

from ..run import Workload
from .. import attach
from ..ref import hyp as rh
from ..ref import rescale as rr

ID = "C12"
RULE = ("packaging cases = (entry point, value, packaging) with packagings "
        "{python scalar, numpy scalar, 0-d array, nested list, ndarray}; "
        "rescaling cases = (operation, dimension, composite shape, sign pattern "
        "of per-unit factors in +-[0.1,10]; for objects built from m points the sign "
        "vector of the m per-point factors runs through all 2^m patterns with the case "
        "index); non-trivial = the variant differs in "
        "type or in representative from the reference variant; distinct = "
        "distinct (entry point/operation, packaging or sign pattern, dimension, "
        "shape) signatures")
ASSUMPTIONS = [
    "only NumPy 2.5.3 is installed: the NumPy-version quantifier of C12 is not "
    "explored (stated in DESIGN.md section 7)",
    "the order of a segment's two ideal endpoints is not geometric (follows the "
    "sign of the representatives); compared as unordered pairs",
    "a chart normal n is homogeneous input (n and lambda n are the same hyperplane), but "
    "hyperplane_coordinate_transform / find_definite_isometry return one of many valid "
    "frame completions: only what the hyperplane determines is judged under rescaling "
    "(it goes to x0 = 0 by an orthogonal map), not the completion itself",
    "a tangent vector is rescaled jointly with its basepoint (the pair is one unit)",
    "ConvexPolygon documents its vertex coordinates as preferred lifts: not rescaled",
]
ANCHORS = [("geometry_tools/utils/types.py", "is_linalg_type"),
           ("geometry_tools/utils/types.py", "inexact_type"),
           ("geometry_tools/utils/core.py", "check_type"),
           ("geometry_tools/utils/core.py", "array_like"),
           ("geometry_tools/utils/core.py", "number"),
           ("geometry_tools/utils/core.py", "rotation_matrix"),
           ("geometry_tools/hyperbolic.py", "Point.unit_tangent_towards"),
           ("geometry_tools/hyperbolic.py", "Point.distance"),
           ("geometry_tools/hyperbolic.py", "Segment._compute_aux_data"),
           ("geometry_tools/hyperbolic.py", "Isometry.standard_rotation"),
           ("geometry_tools/hyperbolic.py", "Isometry.elliptic"),
           ("geometry_tools/hyperbolic.py", "IdealPoint.from_angle"),
           ("geometry_tools/hyperbolic.py", "Polygon.regular_polygon"),
           ("geometry_tools/hyperbolic.py", "sl2_iso"),
           ("geometry_tools/coxeter.py", "CoxeterGroup.bilinear_form"),
           ("geometry_tools/hyperbolic.py", "Horosphere.intersect_geodesic"),
           ("geometry_tools/hyperbolic.py", "HorosphereArc.circle_parameters"),
           ("geometry_tools/hyperbolic.py", "BoundaryArc._build_orientation_point"),
           ("geometry_tools/hyperbolic.py", "BoundaryArc.endpoint_coords"),
           ("geometry_tools/hyperbolic.py", "Subspace._data_with_dual"),
           ("geometry_tools/hyperbolic.py", "Subspace.reflection_across"),
           ("geometry_tools/hyperbolic.py", "Hyperplane._compute_ideal_basis"),
           ("geometry_tools/hyperbolic.py", "spacelike_to"),
           ("geometry_tools/projective.py", "hyperplane_coordinate_transform"),
           ("geometry_tools/projective.py", "Subspace.intersect"),
           ("geometry_tools/utils/core.py", "find_definite_isometry")]
REQUIRED = [
    ("geometry_tools/utils/core.py", "check_type", "if not types.is_linalg_type(like):"),
]

TOL = 1e-9


def real_numeric(x):
    """independent classifier: Python/NumPy real scalars, 0-d arrays, nested
    lists of them, numeric ndarrays -- not callables or arbitrary objects."""
    if x is None or callable(x) or isinstance(x, (str, bytes, dict)):
        return False
    if isinstance(x, (bool, int, float, np.integer, np.floating)):
        return True
    if isinstance(x, np.ndarray):
        return x.dtype.kind in "biuf"
    if isinstance(x, (list, tuple)):
        try:
            return np.asarray(x).dtype.kind in "biuf"
        except Exception:
            return False
    return False


def setup(run):
    from geometry_tools.utils import core as ucore
    mon = run.monitor("dtype-funnel", min_events=20)

    def funnel(which, like_arg, pos):
        def hook(call):
            if call.exc is not None:
                return
            b = call.bound()
            if b.get("dtype") is not None or b.get("base_ring") is not None:
                return mon.skip("explicit dtype/base_ring")
            like = b.get("like")
            if like is None and like_arg is not None:
                like = b.get(like_arg)
            if like is None:
                return mon.skip("no like")
            if not real_numeric(like):
                return mon.skip("like is not real-numeric")
            res = call.result
            dt = res[1] if which == "check_type" else getattr(res, "dtype", None)
            if which == "number":
                dt = np.asarray(res).dtype
            if dt is None:
                return mon.skip("no dtype on result")
            kind = type(like).__name__
            if isinstance(like, (list, tuple)):
                kind = "nested-" + kind
            if np.dtype(dt) == np.dtype("O"):
                mon.fail("dtype-funnel/object-dtype/%s/like:%s" % (which, kind),
                         "utils.%s(like=%r) gives dtype object for real-numeric input"
                         % (which, like if np.size(like) < 6 else type(like)),
                         case={"function": which, "like": repr(like)[:200]})
            else:
                mon.ok()
        return hook
    for name, like_arg in (("check_type", None), ("array_like", "array"),
                           ("zeros", None), ("ones", None), ("identity", None),
                           ("number", None)):
        attach.wrap_everywhere(run, getattr(ucore, name), funnel(name, like_arg, 0))
    run.monitor("packaging", min_events=50)
    run.monitor("rescaling", min_events=50)
    run.monitor("docs", min_events=10)


# ---------------------------------------------------------------------------
# packaging

def scalar_packagings(x, integer=False):
    out = {"python": (int(x) if integer else float(x)),
           "numpy-scalar": (np.int64(x) if integer else np.float64(x)),
           "0d-array": np.array(int(x) if integer else float(x))}
    return out


def matrix_packagings(M):
    M = np.asarray(M, dtype=float)
    return {"ndarray": M.copy(), "nested-list": M.tolist(),
            "tuple-of-tuples": tuple(tuple(r) for r in M.tolist()),
            "list-of-arrays": [np.array(r) for r in M.tolist()],
            "list-of-numpy-scalars": [[np.float64(v) for v in r] for r in M.tolist()]}


def arrays_of(res):
    """numeric arrays carried by a result (object / tuple / ndarray)."""
    if isinstance(res, (tuple, list)):
        out = []
        for r in res:
            out.extend(arrays_of(r))
        return out
    if hasattr(res, "proj_data"):
        return [np.array(res.proj_data)]       # copy: queries normalise in place
    return [np.array(res)]


def compare_variants(run, entry, variants, post=None, cls=(), expected=None,
                     integer_ok=False, require_float=True):
    """variants: label -> thunk.  All must succeed, give non-object inexact
    arrays, agree numerically, and survive `post` (follow-up library calls)."""
    mon = run.monitor("packaging")
    ref = None
    ref_label = None
    for label, thunk in variants.items():
        case = {"entry": entry, "packaging": label}
        run.current_case = case
        try:
            res = thunk()
            arrs = arrays_of(res)
            if post is not None:
                arrs = arrs + arrays_of(post(res))
        except Exception as e:
            import traceback
            mon.fail("packaging/exception:%s/%s/%s" % (type(e).__name__, entry, label),
                     "%s with %s packaging raised %s: %s"
                     % (entry, label, type(e).__name__, str(e)[:160]),
                     case, tb=traceback.format_exc())
            continue
        bad = [a.dtype for a in arrs if a.dtype == np.dtype("O")]
        if bad:
            mon.fail("packaging/object-dtype/%s/%s" % (entry, label),
                     "%s with %s packaging returned generic-object data" % (entry, label),
                     case)
            continue
        notfloat = [str(a.dtype) for a in arrs if a.dtype.kind not in "fc"]
        if notfloat and not integer_ok and require_float:
            mon.fail("packaging/non-float-dtype/%s/%s" % (entry, label),
                     "%s with %s packaging returned %s data for real input (floating point expected)"
                     % (entry, label, notfloat[0]), case)
            continue
        if expected is not None:
            exp = np.asarray(expected, dtype=complex)
            got = arrs[0].astype(complex)
            if got.shape != exp.shape:
                mon.fail("packaging/absolute-shape/%s/%s" % (entry, label),
                         "%s: shape %r, expected %r" % (entry, got.shape, exp.shape), case)
                continue
            if not mon.judge(float(np.max(np.abs(got - exp))) if exp.size else 0.0, TOL,
                             "packaging/absolute-value/%s/%s" % (entry, label),
                             "%s with %s packaging is not the documented value" % (entry, label),
                             case):
                continue
        run.note_class(entry, label, *cls)
        if ref is None:
            ref, ref_label = arrs, label
            mon.ok()
            continue
        if len(arrs) != len(ref) or any(a.shape != b.shape for a, b in zip(arrs, ref)):
            mon.fail("packaging/shape-differs/%s/%s" % (entry, label),
                     "%s: shapes differ between %s and %s packaging: %r vs %r"
                     % (entry, ref_label, label, [a.shape for a in ref], [a.shape for a in arrs]),
                     case)
            continue
        err = 0.0
        for a, b in zip(arrs, ref):
            if a.size:
                with np.errstate(all="ignore"):
                    d = np.abs(a.astype(complex) - b.astype(complex))
                    err = max(err, float(np.max(d / (1.0 + np.abs(b.astype(complex))))))
        mon.judge(err, TOL, "packaging/value-differs/%s/%s" % (entry, label),
                  "%s: %s packaging differs from %s packaging" % (entry, label, ref_label),
                  case)


def std_rotation_ref(a, d):
    """rotation by a in the (x1, x2) plane of R^(d,1), as a map of Klein
    coordinates; compared on the matrix up to transpose convention by checking
    the action: returned here as the (d+1)x(d+1) matrix stored by an Isometry
    built with column_vectors=True (proj_data = transpose of the column-vector
    matrix)."""
    M = np.eye(d + 1)
    M[1:3, 1:3] = [[math.cos(a), -math.sin(a)], [math.sin(a), math.cos(a)]]
    return M.T


def int_packagings(x):
    """an integer-valued real parameter in every packaging (the reference
    variant, listed first, is the Python float)."""
    return {"python-float": float(x), "python-int": int(x), "numpy-int64": np.int64(x),
            "int-0d-array": np.array(int(x)), "numpy-float64": np.float64(x),
            "numpy-int32": np.int32(x)}


def wl_packaging_scalar(run, rng, idx):
    from geometry_tools import utils, hyperbolic
    from geometry_tools.hyperbolic import Isometry, IdealPoint, Polygon, TangentVector, Point
    d = int(rng.integers(2, 5))
    n = int(rng.integers(3, 9))
    if idx % 3 == 2:
        # integer-valued parameters (an angle of 1 radian, a radius of 2, ...)
        a = float(rng.integers(-6, 7))
        pk = int_packagings(a)
        scalar_pk = int_packagings
        r_int = float(rng.integers(1, 4))
        t_int = float(rng.integers(-3, 4))
        par_int = float(rng.integers(2, 8))
    else:
        a = float(rng.uniform(-2 * math.pi, 2 * math.pi))
        pk = scalar_packagings(a)
        scalar_pk = scalar_packagings
        r_int = t_int = par_int = None
    ca, sa = math.cos(a), math.sin(a)
    compare_variants(run, "utils.rotation_matrix",
                     {k: (lambda v=v: utils.rotation_matrix(v)) for k, v in pk.items()},
                     post=lambda R: np.linalg.inv(R), expected=[[ca, -sa], [sa, ca]])
    compare_variants(run, "Isometry.standard_rotation",
                     {k: (lambda v=v: Isometry.standard_rotation(v, dimension=d))
                      for k, v in pk.items()},
                     post=lambda T: (T.inv(), T @ Point(np.full(d, 0.1), model="klein"),
                                     np.linalg.eig(T.proj_data)[0]), cls=(d,),
                     expected=std_rotation_ref(a, d))
    compare_variants(run, "IdealPoint.from_angle",
                     {k: (lambda v=v: IdealPoint.from_angle(v).coords("klein")) for k, v in pk.items()},
                     expected=[ca, sa])
    compare_variants(run, "IdealPoint.from_angle->poincare",
                     {k: (lambda v=v: IdealPoint.from_angle(v)) for k, v in pk.items()},
                     post=lambda p: p.coords("poincare"))
    ang = float(rng.uniform(0.05, 0.95)) * (n - 2) * math.pi / n
    if r_int is not None and (n - 2) * math.pi / n > 1.0:
        ang = 1.0
    compare_variants(run, "Polygon.regular_polygon(angle)",
                     {k: (lambda v=v: Polygon.regular_polygon(n, angle=v))
                      for k, v in (scalar_pk(ang) if ang == 1.0 else scalar_packagings(ang)).items()},
                     post=lambda P: P.coords("klein"), cls=(n,))
    rad = float(rng.uniform(0.1, 3.0)) if r_int is None else r_int
    compare_variants(run, "Polygon.regular_polygon(radius)",
                     {k: (lambda v=v: Polygon.regular_polygon(n, radius=v))
                      for k, v in scalar_pk(rad).items()},
                     post=lambda P: P.coords("poincare"), cls=(n,))
    par = float(rng.uniform(1.1, 8.0)) if par_int is None else par_int
    compare_variants(run, "Isometry.standard_loxodromic",
                     {k: (lambda v=v: Isometry.standard_loxodromic(d, v))
                      for k, v in scalar_pk(par).items()},
                     post=lambda T: (T.inv(), T.fixed_point_pair()), cls=(d,))
    t = float(rng.uniform(-3, 3)) if t_int is None else t_int
    compare_variants(run, "TangentVector.point_along",
                     {k: (lambda v=v: TangentVector.get_base_tangent(d).normalized().point_along(v))
                      for k, v in scalar_pk(t).items()},
                     post=lambda p: p.coords("klein"), cls=(d,))
    for fname in ("array_like", "zeros", "ones", "identity", "number"):
        f = getattr(utils, fname)
        if fname == "array_like":
            th = {k: (lambda v=v: f(v)) for k, v in pk.items()}
            th["nested-list"] = lambda: f([a])[0]
        elif fname == "number":
            th = {k: (lambda v=v: np.asarray(f(a, like=v))) for k, v in pk.items()}
            th["nested-list"] = lambda: np.asarray(f(a, like=[a]))
        elif fname == "identity":
            th = {k: (lambda v=v: f(3, like=v)) for k, v in pk.items()}
            th["nested-list"] = lambda: f(3, like=[a])
        else:
            th = {k: (lambda v=v: f((2, 2), like=v)) for k, v in pk.items()}
            th["nested-list"] = lambda: f((2, 2), like=[a])
        # an integer `like` legitimately gives an integer array here
        # (integer_type=True is the factories' documented default): only
        # 'never object' and equal values are required of the factories
        compare_variants(run, "utils." + fname, th, integer_ok=True)
    if idx < 2:
        run.sample({"angle": a, "dimension": d, "n": n})


def rand_sl2(rng, integer=False):
    if integer:
        # product of elementary matrices: exact integer SL(2,Z)
        M = np.eye(2, dtype=int)
        for _ in range(int(rng.integers(1, 5))):
            k = int(rng.integers(-2, 3))
            E = np.array([[1, k], [0, 1]]) if rng.random() < 0.5 else np.array([[1, 0], [k, 1]])
            M = M @ E
        return M
    while True:
        M = rng.normal(size=(2, 2))
        dt = np.linalg.det(M)
        if abs(dt) > 0.2 and np.linalg.cond(M) < 50:
            return M / math.sqrt(abs(dt))


def wl_packaging_matrix(run, rng, idx):
    from geometry_tools import hyperbolic, projective, utils
    from geometry_tools.hyperbolic import Isometry, Point
    d = int(rng.integers(2, 5))
    M = rand_sl2(rng)
    compare_variants(run, "hyperbolic.sl2_iso",
                     {k: (lambda v=v: hyperbolic.sl2_iso(v)) for k, v in matrix_packagings(M).items()},
                     post=lambda T: (T.inv(), np.linalg.eig(T.proj_data)[0].real * 0 + 1))
    Mi = rand_sl2(rng, integer=True)
    pk = {"int-ndarray": Mi, "int-nested-list": Mi.tolist(),
          "float-ndarray": Mi.astype(float), "float-nested-list": Mi.astype(float).tolist()}
    compare_variants(run, "hyperbolic.sl2_iso(integer entries)",
                     {k: (lambda v=v: hyperbolic.sl2_iso(v)) for k, v in pk.items()},
                     post=lambda T: T.inv())
    # orthogonal block
    Q, _ = np.linalg.qr(rng.normal(size=(d, d)))
    compare_variants(run, "Isometry.elliptic",
                     {k: (lambda v=v: Isometry.elliptic(d, v)) for k, v in matrix_packagings(Q).items()},
                     post=lambda T: (T.inv(), T @ Point(np.full(d, 0.1), model="klein")), cls=(d,))
    # points
    x = rng.normal(size=(3, d))
    x = 0.8 * x / (1 + np.linalg.norm(x, axis=-1, keepdims=True))
    for model in ("klein", "poincare", "halfspace", "projective", "hyperboloid"):
        if model == "halfspace":
            y = x.copy()
            y[..., -1] = np.abs(y[..., -1]) + 0.1
        elif model in ("projective", "hyperboloid"):
            y = np.concatenate([np.ones((3, 1)), x], axis=-1)
            if model == "hyperboloid":
                y = y / np.sqrt(1 - np.sum(x ** 2, axis=-1, keepdims=True))
        else:
            y = x
        compare_variants(run, "hyperbolic.Point(model=%s)" % model,
                         {k: (lambda v=v: Point(v, model=model)) for k, v in matrix_packagings(y).items()},
                         post=lambda p: (p.coords("klein"), p.distance(p.origin_to() @ p)),
                         cls=(d,))
    A = rng.normal(size=(d + 1, d + 1)) + 2 * np.eye(d + 1)
    compare_variants(run, "projective.Transformation",
                     {k: (lambda v=v: projective.Transformation(v)) for k, v in matrix_packagings(A).items()},
                     post=lambda T: (T.inv(), T @ projective.Point(np.ones(d + 1))), cls=(d,))


# ---------------------------------------------------------------------------
# packaging of SEQUENCE-valued parameters of the vectorised factories

def sequence_packagings(vals, integer=False):
    """the same k real values as every kind of sequence (label -> (object,
    composite shape the result must have))."""
    conv = int if integer else float
    npconv = np.int64 if integer else np.float64
    a = np.array([conv(v) for v in vals])
    k = len(vals)
    return {"ndarray": (a.copy(), (k,)),
            "list": ([conv(v) for v in vals], (k,)),
            "tuple": (tuple(conv(v) for v in vals), (k,)),
            "list-of-numpy-scalars": ([npconv(v) for v in vals], (k,)),
            "list-of-0d-arrays": ([np.array(conv(v)) for v in vals], (k,)),
            "(k,1)-ndarray": (a.reshape(k, 1), (k, 1)),
            "(1,k)-ndarray": (a.reshape(1, k), (1, k)),
            "nested-(1,k)-list": ([[conv(v) for v in vals]], (1, k))}


NDARRAY_FORMS = ("ndarray", "(k,1)-ndarray", "(1,k)-ndarray")


def compare_sequence(run, entry, f, single, vals, only=None, integer=False, ref=None, cls=(),
                     one_key_for_lists=False):
    """f(sequence) for every packaging of the k values `vals`: floating-point
    arrays of shape (composite shape of the sequence) + (shape for one value),
    entry i equal to `single(vals[i])` (the factory applied to value i alone)
    and, where given, to the numpy reference ref(value).  f and single return
    an array or a tuple of arrays.

    Seeded change C12-r6-2: Polygon.regular_polygon laid its vertex array out
    with the vertex axis first: k radii gave n 'polygons' of k collinear
    vertices (equal shapes when k == n); scalars of every kind were unaffected."""
    mon = run.monitor("packaging")
    k = len(vals)
    singles = []
    for v in vals:
        r = single(float(v))
        singles.append([np.asarray(x, dtype=float) for x in (r if isinstance(r, tuple) else (r,))])
    expected = [np.stack([s[c] for s in singles]) for c in range(len(singles[0]))]
    refs = None
    if ref is not None:
        rr_ = [ref(float(v)) for v in vals]
        refs = [np.stack([np.asarray((x if isinstance(x, tuple) else (x,))[c], dtype=float) for x in rr_])
                for c in range(len(expected))]
        for c in range(len(expected)):
            mon.judge(float(np.max(np.abs(expected[c] - refs[c]))) if expected[c].size else 0.0, 1e-8,
                      "packaging/absolute-value/%s/python-scalar" % entry,
                      "%s of one value is not the documented value" % entry,
                      {"entry": entry, "values": list(vals)})
    for label, (seq, cshape) in sequence_packagings(vals, integer).items():
        if only is not None and label not in only:
            continue
        case = {"entry": entry, "packaging": label, "values": list(vals)}
        run.current_case = case
        if one_key_for_lists and label in LIST_FORMS:
            label = "list-or-tuple"
        try:
            res = f(seq)
            arrs = [np.asarray(x) for x in (res if isinstance(res, tuple) else (res,))]
        except Exception as e:
            import traceback
            mon.fail("packaging/sequence-exception:%s/%s/%s" % (type(e).__name__, entry, label),
                     "%s with the values as %s raised %s: %s"
                     % (entry, label, type(e).__name__, str(e)[:160]), case, tb=traceback.format_exc())
            continue
        if any(a.dtype == np.dtype("O") or a.dtype.kind not in "fc" for a in arrs):
            mon.fail("packaging/sequence-dtype/%s/%s" % (entry, label),
                     "%s with the values as %s returned %s data" % (entry, label, [str(a.dtype) for a in arrs]),
                     case)
            continue
        good = True
        for c, a in enumerate(arrs):
            want = tuple(cshape) + expected[c].shape[1:]
            if a.shape != want:
                mon.fail("packaging/sequence-shape/%s/%s" % (entry, label),
                         "%s with %d values as %s: shape %r, expected %r (one unit per value)"
                         % (entry, k, label, a.shape, want), case)
                good = False
                break
            err = float(np.max(np.abs(a.reshape(expected[c].shape) - expected[c]))) if a.size else 0.0
            if not mon.judge(err, TOL, "packaging/sequence-value/%s/%s" % (entry, label),
                             "%s with the values as %s: entry i is not %s of value i alone"
                             % (entry, label, entry), case):
                good = False
                break
        if good:
            run.note_class("sequence", entry, label, k, *cls)


LIST_FORMS = ("list", "tuple", "list-of-numpy-scalars", "list-of-0d-arrays", "nested-(1,k)-list")

# Open finding C12-list-valued-angle-distance (witnesses and candidate repair in
# /verif/findings/): on the pinned tree these four entry points only work for
# ndarray sequences.  `interior_angle / 2` raises TypeError for a list / tuple
# in regular_polygon_radius (hence regular_polygon(angle=[...]), although
# radius=[...] works), and `2 * r` in hyp_to_affine_dist REPEATS a list, so it
# silently returns 2k wrong values (hence point_along([...]) raises ValueError).
# Their list forms are driven by the workload `packaging-open-findings`, which
# has a budget of 0 until the repair lands (replays of its cases run
# regardless); then set SEQUENCE_ONLY = {} and give it a budget.
# (repaired in the repository as F50, 7921f15: the list forms are now part of the
# ordinary sequence workload AND keep their own workload, with a budget)
FORMER_SEQUENCE_ONLY = ("Polygon.regular_polygon(angle)", "hyperbolic.regular_polygon_radius",
                        "hyperbolic.hyp_to_affine_dist", "TangentVector.point_along")
SEQUENCE_ONLY = {}


def wl_packaging_sequence(run, rng, idx):
    _packaging_sequence(run, rng, idx, SEQUENCE_ONLY, None)


def wl_packaging_open_findings(run, rng, idx):
    """the list / tuple forms of the entry points of SEQUENCE_ONLY."""
    _packaging_sequence(run, rng, idx, {e: LIST_FORMS for e in FORMER_SEQUENCE_ONLY},
                        set(FORMER_SEQUENCE_ONLY))


def _packaging_sequence(run, rng, idx, only_map, entries):
    """every factory / helper that is vectorised over a real parameter, with k
    values given as list, tuple, 1-d ndarray, list of NumPy scalars / 0-d arrays,
    (k,1) and (1,k) arrays, nested list: one unit per value, each equal to the
    call on that value alone.  (rotation_matrix, Isometry.standard_rotation,
    standard_loxodromic and elliptic are documented as not vectorised.)"""
    from geometry_tools import hyperbolic, projective, utils
    from geometry_tools.hyperbolic import IdealPoint, Polygon, TangentVector, Point
    n = int(rng.integers(3, 8))
    # k == n is the case where a transposed layout has the right shape
    k = n if idx % 3 == 0 else int(rng.integers(1, 6))
    integer = idx % 4 == 3
    d = int(rng.integers(2, 5))
    if integer:
        radii = [float(v) for v in rng.integers(1, 4, size=k)]
        angles = [float(v) for v in rng.integers(-6, 7, size=k)]
    else:
        radii = [float(v) for v in rng.uniform(0.1, 3.0, size=k)]
        angles = [float(v) for v in rng.uniform(-2 * math.pi, 2 * math.pi, size=k)]
    th = 2 * math.pi * np.arange(n) / n

    def compare(entry, *args, **kw):
        if entries is None or entry in entries:
            compare_sequence(run, entry, *args, only=only_map.get(entry), integer=integer,
                             one_key_for_lists=entries is not None, **kw)

    def polygon_ref(r):
        kv = np.stack([math.tanh(r) * np.cos(th), math.tanh(r) * np.sin(th)], axis=-1)
        return kv, np.stack([kv, np.roll(kv, -1, axis=0)], axis=-2)

    def polygon_out(P):
        return (np.asarray(P.coords("klein")), np.asarray(P.get_edges().endpoint_coords("klein")))
    compare("Polygon.regular_polygon(radius)",
            lambda s: polygon_out(Polygon.regular_polygon(n, radius=s)),
            lambda v: polygon_out(Polygon.regular_polygon(n, radius=v)),
            radii, ref=polygon_ref, cls=(n,))
    # interior angles of a regular n-gon lie in (0, (n-2) pi / n)
    top = (n - 2) * math.pi / n
    if integer:
        iangles = [1.0] * k if top > 1.0 else None
        if iangles is not None and top > 2.0:
            iangles = [float(v) for v in rng.integers(1, 3, size=k)]
    else:
        iangles = [float(v) * top for v in rng.uniform(0.05, 0.95, size=k)]
    if iangles is not None:
        compare("Polygon.regular_polygon(angle)",
                lambda s: polygon_out(Polygon.regular_polygon(n, angle=s)),
                lambda v: polygon_out(Polygon.regular_polygon(n, angle=v)),
                iangles, cls=(n,))
        compare("hyperbolic.regular_polygon_radius",
                lambda s: hyperbolic.regular_polygon_radius(n, s),
                lambda v: hyperbolic.regular_polygon_radius(n, v),
                iangles, cls=(n,))
    compare("hyperbolic.polygon_interior_angle",
            lambda s: hyperbolic.polygon_interior_angle(n, s),
            lambda v: hyperbolic.polygon_interior_angle(n, v), radii, cls=(n,))
    compare("hyperbolic.hyp_to_affine_dist",
            lambda s: hyperbolic.hyp_to_affine_dist(s),
            lambda v: hyperbolic.hyp_to_affine_dist(v), radii, ref=lambda v: math.tanh(v))
    dd = 2 if idx % 2 else d

    def ideal_ref(a):
        out = np.zeros(dd)
        out[0], out[1] = math.cos(a), math.sin(a)
        return out
    compare("IdealPoint.from_angle",
            lambda s: IdealPoint.from_angle(s, dimension=dd).coords("klein"),
            lambda v: IdealPoint.from_angle(v, dimension=dd).coords("klein"),
            angles, ref=ideal_ref, cls=(dd,))
    compare("hyperbolic.get_boundary_point",
            lambda s: hyperbolic.get_boundary_point(s).coords("klein"),
            lambda v: hyperbolic.get_boundary_point(v).coords("klein"),
            angles, ref=lambda a: np.array([math.cos(a), math.sin(a)]))

    def along_ref(t):
        out = np.zeros(d)
        out[0] = math.tanh(t)
        return out
    compare("TangentVector.point_along",
            lambda s: TangentVector.get_base_tangent(d, np.shape(s)).normalized().point_along(s).coords("klein"),
            lambda v: TangentVector.get_base_tangent(d).normalized().point_along(v).coords("klein"),
            [r - 1.5 for r in radii] if not integer else radii, ref=along_ref, cls=(d,))
    for fname, fref in (("cos", math.cos), ("sin", math.sin)):
        compare("utils." + fname, getattr(utils, fname), getattr(utils, fname), angles, ref=fref)
    if entries is not None:
        return
    # sequences of coordinate vectors / matrices: one unit per entry
    mon = run.monitor("packaging")
    x = rh.rand_ball(rng, d, (k,), rmax=0.9)
    for model in ("klein", "poincare", "halfspace", "projective"):
        y = x.copy()
        if model == "halfspace":
            y[..., -1] = np.abs(y[..., -1]) + 0.1
        elif model == "projective":
            y = rh.klein_to_proj(x) * rng.uniform(0.5, 2.0, size=(k, 1))
        single = np.stack([np.asarray(Point(row.tolist(), model=model).coords("klein"), dtype=float) for row in y])
        for label, pk in matrix_packagings(y).items():
            case = {"entry": "hyperbolic.Point(model=%s)" % model, "packaging": label, "coordinates": y}
            run.current_case = case
            got = np.asarray(Point(pk, model=model).coords("klein"))
            if got.shape != single.shape:
                mon.fail("packaging/sequence-shape/hyperbolic.Point(model=%s)/%s" % (model, label),
                         "Point of %d coordinate vectors as %s: shape %r, expected %r"
                         % (k, label, got.shape, single.shape), case)
            elif mon.judge(float(np.max(np.abs(got - single))), TOL,
                           "packaging/sequence-value/hyperbolic.Point(model=%s)/%s" % (model, label),
                           "entry i of a Point built from a sequence of coordinate vectors is not the "
                           "Point of vector i alone", case):
                run.note_class("sequence", "Point", model, label, k, d)
    Ms = np.stack([rand_sl2(rng) for _ in range(k)])
    single = np.stack([np.asarray(hyperbolic.sl2_iso(M.tolist()).proj_data, dtype=float) for M in Ms])
    for label, pk in (("ndarray", Ms.copy()), ("nested-list", Ms.tolist()),
                      ("list-of-arrays", [M.copy() for M in Ms])):
        case = {"entry": "hyperbolic.sl2_iso", "packaging": label, "matrices": Ms}
        run.current_case = case
        got = np.asarray(hyperbolic.sl2_iso(pk).proj_data)
        if got.shape != single.shape or got.dtype.kind not in "fc":
            mon.fail("packaging/sequence-shape/hyperbolic.sl2_iso/%s" % label,
                     "sl2_iso of %d matrices as %s: shape %r dtype %s, expected %r floating"
                     % (k, label, got.shape, got.dtype, single.shape), case)
        elif mon.judge(float(np.max(np.abs(got - single))), TOL,
                       "packaging/sequence-value/hyperbolic.sl2_iso/%s" % label,
                       "entry i of sl2_iso of a sequence of matrices is not sl2_iso of matrix i alone", case):
            run.note_class("sequence", "sl2_iso", label, k)
    if idx < 2:
        run.sample({"n": n, "k": k, "radii": radii, "angles": angles, "integer": integer})



INT_POINTS = {
    # integer homogeneous / model coordinates of interior points, per model
    "projective": [[2, 1, 0], [3, 1, -1], [5, 2, 3], [-4, 1, 2], [7, -3, 2, 4]],
    "hyperboloid": [[3, 2, 2], [9, 4, 8], [-3, 2, 2], [1, 0, 0]],
    "halfspace": [[1, 2], [-3, 1], [0, 5], [2, 0, 3]],
    "klein": [[0, 0], [0, 0, 0]],
    "poincare": [[0, 0]],
}


def unit_rep(v):
    """projective representative: divided by its entry of largest modulus."""
    v = np.asarray(v, dtype=float)
    a = np.abs(v)
    # first entry within 10% of the largest modulus (robust to exact ties,
    # which integer data produces and rounding then breaks either way)
    i = np.argmax(a >= 0.9 * np.max(a, axis=-1, keepdims=True), axis=-1)
    return v / np.take_along_axis(v, np.asarray(i)[..., None], axis=-1)


def int_data_packagings(v):
    a = np.array(v)
    return {"float-ndarray": a.astype(float), "int-nested-list": [int(x) for x in v],
            "int-ndarray": a.astype(np.int64), "int32-ndarray": a.astype(np.int32),
            "float-nested-list": [float(x) for x in v],
            "tuple-of-ints": tuple(int(x) for x in v)}


def wl_packaging_integer_data(run, rng, idx):
    """integer-valued coordinates and matrices (real numeric input in integer
    packaging): same geometric object as the float packaging, and every
    follow-up query the library offers succeeds on it.  The stored dtype may
    stay integral for coordinate / matrix data (exact values); what is judged
    is values and the success of the library's own routines."""
    from geometry_tools import hyperbolic, projective
    from geometry_tools.hyperbolic import Isometry, Point, Segment
    models = sorted(INT_POINTS)
    model = models[idx % len(models)]
    pts = INT_POINTS[model]
    v = pts[(idx // len(models)) % len(pts)]
    d = len(v) - (1 if model in ("projective", "hyperboloid") else 0)
    other = np.full(d, 0.25)

    def post(p):
        q = Point(other, model="klein")
        return (p.coords("klein"), p.coords("poincare"), p.coords("hyperboloid") ** 2,
                p.coords("halfspace"), p.distance(q), q.distance(p),
                (p.origin_to() @ Point.get_origin(d)).coords("klein"),
                Segment(p, q).ideal_endpoint_coords("klein") ** 2)
    compare_variants(run, "hyperbolic.Point(integer coordinates, model=%s)" % model,
                     {k: (lambda w=w: Point(w, model=model)) for k, w in int_data_packagings(v).items()},
                     post=post, cls=(d,), require_float=False)
    # integer matrices
    n = int(rng.integers(2, 5))
    while True:
        A = rng.integers(-3, 4, size=(n, n))
        if abs(np.linalg.det(A)) > 0.5:
            break
    pk = {"float-ndarray": A.astype(float), "int-ndarray": A.astype(np.int64),
          "int-nested-list": A.tolist(), "float-nested-list": A.astype(float).tolist()}
    compare_variants(run, "projective.Transformation(integer matrix)",
                     {k: (lambda w=w: projective.Transformation(w)) for k, w in pk.items()},
                     post=lambda T: (T.inv(), unit_rep((T @ projective.Point(np.arange(1.0, n + 1))).proj_data),
                                     (T @ T.inv()).proj_data),
                     cls=(n,), require_float=False)
    # signed permutation block for elliptic
    dd = int(rng.integers(2, 5))
    P = np.eye(dd, dtype=int)[rng.permutation(dd)] * rng.choice([-1, 1], size=(dd, 1))
    pk = {"float-ndarray": P.astype(float), "int-ndarray": P, "int-nested-list": P.tolist()}
    compare_variants(run, "Isometry.elliptic(integer block)",
                     {k: (lambda w=w: Isometry.elliptic(dd, w)) for k, w in pk.items()},
                     post=lambda T: (T.inv(), (T @ Point(np.full(dd, 0.1), model="klein")).coords("klein")),
                     cls=(dd,), require_float=False)
    # integer-typed spacelike normals of hyperplanes (stored un-normalised:
    # seeded change C12-r2-2) -- reflection and wall recovered from it
    from geometry_tools.hyperbolic import Hyperplane
    while True:
        nv = rng.integers(-4, 5, size=dd + 1)
        if -nv[0] * nv[0] + int(np.sum(nv[1:] * nv[1:])) >= max(2, 0.2 * int(np.sum(nv * nv))):
            break
    compare_variants(run, "Hyperplane(int-normal).reflection_across",
                     {k: (lambda u=u: Hyperplane(u).reflection_across())
                      for k, u in int_data_packagings(nv.tolist()).items()},
                     post=lambda R: (R @ R, unit_rep(Hyperplane.from_reflection(R).proj_data[..., 0, :])),
                     cls=(dd,), require_float=False)
    pp = projective.Point
    w = [int(x) for x in rng.integers(1, 6, size=n)]
    compare_variants(run, "projective.Point(integer coordinates)",
                     {k: (lambda u=u: pp(u)) for k, u in int_data_packagings(w).items()},
                     post=lambda p: p.affine_coords(), cls=(n,), require_float=False)


COX = [
    [[1, 3, 2], [3, 1, 7], [2, 7, 1]],
    [[1, 3, 3], [3, 1, 4], [3, 4, 1]],
    [[1, 4, 2], [4, 1, 3], [2, 3, 1]],
    [[1, 0, 3], [0, 1, 3], [3, 3, 1]],
    [[1, -1, -1], [-1, 1, -1], [-1, -1, 1]],
    [[1, 5], [5, 1]],
    [[1, 3, 2, 2], [3, 1, 3, 2], [2, 3, 1, 5], [2, 2, 5, 1]],
    [[1, 4, 4], [4, 1, 4], [4, 4, 1]],
]


def wl_packaging_coxeter(run, rng, idx):
    from geometry_tools import coxeter
    M = COX[idx % len(COX)]
    Mi = np.array(M)
    pk = {"int-ndarray": Mi, "nested-int-list": [list(map(int, r)) for r in M],
          "float-ndarray": Mi.astype(float),
          "nested-float-list": [list(map(float, r)) for r in M],
          "int32-ndarray": Mi.astype(np.int32)}
    n = len(M)
    sig_ok = None
    for method in ("bilinear_form", "geometric_representation", "canonical_representation",
                   "hyperbolic_rep"):
        if method == "hyperbolic_rep":
            ev = np.linalg.eigvalsh(-np.cos(np.pi / np.where(Mi <= 0, 0.5, Mi.astype(float))))
            if not (np.sum(ev < -1e-6) == 1 and np.sum(ev > 1e-6) == n - 1):
                continue

        def thunk(v, method=method):
            G = coxeter.CoxeterGroup(matrix=v)
            r = getattr(G, method)()
            if method == "bilinear_form":
                return r
            word = "ab" * 2 + "a"
            return (r[word], r["a"])

        def post(res, method=method):
            if method == "bilinear_form":
                return np.linalg.eigvalsh(np.asarray(res, dtype=float))
            T = res[0]
            m = T.proj_data if hasattr(T, "proj_data") else np.asarray(T)
            return np.linalg.inv(m)
        compare_variants(run, "CoxeterGroup.%s" % method,
                         {k: (lambda v=v: thunk(v)) for k, v in pk.items()},
                         post=post, cls=(n,))
    # a history on ONE group object per packaging: the cosine form first, then a
    # Tits-Vinberg deformation of an infinite label (written as a negative
    # number), then the geometric representation again.  The group's own Coxeter
    # matrix and the caller's array must survive the calls (seeded change
    # C12-r2-3: array_like aliasing the float-packaged Coxeter matrix, which
    # bilinear_form then overwrites in place).
    neg = [(i, j) for i in range(n) for j in range(i + 1, n) if M[i][j] < 0]
    if neg:
        mon = run.monitor("packaging")
        par = {neg[0]: -3.0}

        def history(v):
            keep = np.array(v, dtype=float)
            G = coxeter.CoxeterGroup(matrix=v)
            own = np.array(G.coxeter_matrix, dtype=float)
            B = G.bilinear_form()
            tv = G.tits_vinberg_rep(par)
            geo = G.geometric_representation()
            after_own = np.array(G.coxeter_matrix, dtype=float)
            after_in = np.array(v, dtype=float)
            if not (np.array_equal(own, after_own) and np.array_equal(keep, after_in)):
                mon.fail("packaging/coxeter-matrix-mutated",
                         "the group's Coxeter matrix (or the caller's array) changed during "
                         "bilinear_form / tits_vinberg_rep / geometric_representation: %r -> %r"
                         % (own.tolist(), after_own.tolist()),
                         {"matrix": M, "packaging": type(v).__name__})
            return (np.asarray(B, dtype=float), np.asarray(tv["ab"], dtype=float),
                    np.asarray(tv["a"], dtype=float), np.asarray(geo["ab"], dtype=float))
        compare_variants(run, "CoxeterGroup.tits_vinberg_rep(history)",
                         {k: (lambda v=v: history(v)) for k, v in pk.items()}, cls=(n,))
        # and against the definition: s_i = I - e_i e_i^T C with C[i,j] = par
        C = -2 * np.cos(np.pi / np.where(Mi <= 0, 0.5, Mi.astype(float)))
        C[neg[0]] = par[neg[0]]
        C[neg[0][::-1]] = par[neg[0]]
        G = coxeter.CoxeterGroup(matrix=[list(map(float, r)) for r in M])
        G.bilinear_form()
        tv = G.tits_vinberg_rep(par)
        for i, g in enumerate("abcdefgh"[:n]):
            E = np.zeros((n, n))
            E[i, i] = 1.0
            mon.judge(float(np.max(np.abs(np.asarray(tv[g], dtype=float) - (np.eye(n) - E @ C)))),
                      TOL, "packaging/absolute-value/CoxeterGroup.tits_vinberg_rep/float-list",
                      "tits_vinberg_rep generator is not I - e_i e_i^T C for the Cartan matrix "
                      "with the requested parameter", {"matrix": M, "generator": g})
    # diagram route with python ints / numpy ints / floats as labels
    if n == 3:
        labs = (M[0][1], M[1][2], M[2][0])
        variants = {"python-int": tuple(int(v) for v in labs),
                    "numpy-int": tuple(np.int64(v) for v in labs),
                    "python-float": tuple(float(v) for v in labs)}
        compare_variants(run, "TriangleGroup.geometric_representation",
                         {k: (lambda v=v: coxeter.TriangleGroup(v).geometric_representation()["abc"])
                          for k, v in variants.items()},
                         post=lambda m: np.linalg.inv(np.asarray(m)))


# ---------------------------------------------------------------------------
# packaging of the free parameters of a Cartan matrix / of diagram labels

CARTAN_PAIR_MODES = ("upper-only", "lower-only", "both-equal", "both-different", "unspecified")


def cartan_reference(M, spec):
    """the documented rule of CoxeterGroup.cartan_matrix, from the Coxeter
    matrix M and spec[(i, j)] = value for every *ordered* pair whose entry is
    set: C = -2 cos(pi / m) (2 on the diagonal, -2 for an infinite label); a
    free entry (i, j) takes its own value if set (non-zero), else the value of
    (j, i) if that one is set ('assumes that the intended Cartan matrix is
    symmetric'), else stays -2.  i, j are arbitrary generator indices."""
    M = np.asarray(M, dtype=float)
    C = -2 * np.cos(np.pi / np.where(M <= 0, 0.5, M))
    n = M.shape[0]
    for i in range(n):
        for j in range(n):
            if i != j and M[i, j] < 0:
                v = spec.get((i, j), 0.0)
                if v == 0:
                    v = spec.get((j, i), 0.0)
                if v != 0:
                    C[i, j] = v
    return C


def cartan_parameter_packagings(n, spec, integer):
    """the same set of specified entries in every documented packaging of
    `parameters` ('dict or ndarray': a dict {(i, j): v}, or an n*n matrix that
    is zero except for the free parameters; 'not set (or set to zero)')."""
    conv = int if integer else float
    full = np.zeros((n, n))
    for (i, j), v in spec.items():
        full[i, j] = v
    out = {"dict-python": {k: conv(v) for k, v in spec.items()},
           "dict-numpy-scalar": {k: (np.int64(v) if integer else np.float64(v)) for k, v in spec.items()},
           "dict-0d-array": {k: np.array(conv(v)) for k, v in spec.items()},
           "dict-numpy-int-keys": {(np.int64(i), np.int64(j)): conv(v) for (i, j), v in spec.items()},
           "dict-with-explicit-zeros": dict([((j, i), 0) for (i, j) in spec if (j, i) not in spec]
                                            + [(k, conv(v)) for k, v in spec.items()]),
           "ndarray-float": full.copy()}
    if integer:
        out["ndarray-int"] = full.astype(np.int64)
        out["dict-python-float"] = {k: float(v) for k, v in spec.items()}
    return out


def wl_packaging_cartan(run, rng, idx):
    """free Cartan parameters of a Coxeter group with infinite labels, each free
    pair {i < j} set at (i, j) only, at (j, i) only, at both (equal / different)
    or not at all, in every documented packaging of `parameters`; the Cartan
    matrix and the Tits-Vinberg generators against the documented rule.

    Seeded change C12-r7-3: cartan_matrix visited only the upper triangle of the
    free entries, so a parameter given only under a key (j, i), j > i, or only
    in the lower triangle of a parameter matrix, was silently ignored."""
    from geometry_tools import coxeter
    mon = run.monitor("packaging")
    n = 3 + idx % 3
    integer = idx % 3 == 2
    while True:
        M = np.ones((n, n), dtype=int)
        iu = np.triu_indices(n, 1)
        labs = rng.choice([2, 3, 4, 5, 7, -1, -1, -1], size=len(iu[0]))
        M[iu] = labs
        M = np.triu(M, 1) + np.triu(M, 1).T + np.eye(n, dtype=int)
        if np.any(labs < 0):
            break
    free = [(int(i), int(j)) for i, j in zip(*iu) if M[i, j] < 0]
    spec, modes = {}, {}
    for p, (i, j) in enumerate(free):
        mode = CARTAN_PAIR_MODES[(idx + p) % len(CARTAN_PAIR_MODES)]
        modes[(i, j)] = mode
        v = -float(rng.integers(3, 8)) if integer else float(rng.uniform(-6.0, -2.1))
        w = -float(rng.integers(8, 12)) if integer else float(rng.uniform(-9.0, -6.5))
        if mode in ("upper-only", "both-equal", "both-different"):
            spec[(i, j)] = v
        if mode in ("lower-only", "both-equal"):
            spec[(j, i)] = v
        if mode == "both-different":
            spec[(j, i)] = w
    Cref = cartan_reference(M, spec)
    names = "abcdefgh"[:n]
    for form in ("matrix", "diagram"):
        if form == "matrix":
            G = coxeter.CoxeterGroup(matrix=M.copy())
        else:
            # the same group from its (complete) diagram, generators in the same order
            G = coxeter.CoxeterGroup(diagram=[(names[i], names[j], int(M[i, j]))
                                              for i in range(n) for j in range(i + 1, n)])
        for label, params in cartan_parameter_packagings(n, spec, integer).items():
            case = {"coxeter_matrix": M, "group_from": form, "packaging": label,
                    "specified": [[i, j, v] for (i, j), v in sorted(spec.items())],
                    "pair_modes": [[i, j, m] for (i, j), m in sorted(modes.items())]}
            run.current_case = case
            C = np.asarray(G.cartan_matrix(params))
            if C.dtype == np.dtype("O") or C.dtype.kind not in "fc" or C.shape != (n, n):
                mon.fail("packaging/object-dtype/CoxeterGroup.cartan_matrix/%s" % label,
                         "cartan_matrix with parameters as %s returned %s data of shape %r"
                         % (label, C.dtype, C.shape), case)
                continue
            dev = np.abs(C.astype(float) - Cref)
            tag = "none"
            if np.max(dev) > TOL:
                i, j = np.unravel_index(int(np.argmax(dev)), dev.shape)
                tag = modes.get((min(i, j), max(i, j)), "fixed-entry")
            if not mon.judge(float(np.max(dev)), TOL,
                             "packaging/absolute-value/CoxeterGroup.cartan_matrix/%s/pair:%s" % (label, tag),
                             "cartan_matrix with the free parameters as %s is not the documented matrix "
                             "(worst entry belongs to a pair given %s)" % (label, tag), case):
                continue
            rep = G.tits_vinberg_rep(params)
            err = 0.0
            for i, g in enumerate(G.ordered_gens if form == "diagram" else names):
                E = np.zeros((n, n))
                E[i, i] = 1.0
                err = max(err, float(np.max(np.abs(np.asarray(rep[g], dtype=float) - (np.eye(n) - E @ Cref)))))
            if mon.judge(err, TOL, "packaging/absolute-value/CoxeterGroup.tits_vinberg_rep/%s" % label,
                         "tits_vinberg_rep with the free parameters as %s: a generator is not "
                         "I - e_i e_i^T C for the documented Cartan matrix" % label, case):
                run.note_class("cartan", form, label, n, tuple(sorted(set(modes.values()))))
    # diagram labels in every packaging, edges in either orientation: the same form
    gi_ref = -np.cos(np.pi / np.where(M <= 0, 0.5, M.astype(float)))
    flips = rng.random(size=n * n) < 0.5
    for label, conv in (("python-int", int), ("numpy-int64", np.int64), ("numpy-int32", np.int32),
                        ("python-float", float), ("int-0d-array", lambda v: np.array(int(v)))):
        edges = []
        for i in range(n):
            for j in range(i + 1, n):
                a, b = (names[j], names[i]) if flips[i * n + j] else (names[i], names[j])
                edges.append((a, b, conv(M[i, j])))
        case = {"coxeter_matrix": M, "packaging": label, "edges": [[a, b, float(m)] for a, b, m in edges]}
        run.current_case = case
        try:
            G = coxeter.CoxeterGroup(diagram=edges)
            B = np.asarray(G.bilinear_form())
            order = [names.index(g) for g in G.ordered_gens]
        except Exception as e:
            import traceback
            mon.fail("packaging/exception:%s/CoxeterGroup(diagram)/%s" % (type(e).__name__, label),
                     "CoxeterGroup(diagram=...) with labels as %s raised %s: %s"
                     % (label, type(e).__name__, str(e)[:160]), case, tb=traceback.format_exc())
            continue
        if B.dtype == np.dtype("O") or B.dtype.kind not in "fc":
            mon.fail("packaging/object-dtype/CoxeterGroup(diagram).bilinear_form/%s" % label,
                     "bilinear_form of a diagram with labels as %s has dtype %s" % (label, B.dtype), case)
            continue
        if mon.judge(float(np.max(np.abs(B.astype(float) - gi_ref[np.ix_(order, order)]))), TOL,
                     "packaging/absolute-value/CoxeterGroup(diagram).bilinear_form/%s" % label,
                     "bilinear form of a diagram with labels as %s is not -cos(pi / m)" % label, case):
            run.note_class("diagram", label, n)
    if idx < 2:
        run.sample({"coxeter_matrix": M, "specified": [[i, j, v] for (i, j), v in sorted(spec.items())]})


# ---------------------------------------------------------------------------
# rescaling (homogeneous coordinates x per-unit non-zero scalars)

def rand_factors(rng, shape, pattern):
    mag = np.exp(rng.uniform(np.log(0.1), np.log(10), size=shape))
    if pattern == "positive":
        sgn = np.ones(shape)
    elif pattern == "negative":
        sgn = -np.ones(shape)
    else:
        sgn = rng.choice([-1.0, 1.0], size=shape)
        if sgn.size > 1 and np.all(sgn == sgn.flat[0]):
            sgn.flat[0] *= -1
    return mag * sgn


def klein_of(obj):
    return np.asarray(obj.coords("klein"))


def proj_equal_matrix(A, B):
    """max relative deviation of A from a scalar multiple of B (per unit)."""
    A = np.asarray(A, dtype=float)
    B = np.asarray(B, dtype=float)
    a = A.reshape(A.shape[:-2] + (-1,))
    b = B.reshape(B.shape[:-2] + (-1,))
    lam = np.sum(a * b, axis=-1, keepdims=True) / np.sum(b * b, axis=-1, keepdims=True)
    return float(np.max(np.linalg.norm(a - lam * b, axis=-1) /
                        np.linalg.norm(a, axis=-1)))


SHAPES = [(), (3,), (2, 2), (1, 3)]
PATTERNS = ["positive", "negative", "mixed"]


def wl_rescaling(run, rng, idx):
    from geometry_tools import hyperbolic
    from geometry_tools.hyperbolic import Point, Segment, Polygon, Isometry
    mon = run.monitor("rescaling")
    d = int(rng.integers(1, 5)) if idx % 4 else 2
    shape = SHAPES[idx % len(SHAPES)]
    pattern = PATTERNS[(idx // len(SHAPES)) % len(PATTERNS)]
    kp = rh.rand_ball(rng, d, shape, rmax=0.95)
    kq = rh.rand_ball(rng, d, shape, rmax=0.95)
    P0 = rh.klein_to_proj(kp)
    Q0 = rh.klein_to_proj(kq)
    lp = rand_factors(rng, shape + (1,), pattern)
    lq = rand_factors(rng, shape + (1,), pattern if pattern != "mixed" else "mixed")
    P1 = P0 * lp
    Q1 = Q0 * lq
    case = {"dimension": d, "shape": list(shape), "pattern": pattern,
            "P": P0, "Q": Q0, "lambda_P": lp, "lambda_Q": lq}
    run.current_case = case
    sig = (d, shape, pattern)
    p0, q0 = Point(P0.copy()), Point(Q0.copy())
    p1, q1 = Point(P1.copy()), Point(Q1.copy())

    def judge(op, err, tol=1e-8):
        run.note_class("rescale:" + op, *sig)
        return mon.judge(err, tol, "rescaling/%s/%s" % (op, pattern),
                         "%s changes under per-unit rescaling (%s factors)" % (op, pattern),
                         case)

    # model coordinates
    for model in ("klein", "poincare", "halfspace", "hyperboloid"):
        a = np.asarray(p0.coords(model))
        b = np.asarray(p1.coords(model))
        if model == "hyperboloid":
            err = float(np.max(np.abs(np.abs(a) - np.abs(b)) / (1 + np.abs(a))))
        elif model == "halfspace":
            with np.errstate(all="ignore"):
                err = float(np.max(np.abs(a - b) / (1 + np.abs(a))))
        else:
            err = float(np.max(np.abs(a - b)))
        judge("coords:" + model, err)
    # distances
    dref = rh.dist_klein(kp, kq)
    d0 = np.asarray(p0.distance(q0))
    d1 = np.asarray(p1.distance(q1))
    judge("distance", float(np.max(np.abs(d1 - d0))), 1e-7)
    judge("distance-vs-reference", float(np.max(np.abs(d1 - dref))), 1e-6)
    # origin_to / isometry as projective maps
    try:
        T0 = p0.origin_to()
        T1 = p1.origin_to()
        o = Point.get_origin(d, shape)
        judge("origin_to-image", float(np.max(np.abs(klein_of(T1 @ o) - kp))))
    except Exception:
        raise
    if d >= 1:
        sep = np.linalg.norm(kp - kq, axis=-1)
        # (tangent directions are a dimension>=2 notion in the library: in H^1
        # the frame (point, vector) is already complete and force_oriented
        # negates the vector; C13 quantifies over dimensions 2..5)
        if np.all(sep > 1e-3) and d >= 2:
            # tangent direction and the point reached along it
            tv0 = p0.unit_tangent_towards(q0)
            tv1 = p1.unit_tangent_towards(q1)
            arr0 = klein_of(tv0.point_along(dref))
            arr1 = klein_of(tv1.point_along(dref))
            judge("unit_tangent_towards->point_along(arrival)",
                  float(np.max(np.abs(arr1 - kq))), 1e-6)
            judge("unit_tangent_towards->point_along(vs unscaled)",
                  float(np.max(np.abs(arr1 - arr0))), 1e-6)
            # the angle at p between the directions towards q and towards a
            # third point r, read off the tangent vectors themselves (seeded
            # change C12-r3-3: projection to the tangent space assuming a unit
            # basepoint representative; point_along / isometry_to re-orthogonalise
            # and hide it, the stored vector and angle() do not)
            kr = rh.rand_ball(rng, d, shape, rmax=0.95)
            R0 = rh.klein_to_proj(kr)
            lr = rand_factors(rng, shape + (1,), pattern)
            if np.all(np.linalg.norm(kp - kr, axis=-1) > 1e-3):
                r0, r1 = Point(R0.copy()), Point((R0 * lr).copy())
                # fresh basepoint objects: earlier queries may have normalised p0, p1 in place
                pa, pb = Point(P0.copy()), Point(P1.copy())
                a0 = np.asarray(pa.unit_tangent_towards(q0).angle(pa.unit_tangent_towards(r0)))
                a1 = np.asarray(pb.unit_tangent_towards(q1).angle(pb.unit_tangent_towards(r1)))
                aref = rh.angle_at(P0, Q0, R0)
                # arccos is ill-conditioned at 0 and pi: compare cosines there
                judge("tangent-angle:vs-unscaled", float(np.max(np.abs(np.cos(a1) - np.cos(a0)))), 1e-7)
                judge("tangent-angle:vs-reference", float(np.max(np.abs(np.cos(a1) - np.cos(aref)))), 1e-6)
                # the stored tangent vector is tangent at the basepoint whatever
                # representative was given: <vector, point> = 0 relative to sizes
                tvb = pb.unit_tangent_towards(q1)
                vec = np.asarray(tvb.vector, dtype=float)
                pt = np.asarray(tvb.point, dtype=float)
                with np.errstate(all="ignore"):
                    defect = np.abs(rh.mink(vec, pt)) / (np.linalg.norm(vec, axis=-1) * np.linalg.norm(pt, axis=-1))
                judge("tangent-vector-orthogonal-to-basepoint", float(np.max(defect)), 1e-7)
            # segments with their ideal endpoints
            s0 = Segment(p0, q0)
            s1 = Segment(p1, q1)
            e0 = np.asarray(s0.ideal_endpoint_coords("klein"))
            e1 = np.asarray(s1.ideal_endpoint_coords("klein"))
            direct = np.max(np.abs(e0 - e1), axis=(-1, -2))
            swapped = np.max(np.abs(e0 - e1[..., ::-1, :]), axis=(-1, -2))
            judge("segment-ideal-endpoints(unordered)",
                  float(np.max(np.minimum(direct, swapped))), 1e-6)
            judge("segment-endpoints",
                  float(np.max(np.abs(np.asarray(s0.endpoint_coords("klein")) -
                                      np.asarray(s1.endpoint_coords("klein"))))))
            # circle parameters are ill-conditioned for nearly coincident
            # endpoints (error ~ eps/sep^2): judged for separated endpoints
            if d == 2 and np.all(sep > 0.05):
                for model in ("poincare", "halfspace"):
                    if model == "halfspace" and not rh.away_from_infinity(
                            np.concatenate([kp[..., None, :], kq[..., None, :], e0], axis=-2), 0.2):
                        continue
                    c0, r0, th0 = s0.circle_parameters(model=model, degrees=False)
                    c1, r1, th1 = s1.circle_parameters(model=model, degrees=False)
                    r0 = np.asarray(r0, dtype=float)
                    if np.all(np.isfinite(r0)) and np.all(r0 < 50):
                        judge("segment-circle-centre:" + model,
                              float(np.max(np.abs(np.asarray(c0) - np.asarray(c1)) /
                                           (1 + np.abs(np.asarray(c0))))), 1e-5)
                        judge("segment-circle-radius:" + model,
                              float(np.max(np.abs(r0 - np.asarray(r1)) / r0)), 1e-5)
                        dth = np.angle(np.exp(1j * (np.asarray(th0) - np.asarray(th1))))
                        judge("segment-circle-angles:" + model,
                              float(np.max(np.abs(dth) * np.minimum(r0, 1e3)[..., None])), 1e-5)
            # isometry_to between tangent vectors, as a projective map
            I0 = tv0.isometry_to(tv0.__class__(q0, rh.some_tangent(Q0)))
            I1 = tv1.isometry_to(tv1.__class__(q1, rh.some_tangent(Q1) * lq))
            img0 = klein_of(I0 @ p0)
            img1 = klein_of(I1 @ p1)
            judge("isometry_to-image", float(np.max(np.abs(img0 - img1))), 1e-6)
    # images under a transformation
    A = rh.rand_isometry(rng, d)
    T = Isometry(A, column_vectors=True)
    judge("transformation-image",
          float(np.max(np.abs(klein_of(T @ p0) - klein_of(T @ p1)))))
    # polygons (vertices rescaled independently)
    if d == 2:
        nv = int(rng.integers(3, 7))
        kv = rh.rand_ball(rng, 2, shape + (nv,), rmax=0.9)
        V0 = rh.klein_to_proj(kv)
        lv = rand_factors(rng, shape + (nv, 1), pattern)
        poly0 = Polygon(V0.copy())
        poly1 = Polygon((V0 * lv).copy())
        judge("polygon-vertices",
              float(np.max(np.abs(np.asarray(poly0.coords("klein")) -
                                  np.asarray(poly1.coords("klein"))))))
        eA = np.asarray(poly0.get_edges().endpoint_coords("klein"))
        eB = np.asarray(poly1.get_edges().endpoint_coords("klein"))
        judge("polygon-edges", float(np.max(np.abs(eA - eB))))
        judge("polygon-image",
              float(np.max(np.abs(np.asarray((T @ poly0).coords("klein")) -
                                  np.asarray((T @ poly1).coords("klein"))))))
    if idx < 2:
        run.sample({"dimension": d, "shape": list(shape), "pattern": pattern,
                    "P": P0, "lambda_P": lp})


EXACT_NULL = {
    2: [[1, 1, 0], [1, 0, -1], [5, 3, 4], [5, -4, 3], [13, 5, -12], [25, 7, 24], [1, -1, 0],
        [17, -8, -15]],
    3: [[3, 1, 2, 2], [1, 0, 0, 1], [7, 2, 3, 6], [9, -4, 4, 7], [3, -2, 1, -2], [1, -1, 0, 0]],
    4: [[2, 1, 1, 1, 1], [1, 0, 1, 0, 0], [5, 1, 2, 2, 4], [7, -1, 4, 4, -4]],
}


def wl_rescaling_ideal(run, rng, idx):
    """rays and bi-infinite geodesics: segments with one or two *exactly*
    lightlike endpoints (integer null vectors) and with ideal points that are
    null only up to round-off (from angles), under per-unit rescaling."""
    from geometry_tools.hyperbolic import Point, Segment, IdealPoint, Isometry
    mon = run.monitor("rescaling")
    d = 2 + idx % 3
    pattern = PATTERNS[(idx // 3) % len(PATTERNS)]
    nulls = EXACT_NULL[d]
    exact = (idx // 9) % 2 == 0
    k = int(rng.integers(1, 4))
    if exact:
        Q0 = np.array([nulls[i] for i in rng.integers(0, len(nulls), size=k)], dtype=float)
        Q2 = np.array([nulls[i] for i in rng.integers(0, len(nulls), size=k)], dtype=float)
    else:
        u = rh.rand_sphere(rng, d, (k,))
        Q0 = rh.klein_to_proj(u)
        u2 = rh.rand_sphere(rng, d, (k,))
        Q2 = rh.klein_to_proj(u2)
    kq, kq2 = rh.proj_to_klein(Q0), rh.proj_to_klein(Q2)
    kp = rh.rand_ball(rng, d, (k,), rmax=0.9)
    P0 = rh.klein_to_proj(kp)
    lp = rand_factors(rng, (k, 1), pattern)
    lq = rand_factors(rng, (k, 1), pattern)
    lq2 = rand_factors(rng, (k, 1), pattern)
    case = {"dimension": d, "pattern": pattern, "exact_null": exact, "P": P0, "Q_ideal": Q0,
            "Q2_ideal": Q2, "lambda_P": lp, "lambda_Q": lq, "lambda_Q2": lq2}
    run.current_case = case
    sig = (d, k, pattern, "exact" if exact else "roundoff")

    def judge(op, err, tol=1e-7):
        run.note_class("rescale-ideal:" + op, *sig)
        return mon.judge(err, tol, "rescaling/ideal/%s/%s" % (op, pattern),
                         "%s changes under per-unit rescaling (%s factors, ideal endpoints)"
                         % (op, pattern), case)

    def unordered(e0, e1):
        direct = np.max(np.abs(e0 - e1), axis=(-1, -2))
        swapped = np.max(np.abs(e0 - e1[..., ::-1, :]), axis=(-1, -2))
        return float(np.max(np.minimum(direct, swapped)))

    for (A0, B0, la, lb, name, ka, kb) in (
            (P0, Q0, lp, lq, "ray", kp, kq), (Q0, P0, lq, lp, "ray-ideal-first", kq, kp),
            (Q0, Q2, lq, lq2, "geodesic", kq, kq2)):
        if np.min(np.linalg.norm(ka - kb, axis=-1)) < 0.2:
            mon.skip("endpoints nearly coincide")
            continue
        s0 = Segment(Point(A0.copy()), Point(B0.copy()))
        s1 = Segment(Point((A0 * la).copy()), Point((B0 * lb).copy()))
        e0 = np.asarray(s0.ideal_endpoint_coords("klein"), dtype=float)
        e1 = np.asarray(s1.ideal_endpoint_coords("klein"), dtype=float)
        # reference: the two boundary points of the Klein chord through ka, kb
        dirv = kb - ka
        a_ = np.sum(dirv * dirv, axis=-1)
        b_ = 2 * np.sum(ka * dirv, axis=-1)
        c_ = np.sum(ka * ka, axis=-1) - 1
        disc = np.sqrt(np.clip(b_ * b_ - 4 * a_ * c_, 0, None))
        t1, t2 = (-b_ + disc) / (2 * a_), (-b_ - disc) / (2 * a_)
        ref = np.stack([ka + t1[:, None] * dirv, ka + t2[:, None] * dirv], axis=-2)
        judge(name + "-ideal-endpoints-vs-reference", unordered(ref, e1), 1e-6)
        judge(name + "-ideal-endpoints(unordered)", unordered(e0, e1), 1e-6)
        judge(name + "-endpoints",
              float(np.max(np.abs(np.asarray(s0.endpoint_coords("klein")) -
                                  np.asarray(s1.endpoint_coords("klein"))))))
        if d == 2:
            c0, r0, th0 = s0.circle_parameters(model="poincare", degrees=False)
            c1, r1, th1 = s1.circle_parameters(model="poincare", degrees=False)
            r0 = np.asarray(r0, dtype=float)
            r1 = np.asarray(r1, dtype=float)
            # reference circle: orthogonal to the unit circle through the two
            # boundary points ref[...,0,:], ref[...,1,:]
            m = 0.5 * (ref[..., 0, :] + ref[..., 1, :])
            m2 = np.sum(m * m, axis=-1)
            ok = (m2 > 1e-3) & np.isfinite(r1) & (r1 < 50)
            if np.any(ok):
                cref = m / m2[:, None]
                rref = np.sqrt(np.clip(1 / m2 - 1, 0, None))
                judge(name + "-circle-centre-vs-reference",
                      float(np.max(np.abs(np.asarray(c1)[ok] - cref[ok]) / (1 + np.abs(cref[ok])))), 1e-5)
                judge(name + "-circle-radius-vs-reference",
                      float(np.max(np.abs(r1[ok] - rref[ok]) / rref[ok])), 1e-5)
                dth = np.angle(np.exp(1j * (np.asarray(th0)[ok] - np.asarray(th1)[ok])))
                judge(name + "-circle-angles", float(np.max(np.abs(dth) * np.minimum(r0[ok], 1e3)[..., None])), 1e-5)
    # horospheres: ideal centre and interior reference point rescaled
    # independently (seeded change C12-r2-1: a closed formula that assumes a
    # positive time coordinate of the reference point)
    from geometry_tools.hyperbolic import Horosphere
    h0 = Horosphere(Point(Q0.copy()), Point(P0.copy()))
    h1 = Horosphere(Point((Q0 * lq).copy()), Point((P0 * lp).copy()))
    for model in ("poincare", "halfspace"):
        if model == "halfspace" and not rh.away_from_infinity(kq, 0.3):
            continue
        c0, r0 = h0.sphere_parameters(model=model)
        c1, r1 = h1.sphere_parameters(model=model)
        c0, r0, c1, r1 = (np.asarray(x, dtype=float) for x in (c0, r0, c1, r1))
        if not (np.all(np.isfinite(r0)) and np.all(r0 < 50)):
            continue
        judge("horosphere-centre:" + model, float(np.max(np.abs(c0 - c1) / (1 + np.abs(c0)))), 1e-6)
        judge("horosphere-radius:" + model, float(np.max(np.abs(r0 - r1) / np.abs(r0))), 1e-6)
        if model == "poincare":
            # reference: tangent to the unit sphere at the centre, through the
            # reference point x:  r = |x - u|^2 / (2 (1 - x.u))
            xp = rh.klein_to_poincare(kp)
            rref = np.sum((xp - kq) ** 2, axis=-1) / (2 * (1 - np.sum(xp * kq, axis=-1)))
            judge("horosphere-radius-vs-reference:" + model,
                  float(np.max(np.abs(r1 - rref) / rref)), 1e-6)
    # coordinates of ideal points themselves
    q0, q1 = Point(Q0.copy()), Point((Q0 * lq).copy())
    for model in ("klein", "poincare"):
        judge("ideal-coords:" + model,
              float(np.max(np.abs(np.asarray(q0.coords(model)) - np.asarray(q1.coords(model))))))
    A = rh.rand_isometry(rng, d)
    T = Isometry(A, column_vectors=True)
    judge("ideal-image", float(np.max(np.abs(klein_of(T @ q0) - klein_of(T @ q1)))))
    if idx < 1:
        run.sample({"dimension": d, "pattern": pattern, "Q_ideal": Q0, "lambda_Q": lq})


# ---------------------------------------------------------------------------
# rescaling of the points that *objects* are built from (horospheres and their
# arcs, boundary arcs, geodesics, subspaces, hyperplanes / dual points, tangent
# vectors, projective pairs / polygons / subspaces / chart normals)

def object_factors(rng, shape, m, j):
    """factors of shape `shape + (m, 1)` for an object built from m points per
    unit: magnitudes log-uniform in [0.1, 10]; the signs of the m points of the
    first unit run through all 2^m sign vectors with the case counter j
    (j = 0: all positive, 2^m - 1: all negative, the rest: opposite signs
    inside one object), the other units of a composite get random signs.
    Returns (factors, pattern label)."""
    shape = tuple(shape)
    mag = np.exp(rng.uniform(np.log(0.1), np.log(10), size=shape + (m, 1)))
    sgn = rng.choice([-1.0, 1.0], size=shape + (m, 1))
    first = sgn.reshape(-1, m, 1)[0]
    first[:, 0] = [(-1.0 if (j >> i) & 1 else 1.0) for i in range(m)]
    if np.all(sgn > 0):
        pattern = "positive"
    elif np.all(sgn < 0):
        pattern = "negative"
    else:
        pattern = "mixed"
    return mag * sgn, pattern


def unordered_gap(e0, e1):
    """max deviation between two (..., 2, n) arrays of point pairs, the order
    inside each pair being free."""
    e0 = np.asarray(e0, dtype=float)
    e1 = np.asarray(e1, dtype=float)
    direct = np.max(np.abs(e0 - e1), axis=(-1, -2))
    swapped = np.max(np.abs(e0 - e1[..., ::-1, :]), axis=(-1, -2))
    return float(np.max(np.minimum(direct, swapped)))


def rel_gap(a, b):
    a = np.asarray(a, dtype=float)
    b = np.asarray(b, dtype=float)
    with np.errstate(all="ignore"):
        return float(np.max(np.abs(a - b) / (1 + np.abs(a))))


def row_images(T, V):
    """Klein coordinates of the images of the homogeneous row vectors V
    (..., m, n+1) under the isometry object T (proj_data acts on row vectors)."""
    return rh.proj_to_klein(np.asarray(V, dtype=float) @ np.asarray(T.proj_data, dtype=float))


def spacelike_normal(rng, d, shape, n0min=0.05):
    """normal (k.u, u) of the hyperplane through the interior Klein point k
    with Euclidean unit normal direction u; |n0| >= n0min keeps its Poincare
    sphere finite (the hyperplane does not pass through the origin)."""
    while True:
        kx = rh.rand_ball(rng, d, shape, rmax=0.8)
        u = rh.rand_sphere(rng, d, shape)
        n0 = np.sum(kx * u, axis=-1, keepdims=True)
        if np.all(np.abs(n0) >= n0min):
            return np.concatenate([n0, u], axis=-1)


def well_spread(kE, smin=0.15):
    """ideal points (..., k, n) whose homogeneous vectors are well conditioned
    as a spanning set and whose span stays away from the origin."""
    E = rh.klein_to_proj(kE)
    s = np.linalg.svd(E, compute_uv=False)
    if np.min(s[..., -1] / s[..., 0]) < smin:
        return False
    return bool(np.min(rr.span_m2(kE)) > 0.02)


# Input classes on which the pinned tree violated the property when
# `rescaling-objects` was written (witnesses and repairs in
# /verif/findings/C12-*; repaired in /repo as F47 / F48).  They keep their own
# workload `rescaling-open-findings` (the name the witness replays refer to).
#  * C12-subspace-dual-raw-barycentre (F48, repo 3b500bd): Subspace._data_with_dual
#    started its Gram-Schmidt chain at the barycentre of the *raw*
#    representatives of the ideal basis; for k >= 3 points with factors of both
#    signs that vector can be lightlike or Minkowski-orthogonal to a basis
#    vector, and spacelike_complement / reflection_across lost all accuracy
#    (LinAlgError at worst).
#  * C12-boundary-arc-antipodal (F47, repo 5691274): for antipodal endpoints (the
#    chord passes through the origin) BoundaryArc._build_orientation_point
#    replaced the orientation point but still took the sign from the old,
#    vanishing determinant: which half circle came out depended on rounding,
#    i.e. on the representatives (positive factors included).

OBJECT_FAMILIES = ["horosphere-intersect", "horosphere-arc", "boundary-arc", "geodesic",
                   "subspace", "hyperplane", "projective", "tangent"]


def wl_rescaling_objects(run, rng, idx):
    """every public entry point that takes points / ideal points / normals (or
    objects built from them) and is not driven by `rescaling` / `rescaling-ideal`,
    under independent per-point factors of both signs; judged on geometric
    outputs against a numpy reference computed from Klein coordinates (which
    never sees the representatives) and against the unscaled call.

    Seeded changes of this class: C12-r4-1 (Horosphere.intersect_geodesic took
    the barycentre of the two raw representatives as a point of the geodesic:
    wrong for factors of opposite sign), C12-r4-2 (BoundaryArc decided the sign
    of its orientation point from Kleinian representatives but read the
    orientation off the raw data: complementary arc when exactly one endpoint
    has a negative factor), C12-r4-3 (find_definite_isometry /
    hyperplane_coordinate_transform completed the frame independently of the
    sign of the given normal: a different projective map for n and -n)."""
    _run_object_family(run, rng, OBJECT_FAMILIES[idx % len(OBJECT_FAMILIES)],
                       idx // len(OBJECT_FAMILIES), sample=idx < len(OBJECT_FAMILIES))


class _FirstFailure(Exception):
    pass


def _run_object_family(run, rng, fam, j, sample=False, first_failure_only=False):
    mon = run.monitor("rescaling")
    state = {"pattern": "positive", "case": {}, "sig": ()}

    def judge(op, err, tol=1e-7):
        run.note_class("rescale-object:" + op, *state["sig"])
        ok = mon.judge(err, tol, "rescaling/object/%s/%s" % (op.replace(" ", "-"), state["pattern"]),
                       "%s changes under per-point rescaling of its input (%s factors)"
                       % (op, state["pattern"]), state["case"])
        if not ok and first_failure_only:
            raise _FirstFailure()
        return ok

    def begin(case, pattern, *sig):
        case = dict(case)
        case["family"] = fam
        case["pattern"] = pattern
        state["case"] = case
        state["pattern"] = pattern
        state["sig"] = (fam,) + sig + (pattern,)
        run.current_case = case

    try:
        globals()["_object_" + fam.replace("-", "_")](run, rng, j, mon, judge, begin)
    except _FirstFailure:
        pass
    if sample:
        run.sample(state["case"])


def wl_rescaling_open_findings(run, rng, idx):
    """the input classes of the two repaired findings described above
    OBJECT_FAMILIES: factors solved for so that the raw barycentre of an ideal
    basis is lightlike / orthogonal to the second basis vector; half-circle
    boundary arcs (alone and mixed with ordinary arcs in one composite)."""
    fams = ["subspace-raw-barycentre-orthogonal", "subspace-raw-barycentre-lightlike",
            "boundary-arc-antipodal"]
    # (one key per case: the first output that is wrong)
    _run_object_family(run, rng, fams[idx % 3], idx // 3, sample=idx < 3, first_failure_only=True)


def _object_subspace_raw_barycentre_orthogonal(run, rng, j, mon, judge, begin):
    _object_subspace(run, rng, j, mon, judge, begin, adversarial="orthogonal")


def _object_subspace_raw_barycentre_lightlike(run, rng, j, mon, judge, begin):
    _object_subspace(run, rng, j, mon, judge, begin, adversarial="lightlike")


def _object_boundary_arc_antipodal(run, rng, j, mon, judge, begin):
    _object_boundary_arc(run, rng, j, mon, judge, begin, antipodal=True)


def _object_horosphere_intersect(run, rng, j, mon, judge, begin):
    from geometry_tools.hyperbolic import Point, Segment, Horosphere
    d = 2 + int(rng.integers(0, 3))
    for _ in range(50):
        kc = rh.rand_sphere(rng, d)
        kref, kp, kq = (rh.rand_ball(rng, d, (), rmax=0.9) for _ in range(3))
        ref, rel = rr.horosphere_geodesic(kc, kref, kp, kq)
        # transverse intersection (two distinct points), separated defining points
        if rel > 0.05 and np.linalg.norm(kp - kq) > 0.1:
            break
    else:
        return mon.skip("no transverse horosphere/geodesic configuration drawn")
    lam, pattern = object_factors(rng, (), 4, j)
    C, R, P, Q = (rh.klein_to_proj(k) for k in (kc, kref, kp, kq))
    form = ("points", "segment", "arrays")[j % 3]
    begin({"dimension": d, "centre": C, "reference": R, "P": P, "Q": Q, "factors": lam,
           "call": form}, pattern, d, form)

    def call(h, a, b):
        if form == "points":
            return h.intersect_geodesic(Point(a.copy()), Point(b.copy()))
        if form == "segment":
            return h.intersect_geodesic(Segment(Point(a.copy()), Point(b.copy())))
        return h.intersect_geodesic(a.copy(), b.copy())
    h0 = Horosphere(Point(C.copy()), Point(R.copy()))
    h1 = Horosphere(Point(C * lam[0]), Point(R * lam[1]))
    x0 = klein_of(call(h0, P, Q))
    x1 = klein_of(call(h1, P * lam[2], Q * lam[3]))
    # the library goes through Poincare coordinates of ideal points
    # (sqrt(|1 - |k|^2|): ~1e-8, amplified by 1/sqrt(discriminant))
    judge("Horosphere.intersect_geodesic(vs reference)", unordered_gap(ref, x1), 1e-5)
    judge("Horosphere.intersect_geodesic(vs unscaled)", unordered_gap(x0, x1), 1e-5)
    judge("Horosphere.center_coords", float(np.max(np.abs(np.asarray(h1.center_coords("klein")) - kc))), 1e-9)
    judge("Horosphere.ref_coords", float(np.max(np.abs(np.asarray(h1.ref_coords("klein")) - kref))), 1e-9)


def _arc_excluding(t1, t2, tc):
    """(begin, end) of the counterclockwise arc between the angles t1, t2 that
    does not contain the angle tc."""
    two_pi = 2 * np.pi
    inside = np.mod(tc - t1, two_pi) < np.mod(t2 - t1, two_pi)
    return np.stack([np.where(inside, t2, t1), np.where(inside, t1, t2)], axis=-1)


def _object_horosphere_arc(run, rng, j, mon, judge, begin):
    from geometry_tools.hyperbolic import Point, HorosphereArc
    shape = [(), (3,)][int(rng.integers(0, 2))]
    for _ in range(50):
        kc = rh.rand_sphere(rng, 2, shape)
        kp1 = rh.rand_ball(rng, 2, shape, rmax=0.85)
        kq = rh.rand_ball(rng, 2, shape, rmax=0.85)
        kp2 = rr.on_same_horosphere(kc, kp1, kq)
        cref, rref = rr.horosphere_poincare(kc, kp1)
        xp = rh.klein_to_poincare(np.stack([kp1, kp2], axis=-2))
        if (np.all(np.linalg.norm(kp2, axis=-1) < 0.97) and np.all(rref > 0.05)
                and np.all(np.linalg.norm(xp[..., 0, :] - xp[..., 1, :], axis=-1) > 0.1 * rref)):
            break
    else:
        return mon.skip("no well-separated horocyclic arc drawn")
    lam, pattern = object_factors(rng, shape, 3, j)
    C, P1, P2 = (rh.klein_to_proj(k) for k in (kc, kp1, kp2))
    stacked = bool(rng.integers(0, 2))
    begin({"shape": list(shape), "centre": C, "P1": P1, "P2": P2, "factors": lam,
           "call": "one array" if stacked else "three points"}, pattern, shape,
          "stacked" if stacked else "separate")

    def build(c, a, b):
        if stacked:
            return HorosphereArc(np.stack([c, a, b], axis=-2))
        return HorosphereArc(Point(c.copy()), Point(a.copy()), Point(b.copy()))
    a0 = build(C, P1, P2)
    a1 = build(C * lam[..., 0, :], P1 * lam[..., 1, :], P2 * lam[..., 2, :])
    judge("HorosphereArc.endpoint_coords",
          float(np.max(np.abs(np.asarray(a1.endpoint_coords("klein")) - np.stack([kp1, kp2], axis=-2)))), 1e-9)
    judge("HorosphereArc.center_coords", float(np.max(np.abs(np.asarray(a1.center_coords("klein")) - kc))), 1e-9)
    c0, r0, t0 = (np.asarray(x, dtype=float) for x in a0.circle_parameters(model="poincare", degrees=False))
    c1, r1, t1 = (np.asarray(x, dtype=float) for x in a1.circle_parameters(model="poincare", degrees=False))
    judge("HorosphereArc.circle-centre(vs reference)", float(np.max(np.abs(c1 - cref))), 1e-6)
    judge("HorosphereArc.circle-radius(vs reference)", float(np.max(np.abs(r1 - rref) / rref)), 1e-5)
    ang = np.arctan2(xp[..., 1] - cref[..., None, 1], xp[..., 0] - cref[..., None, 0])
    tref = _arc_excluding(ang[..., 0], ang[..., 1], np.arctan2(kc[..., 1], kc[..., 0]))
    judge("HorosphereArc.circle-angles(vs reference)", rr.angle_gap(t1, tref), 1e-5)
    judge("HorosphereArc.circle-angles(vs unscaled)", rr.angle_gap(t1, t0), 1e-5)
    judge("HorosphereArc.circle-centre(vs unscaled)", float(np.max(np.abs(c1 - c0))), 1e-6)
    td = np.asarray(a1.circle_parameters(model="poincare", degrees=True)[2], dtype=float)
    judge("HorosphereArc.circle-angles(degrees)", rr.angle_gap(np.radians(td), tref), 1e-5)
    if rh.away_from_infinity(np.concatenate([kc[..., None, :], kp1[..., None, :], kp2[..., None, :]], axis=-2), 0.3):
        h0 = a0.circle_parameters(model="halfspace", degrees=False)
        h1 = a1.circle_parameters(model="halfspace", degrees=False)
        rad = np.asarray(h0[1], dtype=float)
        if np.all(np.isfinite(rad)) and np.all(rad < 50) and np.all(rad > 0.02):
            judge("HorosphereArc.circle-centre:halfspace", rel_gap(h0[0], h1[0]), 1e-6)
            judge("HorosphereArc.circle-radius:halfspace", rel_gap(h0[1], h1[1]), 1e-6)
            judge("HorosphereArc.circle-angles:halfspace", rr.angle_gap(h0[2], h1[2]), 1e-5)


def _object_boundary_arc(run, rng, j, mon, judge, begin, antipodal=False):
    from geometry_tools.hyperbolic import Point, BoundaryArc
    # (composite boundary arcs can be constructed since repo d559408, F46)
    shape = [(), (3,), (), (2, 2)][int(rng.integers(0, 4))]
    exact = rng.random() < 0.3 and not antipodal
    if exact:
        # exactly lightlike integer vectors
        nulls = np.array(EXACT_NULL[2], dtype=float)
        for _ in range(200):
            E1 = nulls[rng.integers(0, len(nulls), size=shape)]
            E2 = nulls[rng.integers(0, len(nulls), size=shape)]
            a1 = np.arctan2(E1[..., 2], E1[..., 1])
            a2 = np.arctan2(E2[..., 2], E2[..., 1])
            gap = np.mod(a2 - a1, 2 * math.pi)
            if np.all(np.minimum(gap, 2 * math.pi - gap) > 0.2) and np.all(np.abs(gap - math.pi) > 0.2):
                break
        else:
            return mon.skip("coincident or antipodal exact endpoints")
    else:
        a1 = rng.uniform(-math.pi, math.pi, size=shape)
        gap = rng.uniform(0.3, math.pi - 0.3, size=shape) + math.pi * rng.integers(0, 2, size=shape)
        if antipodal:
            # half circles (the chord passes through the origin; repaired
            # finding F47 / C12-boundary-arc-antipodal): every unit, or -- in a
            # composite -- only some of the units
            half = np.ones(shape, dtype=bool)
            if shape and rng.random() < 0.5:
                half = rng.random(size=shape) < 0.5
                half.flat[0] = True
            gap = np.where(half, math.pi, gap)
        a2 = a1 + gap
        E1 = np.stack([np.ones(shape), np.cos(a1), np.sin(a1)], axis=-1)
        E2 = np.stack([np.ones(shape), np.cos(a2), np.sin(a2)], axis=-1)
    lam, pattern = object_factors(rng, shape, 2, j)
    form = ("arrays", "points", "one array")[int(rng.integers(0, 3))]
    if antipodal:
        pattern = "antipodal"
    begin({"shape": list(shape), "E1": E1, "E2": E2, "factors": lam, "call": form, "exact_null": exact},
          pattern, shape, form, "antipodal" if antipodal else "exact" if exact else "from-angle")

    def build(u, v):
        if form == "arrays":
            return BoundaryArc(u.copy(), v.copy())
        if form == "points":
            return BoundaryArc(Point(u.copy()), Point(v.copy()))
        return BoundaryArc(np.stack([u, v], axis=-2))
    kends = np.stack([E1[..., 1:] / E1[..., :1], E2[..., 1:] / E2[..., :1]], axis=-2)
    aref = np.stack([a1, a2], axis=-1)
    arc = build(E1 * lam[..., 0, :], E2 * lam[..., 1, :])
    # a boundary arc is the counterclockwise arc from its first to its second endpoint
    judge("BoundaryArc.endpoint_coords:klein",
          float(np.max(np.abs(np.asarray(arc.endpoint_coords("klein")) - kends))), 1e-9)
    judge("BoundaryArc.endpoint_coords:poincare",
          float(np.max(np.abs(np.asarray(arc.endpoint_coords("poincare")) - kends))), 1e-6)
    for model in ("klein", "poincare"):
        c, r, th = arc.circle_parameters(model=model, degrees=False)
        judge("BoundaryArc.circle-angles:" + model, rr.angle_gap(th, aref), 1e-6)
        judge("BoundaryArc.circle:" + model,
              float(max(np.max(np.abs(np.asarray(c, dtype=float))), np.max(np.abs(np.asarray(r, dtype=float) - 1)))), 1e-9)
    th = arc.circle_parameters(model="klein", degrees=True)[2]
    judge("BoundaryArc.circle-angles(degrees)", rr.angle_gap(np.radians(np.asarray(th, dtype=float)), aref), 1e-6)
    judge("BoundaryArc.ideal_basis_coords",
          float(np.max(np.abs(np.asarray(arc.ideal_basis_coords("klein")) - kends))), 1e-9)
    # history: flipping the orientation gives the complementary arc, whatever
    # the representatives were
    arc.flip_orientation()
    th = arc.circle_parameters(model="klein", degrees=False)[2]
    judge("BoundaryArc.flip_orientation->circle-angles", rr.angle_gap(th, aref[..., ::-1]), 1e-6)
    judge("BoundaryArc.flip_orientation->endpoint_coords",
          float(np.max(np.abs(np.asarray(arc.endpoint_coords("klein")) - kends[..., ::-1, :]))), 1e-9)


def _reflection_checks(judge, op, S1, S0, nrm, rng, d, shape):
    """reflection across a hyperplane-like object, as a projective map: images
    of d + 3 random interior points against the numpy reflection."""
    V = rh.klein_to_proj(rh.rand_ball(rng, d, tuple(shape) + (d + 3,), rmax=0.9))
    ref = rh.proj_to_klein(rr.reflect(nrm, V))
    R1 = S1.reflection_across()
    judge(op + ".reflection_across(vs reference)", float(np.max(np.abs(row_images(R1, V) - ref))), 1e-7)
    if S0 is not None:
        judge(op + ".reflection_across(vs unscaled)",
              float(np.max(np.abs(row_images(R1, V) - row_images(S0.reflection_across(), V)))), 1e-7)
    return R1


def _halfspace_sphere_checks(judge, op, S0, S1, kpts, boundary):
    """half-space sphere parameters against the unscaled object (no independent
    reference: the chart convention is the library's), away from the chart's
    point at infinity."""
    if not rh.away_from_infinity(kpts, 0.3):
        return
    with np.errstate(all="ignore"):
        c0, r0 = S0.sphere_parameters("halfspace")
        c1, r1 = S1.sphere_parameters("halfspace")
    r0 = np.asarray(r0, dtype=float)
    # (half-space coordinates of ideal points carry the ~1e-8 error of
    # sqrt(|1 - |k|^2|); the circumcentre amplifies it by ~r^2: nearly flat
    # spheres are left out)
    if np.all(np.isfinite(r0)) and np.all(r0 < 5):
        judge(op + ".sphere-centre:halfspace", rel_gap(c0, c1), 3e-5)
        judge(op + ".sphere-radius:halfspace", rel_gap(r0, r1), 3e-5)
        if boundary:
            with np.errstate(all="ignore"):
                b0 = S0.boundary_sphere_parameters()
                b1 = S1.boundary_sphere_parameters()
            if np.all(np.isfinite(np.asarray(b0[1], dtype=float))) and np.all(np.asarray(b0[1], dtype=float) < 5):
                judge(op + ".boundary_sphere_parameters(centre)", rel_gap(b0[0], b1[0]), 3e-5)
                judge(op + ".boundary_sphere_parameters(radius)", rel_gap(b0[1], b1[1]), 3e-5)


def _object_geodesic(run, rng, j, mon, judge, begin):
    from geometry_tools.hyperbolic import Point, Geodesic, Segment, PointPair, Isometry
    d = 2 if rng.random() < 0.5 else int(rng.integers(3, 5))
    shape = [(), (3,), (), (2, 2)][int(rng.integers(0, 4))]
    for _ in range(50):
        kE = rh.rand_sphere(rng, d, shape + (2,))
        kp = rh.rand_ball(rng, d, shape, rmax=0.9)
        kq = rh.rand_ball(rng, d, shape, rmax=0.9)
        if (np.all(np.linalg.norm(kE[..., 0, :] - kE[..., 1, :], axis=-1) > 0.3)
                and np.all(rr.span_m2(kE) > 0.02)
                and np.all(np.linalg.norm(kp - kq, axis=-1) > 0.1)
                and np.all(rr.span_m2(rr.chord_ends(kp, kq)) > 0.02)):
            break
    else:
        return mon.skip("no well-conditioned geodesic drawn")
    lam, pattern = object_factors(rng, shape, 4, j)
    E = rh.klein_to_proj(kE)
    P, Q = rh.klein_to_proj(kp), rh.klein_to_proj(kq)
    stacked = bool(rng.integers(0, 2))
    begin({"dimension": d, "shape": list(shape), "ideal_endpoints": E, "P": P, "Q": Q,
           "factors": lam, "call": "one array" if stacked else "two points"},
          pattern, d, shape, "stacked" if stacked else "separate")
    E1 = E * lam[..., :2, :]
    if stacked:
        g0, g1 = Geodesic(E.copy()), Geodesic(E1.copy())
    else:
        g0 = Geodesic(Point(E[..., 0, :].copy()), Point(E[..., 1, :].copy()))
        g1 = Geodesic(Point(E1[..., 0, :].copy()), Point(E1[..., 1, :].copy()))
    judge("Geodesic.ideal_basis_coords", float(np.max(np.abs(np.asarray(g1.ideal_basis_coords("klein")) - kE))), 1e-9)
    judge("Geodesic.endpoint_coords", float(np.max(np.abs(np.asarray(g1.endpoint_coords("klein")) - kE))), 1e-9)
    cref, rref = rr.span_poincare(kE)
    c1, r1 = (np.asarray(x, dtype=float) for x in g1.sphere_parameters("poincare"))
    c0, r0 = (np.asarray(x, dtype=float) for x in g0.sphere_parameters("poincare"))
    if np.all(rref < 50):
        judge("Geodesic.sphere-centre:poincare(vs reference)", rel_gap(cref, c1), 1e-6)
        judge("Geodesic.sphere-radius:poincare(vs reference)", float(np.max(np.abs(r1 - rref) / rref)), 1e-6)
        judge("Geodesic.sphere-centre:poincare(vs unscaled)", rel_gap(c0, c1), 1e-7)
    _halfspace_sphere_checks(judge, "Geodesic", g0, g1, kE, boundary=(d == 2))
    if d == 2:
        if np.all(rref < 50):
            for model in ("poincare", "halfspace"):
                if model == "halfspace" and not rh.away_from_infinity(kE, 0.3):
                    continue
                with np.errstate(all="ignore"):
                    p0 = g0.circle_parameters(degrees=False, model=model)
                    p1 = g1.circle_parameters(degrees=False, model=model)
                rad = np.asarray(p0[1], dtype=float)
                if np.all(np.isfinite(rad)) and np.all(rad < 50):
                    judge("Geodesic.circle-centre:" + model, rel_gap(p0[0], p1[0]), 1e-5)
                    judge("Geodesic.circle-radius:" + model, rel_gap(p0[1], p1[1]), 1e-5)
                    dth = np.abs(np.angle(np.exp(1j * (np.asarray(p0[2], dtype=float) - np.asarray(p1[2], dtype=float)))))
                    judge("Geodesic.circle-angles:" + model,
                          float(np.max(dth * np.minimum(rad, 1e3)[..., None])), 1e-5)
        nrm = rr.minkowski_normal(E)
        _reflection_checks(judge, "Geodesic", g1, g0, nrm, rng, d, shape)
        judge("Geodesic.spacelike_complement",
              rr.proj_defect(np.asarray(g1.spacelike_complement().proj_data, dtype=float), nrm), 1e-7)
    # image of the geodesic under an isometry
    A = rh.rand_isometry(rng, d)
    T = Isometry(A, column_vectors=True)
    kimg = rh.proj_to_klein(E @ A.T)
    judge("Isometry@Geodesic->ideal_basis_coords",
          float(np.max(np.abs(np.asarray((T @ g1).ideal_basis_coords("klein"), dtype=float) - kimg))), 1e-7)
    # the geodesic spanned by a segment between interior points, and what is
    # derived from it
    P1, Q1 = P * lam[..., 2, :], Q * lam[..., 3, :]
    if stacked:
        s0 = Segment(np.stack([P, Q], axis=-2))
        s1 = Segment(np.stack([P1, Q1], axis=-2))
        pair = PointPair(np.stack([P1, Q1], axis=-2))
    else:
        s0 = Segment(Point(P.copy()), Point(Q.copy()))
        s1 = Segment(Point(P1.copy()), Point(Q1.copy()))
        pair = PointPair(Point(P1.copy()), Point(Q1.copy()))
    kpq = np.stack([kp, kq], axis=-2)
    judge("PointPair.endpoint_coords:klein",
          float(np.max(np.abs(np.asarray(pair.endpoint_coords("klein"), dtype=float) - kpq))), 1e-9)
    judge("PointPair.endpoint_coords:poincare",
          float(np.max(np.abs(np.asarray(pair.endpoint_coords("poincare"), dtype=float) - rh.klein_to_poincare(kpq)))), 1e-9)
    ea, eb = pair.get_end_pair(as_points=True)
    judge("PointPair.get_end_pair", float(max(np.max(np.abs(klein_of(ea) - kp)), np.max(np.abs(klein_of(eb) - kq)))), 1e-9)
    judge("Segment.endpoint_coords", float(np.max(np.abs(np.asarray(s1.endpoint_coords("klein"), dtype=float) - kpq))), 1e-9)
    ends = rr.chord_ends(kp, kq)
    judge("Segment.geodesic->ideal_basis_coords(vs reference)",
          unordered_gap(ends, np.asarray(s1.geodesic().ideal_basis_coords("klein"))), 1e-6)
    cref, rref = rr.span_poincare(ends)
    c1, r1 = (np.asarray(x, dtype=float) for x in s1.sphere_parameters("poincare"))
    if np.all(rref < 50):
        judge("Segment.sphere-centre:poincare(vs reference)", rel_gap(cref, c1), 1e-5)
        judge("Segment.sphere-radius:poincare(vs reference)", float(np.max(np.abs(r1 - rref) / rref)), 1e-5)
    if d == 2:
        nrm = rr.minkowski_normal(np.stack([P, Q], axis=-2))
        _reflection_checks(judge, "Segment", s1, s0, nrm, rng, d, shape)
        judge("Segment.spacelike_complement",
              rr.proj_defect(np.asarray(s1.spacelike_complement().proj_data, dtype=float), nrm), 1e-6)


def _object_subspace(run, rng, j, mon, judge, begin, adversarial=None):
    from geometry_tools.hyperbolic import Subspace
    d = int(rng.integers(3, 5))
    k = d if (rng.random() < 0.5 or adversarial) else int(rng.integers(2, d))
    shape = [(), (3,)][int(rng.integers(0, 2))]
    for _ in range(200):
        kE = rh.rand_sphere(rng, d, shape + (k,))
        if well_spread(kE):
            break
    else:
        return mon.skip("no well-conditioned ideal basis drawn")
    lam, pattern = object_factors(rng, shape, k, j)
    E = rh.klein_to_proj(kE)
    if adversarial:
        # repaired finding F48 / C12-subspace-dual-raw-barycentre: factors (inside
        # +-[0.1, 10]) for which the raw barycentre b of the representatives
        # is Minkowski-orthogonal to the second basis vector, or lightlike
        G = rh.mink(E[..., :, None, :], E[..., None, :, :])
        lam = np.abs(lam)
        lam[..., 2:, :] = np.clip(lam[..., 2:, :], 0.5, 2.0)
        if adversarial == "orthogonal":    # <e_2, b> = 0, solved for the first factor
            rest = np.sum(lam[..., 2:, 0] * G[..., 1, 2:], axis=-1)
            lam[..., 0, 0] = -rest / G[..., 1, 0]
        else:                              # <b, b> = 0, solved for the first factor
            l = lam[..., 1:, 0]
            quad = 0.5 * (np.einsum("...i,...ij,...j->...", l, G[..., 1:, 1:], l))
            lin = np.sum(l * G[..., 0, 1:], axis=-1)
            lam[..., 0, 0] = -quad / lin
        if not np.all((np.abs(lam) >= 0.1) & (np.abs(lam) <= 10)):
            return mon.skip("adversarial factors outside +-[0.1, 10]")
        pattern = "raw-barycentre-" + adversarial
    begin({"dimension": d, "rank": k, "shape": list(shape), "ideal_basis": E, "factors": lam},
          pattern, d, k, shape)
    S0, S1 = Subspace(E.copy()), Subspace((E * lam).copy())
    judge("Subspace.ideal_basis_coords", float(np.max(np.abs(np.asarray(S1.ideal_basis_coords("klein")) - kE))), 1e-9)
    cref, rref = rr.span_poincare(kE)
    c1, r1 = (np.asarray(x, dtype=float) for x in S1.sphere_parameters("poincare"))
    c0, r0 = (np.asarray(x, dtype=float) for x in S0.sphere_parameters("poincare"))
    judge("Subspace.sphere-centre:poincare(vs reference)", rel_gap(cref, c1), 1e-6)
    judge("Subspace.sphere-radius:poincare(vs reference)", float(np.max(np.abs(r1 - rref) / rref)), 1e-6)
    judge("Subspace.sphere-centre:poincare(vs unscaled)", rel_gap(c0, c1), 1e-7)
    _halfspace_sphere_checks(judge, "Subspace", S0, S1, kE, boundary=(k == d))
    if k == d:
        nrm = rr.minkowski_normal(E)
        _reflection_checks(judge, "Subspace", S1, S0, nrm, rng, d, shape)
        judge("Subspace.spacelike_complement",
              rr.proj_defect(np.asarray(S1.spacelike_complement().proj_data, dtype=float), nrm), 1e-7)


def _object_hyperplane(run, rng, j, mon, judge, begin):
    from geometry_tools import hyperbolic
    from geometry_tools.hyperbolic import Hyperplane, DualPoint
    d = int(rng.integers(2, 5))
    # composite normals have shape (k, 1, n+1) (one normal per unit)
    shape = [(), (3, 1)][int(rng.integers(0, 2))]
    nrm = spacelike_normal(rng, d, shape)
    lam, pattern = object_factors(rng, shape, 1, j)
    lam = lam[..., 0, :]
    begin({"dimension": d, "shape": list(shape), "normal": nrm, "factors": lam}, pattern, d, shape)
    flat = nrm.reshape(nrm.shape[:-2] + (d + 1,)) if shape else nrm
    H0, H1 = Hyperplane(nrm.copy()), Hyperplane((nrm * lam).copy())
    judge("Hyperplane.spacelike_vector",
          rr.proj_defect(np.asarray(H1.spacelike_vector, dtype=float), flat), 1e-9)
    ib = np.asarray(H1.ideal_basis_coords("klein"), dtype=float)
    # the ideal basis is not unique: judged as d independent ideal points of the hyperplane
    on_plane = np.abs(np.sum(ib * flat[..., None, 1:], axis=-1) - flat[..., :1])
    judge("Hyperplane.ideal_basis(on the hyperplane)", float(np.max(on_plane)), 1e-7)
    judge("Hyperplane.ideal_basis(ideal)", float(np.max(np.abs(np.sum(ib * ib, axis=-1) - 1))), 1e-7)
    cref, rref = rr.hyperplane_poincare(flat)
    c1, r1 = (np.asarray(x, dtype=float) for x in H1.sphere_parameters("poincare"))
    if np.all(rref < 50):
        judge("Hyperplane.sphere-centre:poincare(vs reference)", rel_gap(cref, c1), 1e-6)
        judge("Hyperplane.sphere-radius:poincare(vs reference)", float(np.max(np.abs(r1 - rref) / rref)), 1e-6)
    _halfspace_sphere_checks(judge, "Hyperplane", H0, H1, np.asarray(H0.ideal_basis_coords("klein"), dtype=float),
                             boundary=True)
    R1 = _reflection_checks(judge, "Hyperplane", H1, H0, flat, rng, d, flat.shape[:-1])
    back = Hyperplane.from_reflection(R1)
    judge("Hyperplane.from_reflection(reflection_across)",
          rr.proj_defect(np.asarray(back.spacelike_vector, dtype=float).reshape(flat.shape), flat), 1e-7)
    dp = DualPoint((nrm * lam).copy())
    judge("DualPoint.coords:klein", rel_gap(flat[..., 1:] / flat[..., :1],
                                            np.asarray(dp.coords("klein"), dtype=float).reshape(flat[..., 1:].shape)), 1e-9)
    # spacelike_to: the isometry takes the direction e_1 to the given normal
    T = hyperbolic.spacelike_to((nrm * lam).copy())
    e1 = np.zeros(d + 1)
    e1[1] = 1.0
    img = e1 @ np.asarray(T.proj_data, dtype=float)
    judge("spacelike_to(image of e1)", rr.proj_defect(img.reshape(flat.shape), flat), 1e-7)
    judge("spacelike_to(isometry)", float(np.max(rh.form_residual(np.asarray(T.proj_data, dtype=float)))), 1e-7)


def _object_projective(run, rng, j, mon, judge, begin):
    from geometry_tools import projective, utils
    n = int(rng.integers(2, 6))
    nv = rng.normal(size=n)
    lam, pattern = object_factors(rng, (), 1, j)
    lam = float(lam[0, 0])
    begin({"n": n, "normal": nv, "factor": lam}, pattern, n)
    # chart normal: n and lam * n describe the same hyperplane.  The chart
    # transformation is documented only as "an orthogonal change sending the
    # hyperplane to infinity" -- the completion of the frame is not unique, and a
    # different (equally valid) completion for n and for -n is not a change of any
    # geometric output.  (An earlier version of this check compared f(n) and
    # f(lam n) as projective maps and find_definite_isometry frames up to a scalar;
    # benign change E-3 -- QR signs taken column by column -- showed that this
    # demanded more than the property states: false alarm, removed.  What IS
    # determined by the hyperplane is judged: it goes to x0 = 0, orthogonally.)
    T1 = projective.hyperplane_coordinate_transform(lam * nv)
    M1 = np.asarray(T1.proj_data, dtype=float)
    pts = rng.normal(size=(n + 2, n))
    inpl = pts - np.outer(pts @ nv, nv) / (nv @ nv)
    im = np.asarray((T1 @ projective.Point(inpl)).proj_data, dtype=float)
    judge("hyperplane_coordinate_transform(hyperplane to x0 = 0)",
          float(np.max(np.abs(im[:, 0]) / np.linalg.norm(im, axis=-1))), 1e-9)
    judge("hyperplane_coordinate_transform(orthogonal)",
          float(np.max(np.abs(M1 @ M1.T / (np.linalg.norm(M1, 2) ** 2) - np.eye(n)))), 1e-9)
    # points, pairs, polygons in affine charts
    i = int(rng.integers(0, n))
    m = int(rng.integers(3, 7))
    X = rng.normal(size=(m, n))
    X[:, i] = rng.uniform(0.5, 2.0, size=m) * rng.choice([-1.0, 1.0], size=m)
    lx, _ = object_factors(rng, (), m, j)
    aref = np.delete(X, i, axis=-1) / X[:, i:i + 1]
    judge("projective.Point.affine_coords",
          rel_gap(aref, np.asarray(projective.Point((X * lx).copy()).affine_coords(chart_index=i), dtype=float)), 1e-9)
    judge("projective.affine_coords",
          rel_gap(aref, np.asarray(projective.affine_coords((X * lx).copy(), chart_index=i), dtype=float)), 1e-9)
    pair = projective.PointPair(projective.Point((X[0] * lx[0]).copy()), projective.Point((X[1] * lx[1]).copy()))
    judge("projective.PointPair.endpoint_affine_coords",
          rel_gap(aref[:2], np.asarray(pair.endpoint_affine_coords(chart_index=i), dtype=float)), 1e-9)
    poly = projective.Polygon((X * lx).copy())
    judge("projective.Polygon.get_vertices",
          rel_gap(aref, np.asarray(poly.get_vertices().affine_coords(chart_index=i), dtype=float)), 1e-9)
    eref = np.stack([aref, np.roll(aref, -1, axis=0)], axis=-2)
    judge("projective.Polygon.get_edges",
          rel_gap(eref, np.asarray(poly.get_edges().endpoint_affine_coords(chart_index=i), dtype=float)), 1e-9)
    A = rng.normal(size=(n, n)) + 2 * np.eye(n)
    T = projective.Transformation(A, column_vectors=True)
    Y = X @ A.T
    if np.all(np.abs(Y[:, i]) > 0.05 * np.linalg.norm(Y, axis=-1)):
        yref = np.delete(Y, i, axis=-1) / Y[:, i:i + 1]
        got = np.asarray((T @ projective.Point((X * lx).copy())).affine_coords(chart_index=i), dtype=float)
        judge("projective.Transformation.apply", rel_gap(yref, got), 1e-8)
    # intersection of two subspaces given by rescaled spanning sets: the same subspace
    if n >= 3:
        k1 = int(rng.integers(2, n))
        k2 = int(rng.integers(n - k1 + 1, n))
        for _ in range(20):
            A1 = rng.normal(size=(k1, n))
            A2 = rng.normal(size=(k2, n))
            s = np.linalg.svd(np.concatenate([A1, A2], axis=0), compute_uv=False)
            if s[min(n, k1 + k2) - 1] / s[0] > 0.1:
                break
        l1, _ = object_factors(rng, (), k1, j)
        l2, _ = object_factors(rng, (), k2, j >> 1)
        I0 = projective.Subspace(A1.copy()).intersect(projective.Subspace(A2.copy()))
        I1 = projective.Subspace((A1 * l1).copy()).intersect(projective.Subspace((A2 * l2).copy()))
        judge("projective.Subspace.intersect(vs unscaled)",
              float(np.max(np.abs(rr.row_projector(I0.proj_data) - rr.row_projector(I1.proj_data)))), 1e-7)
        # reference: the vectors annihilated by both annihilators

        def null_rows(Z):
            return np.linalg.svd(Z)[2][Z.shape[0]:]
        ref = null_rows(np.concatenate([null_rows(A1), null_rows(A2)], axis=0))
        judge("projective.Subspace.intersect(vs reference)",
              float(np.max(np.abs(rr.row_projector(ref) - rr.row_projector(I1.proj_data)))), 1e-7)


def _object_tangent(run, rng, j, mon, judge, begin):
    from geometry_tools import hyperbolic
    from geometry_tools.hyperbolic import Point, TangentVector
    d = int(rng.integers(2, 5))
    shape = [(), (3,)][int(rng.integers(0, 2))]
    kp = rh.rand_ball(rng, d, shape, rmax=0.9)
    P = rh.klein_to_proj(kp)
    v = rh.tangent_project(P, rng.normal(size=shape + (d + 1,)))
    w = rh.tangent_project(P, rng.normal(size=shape + (d + 1,)))
    lam, pattern = object_factors(rng, shape, 1, j)
    lam = lam[..., 0, :]
    t = rng.uniform(-2, 2, size=shape)
    begin({"dimension": d, "shape": list(shape), "P": P, "v": v, "w": w, "factors": lam, "t": t},
          pattern, d, shape)
    # a tangent vector is the pair (basepoint, vector): rescaled jointly, it is
    # the same direction at the same point
    tv1 = TangentVector(Point((P * lam).copy()), (v * lam).copy())
    tw1 = TangentVector(Point((P * lam).copy()), (w * lam).copy())
    judge("TangentVector.point_along(vs reference)",
          float(np.max(np.abs(klein_of(tv1.normalized().point_along(t)) - rh.exp_map(P, v, t)))), 1e-7)
    o = Point.get_origin(d, shape)
    judge("TangentVector.origin_to(image of the origin)",
          float(np.max(np.abs(klein_of(tv1.origin_to() @ o) - kp))), 1e-8)
    cref = rh.mink(v, w) / np.sqrt(rh.mink_sq(v) * rh.mink_sq(w))
    if np.all(np.abs(cref) < 0.999):
        judge("TangentVector.angle(vs reference)",
              float(np.max(np.abs(np.cos(np.asarray(tv1.angle(tw1), dtype=float)) - cref))), 1e-7)
    # module-level helpers on rescaled homogeneous coordinates
    judge("kleinian_coords", float(np.max(np.abs(np.asarray(hyperbolic.kleinian_coords((P * lam).copy())) - kp))), 1e-9)
    hp = rh.hyperboloid_pos(P)
    judge("hyperboloid_coords",
          float(np.max(np.abs(np.abs(np.asarray(hyperbolic.hyperboloid_coords((P * lam).copy()), dtype=float)) - np.abs(hp))
                       / (1 + np.abs(hp)))), 1e-9)
    # timelike_to takes one frame per unit: composites as (k, 1, n+1)
    Pf = (P * lam)[..., None, :] if shape else P * lam
    T = hyperbolic.timelike_to(Pf.copy())
    judge("timelike_to(image of the origin)",
          float(np.max(np.abs(klein_of(T @ o) - kp))), 1e-8)
    # ... and it is an isometry whatever representative was given: distances
    # between the images of two further points are the distances between the
    # points (seeded change C12-r5-1: a single vector no longer normalised, so
    # timelike_to(lambda v) stretches by lambda while still sending the origin to v)
    ka = rh.rand_ball(rng, d, shape, rmax=0.8)
    kb = rh.rand_ball(rng, d, shape, rmax=0.8)
    ia = klein_of(T @ Point(rh.klein_to_proj(ka)))
    ib = klein_of(T @ Point(rh.klein_to_proj(kb)))
    if np.all(np.sum(ia * ia, axis=-1) < 1 - 1e-9) and np.all(np.sum(ib * ib, axis=-1) < 1 - 1e-9):
        judge("timelike_to(preserves distances)",
              float(np.max(np.abs(rh.dist_klein(ia, ib) - rh.dist_klein(ka, kb)))), 1e-6)
    else:
        judge("timelike_to(preserves distances)", float("inf"), 1e-6)


def wl_docs(run, rng, idx):
    """the documentation's python blocks and examples/*.py, run as programs."""
    from .. import examples
    mon = run.monitor("docs")
    progs = examples.programs()
    if not progs:
        return mon.skip("no documentation programs found")
    doc, bl = progs[idx % len(progs)]
    run.current_case = {"document": doc}
    for i, status, detail in examples.run_program(doc, bl, shrink=(run.tier == "quick")):
        if status == "ok":
            mon.ok()
            run.note_class("doc", doc, i)
        elif status == "skipped":
            mon.skip(detail)
        else:
            mon.fail("docs/exception:%s/%s[block %d]" % (detail.split(":")[0], doc, i),
                     "documentation program %s block %d does not run: %s"
                     % (doc, i, detail.splitlines()[0]),
                     case={"document": doc, "block": i, "code": bl[i][:1500]},
                     tb=detail)
    if idx < 1:
        run.sample({"document": doc, "first_block": bl[0][:400]})


WORKLOADS = [
    Workload("packaging-scalar", wl_packaging_scalar, quick=12, thorough=300),
    Workload("packaging-matrix", wl_packaging_matrix, quick=12, thorough=300),
    Workload("packaging-coxeter", wl_packaging_coxeter, quick=8, thorough=64),
    Workload("packaging-cartan", wl_packaging_cartan, quick=15, thorough=300),
    Workload("packaging-integer-data", wl_packaging_integer_data, quick=25, thorough=250),
    Workload("packaging-sequence", wl_packaging_sequence, quick=24, thorough=360),
    Workload("packaging-open-findings", wl_packaging_open_findings, quick=8, thorough=160),
    Workload("rescaling", wl_rescaling, quick=240, thorough=6000),
    Workload("rescaling-ideal", wl_rescaling_ideal, quick=90, thorough=1800),
    Workload("rescaling-objects", wl_rescaling_objects, quick=160, thorough=3200),
    Workload("rescaling-open-findings", wl_rescaling_open_findings, quick=24, thorough=480),
    Workload("docs", wl_docs, quick=12, thorough=12),
]
