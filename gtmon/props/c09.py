"""C09 -- an automaton's three views stay coherent however it was built or edited.

Monitors
  views-coherent   (I) class invariant on FSA, evaluated at every outermost
                   return of a public method: label / outgoing / incoming views
                   describe the same labelled edges, none twice, same vertices.
  history-model    (H) every mutating call of a history is replayed on the
                   set model gtmon.ref.fsa_model.Model; views == model after
                   each step.
  kbmag-roundtrip  (P) random kbmag/GAP record text -> parse_record ->
                   _from_gap_record == the table that was written.
  routes           (W) all construction routes give the model's edge set.
  relabel-law      (A) ambient postcondition on every FSA.rename_generators call
                   (the workloads' own, CoxeterGroup.automaton()'s, the repo
                   tests'): all three views afterwards == {(v, w, map[l])} of
                   the label view before, whatever kind of indexable the map is.

A history is run on a *world* of live automata: every object a history has
produced (copies, non-inplace results, the objects they were made from) keeps
the set model of the history that very object underwent and is re-judged
after every step, not only the object being edited.
"""
import collections.abc
import copy
import itertools
import weakref

from ..run import Workload
from .. import attach, sanit
from ..ref import fsa_model

ID = "C09"
RULE = ("histories = construction route x sequence of FSA edits (dense: every "
        "history of depth<=3 over 3 vertices x 2 labels x 6 routes; random: depth "
        "<=30 over <=6 vertices/4 labels, string or integer labels, rename maps "
        "given as dict / list / tuple, insertions one edge at a time or as whole "
        "add_edges batches with repeated / already-present triples and walks, "
        "ignore_redundant on and off, vertex / label names small ints and literals "
        "or freshly built equal tuples / big ints / negative ints / run-time strings "
        "/ floats at every mention), two automata interleaved, every live object "
        "of a history (copy.copy / deepcopy / non-inplace results and their sources) "
        "re-judged after every step; a case is "
        "non-trivial when it performs >=1 edit on a non-empty automaton; distinct "
        "= distinct (route, multiset of op kinds, #vertices, #edges at end) "
        "signatures and distinct kbmag (states, labels, syntax features incl. the "
        "form of the accepting field: full / proper interval / explicit subset / empty)")
ASSUMPTIONS = [
    "insertions that would make the automaton non-deterministic, and "
    "non-injective renames, are out of domain (counted, not judged)",
    "a vertex missing from the incoming view means 'no incoming edges' "
    "(the view is a defaultdict)",
    "add_edges(ignore_redundant=False) is the caller's promise that no edge "
    "of the batch is already present or named twice: only such batches are "
    "given to it; with the default ignore_redundant=True any repetition is in "
    "domain and the edge is stored once",
    "a rename map is anything indexable by the labels present (dict, list, "
    "tuple: CoxeterGroup.automaton() passes a list); a map that cannot be "
    "indexed by some present label is out of domain",
    "what copy.copy of an automaton means is not fixed by the property: two "
    "objects whose three view dictionaries are the very same objects are one "
    "automaton (an edit through either is an edit of both in the model); "
    "otherwise they are independent automata (an edit through one is not part "
    "of the other's history)",
]
ANCHORS = [("geometry_tools/automata/fsa.py", q) for q in (
    "FSA.__init__", "FSA._from_graph_dict", "FSA._build_graph_dict",
    "FSA._build_in_dict", "FSA.add_vertices", "FSA.add_edges",
    "FSA.delete_vertex", "FSA.delete_vertices", "FSA.recurrent",
    "FSA.rename_generators", "_from_gap_record", "load_builtin",
    "free_automaton", "_hidden_vertices", "load_kbmag_file")] + [
    ("geometry_tools/automata/gap_parse.py", q) for q in (
        "parse_record", "parse_contents", "parse_list", "parse_quote")] + [
    ("geometry_tools/automata/kbmag_utils.py", "build_dict")]
REQUIRED = [
    ("geometry_tools/automata/fsa.py", "FSA.add_edges", "self._out_dict[tail][head].append(label)"),
    ("geometry_tools/automata/fsa.py", "FSA.add_edges", "self._out_dict[tail][head] += label"),
    ("geometry_tools/automata/fsa.py", "FSA.delete_vertex", "self._graph_dict.pop(vertex)"),
    ("geometry_tools/automata/fsa.py", "FSA._build_in_dict", "in_dict[w][v] ="),
    ("geometry_tools/automata/fsa.py", "FSA._build_graph_dict", "label_dict[v][label] = w"),
    ("geometry_tools/automata/gap_parse.py", "parse_list", "current_list = range("),
]

_tainted = weakref.WeakSet()      # automata put out of domain by the workload
_state = {}


def view_problems(fsa, views=None):
    ge, oe, ie, gv, ov, iv = views or fsa_model.lib_views(fsa)
    probs = []
    for name, lst in (("label", ge), ("outgoing", oe), ("incoming", ie)):
        seen = set()
        for e in lst:
            if e in seen:
                probs.append(("duplicate-edge/%s-view" % name,
                              "edge %r listed twice in the %s view" % (e, name)))
                break
            seen.add(e)
    sg, so, si = set(ge), set(oe), set(ie)
    if sg != so:
        probs.append(("edge-mismatch/label-vs-outgoing",
                      "label view and outgoing view differ: only label %r, only outgoing %r"
                      % (sorted(sg - so, key=repr)[:4], sorted(so - sg, key=repr)[:4])))
    if so != si:
        probs.append(("edge-mismatch/outgoing-vs-incoming",
                      "outgoing and incoming views differ: only outgoing %r, only incoming %r"
                      % (sorted(so - si, key=repr)[:4], sorted(si - so, key=repr)[:4])))
    if gv != ov:
        probs.append(("vertex-mismatch/label-vs-outgoing",
                      "vertex sets differ: %r vs %r" % (sorted(gv ^ ov, key=repr)[:6], "")))
    if not iv <= ov:
        probs.append(("vertex-mismatch/incoming-stale",
                      "incoming view mentions deleted vertices %r"
                      % sorted(iv - ov, key=repr)[:6]))
    used = {v for (v, w, l) in ge} | {w for (v, w, l) in ge}
    if not used <= gv:
        probs.append(("vertex-mismatch/edge-to-missing-vertex",
                      "edges touch vertices that are not in the vertex set: %r"
                      % sorted(used - gv, key=repr)[:6]))
    return probs


def edge_view_mismatch(fsa, want, want_vertices):
    """first (key, text) in which the three views of `fsa` differ from the
    sorted labelled edge list `want` on the vertex set `want_vertices`
    (incl. internal coherence), or None."""
    ge, oe, ie, gv, ov, iv = fsa_model.lib_views(fsa)
    for name, lst in (("label", ge), ("outgoing", oe), ("incoming", ie)):
        if sorted(set(lst), key=repr) != want:
            return ("%s-view" % name,
                    "%s view %r != set model %r" % (name, lst[:6], want[:6]))
    if gv != set(want_vertices):
        return ("vertices", "vertex set %r != model %r"
                % (sorted(gv, key=repr), sorted(want_vertices, key=repr)))
    probs = view_problems(fsa)
    if probs:
        return probs[0]
    return None


def map_kind(mp):
    for t in (dict, list, tuple):
        if isinstance(mp, t):
            return t.__name__
    if isinstance(mp, collections.abc.Mapping):
        return "mapping"
    return "indexable"


def resolve_map(mp, labels):
    """The relabelling `mp` (anything indexable by the labels) restricted to
    `labels`, as a plain dict -- by indexing the caller's object only.
    -> (dict, None) or (None, out-of-domain reason)."""
    full = {}
    for l in labels:
        if isinstance(mp, collections.abc.Mapping):
            if l not in mp:           # (no __getitem__: a defaultdict would grow)
                return None, "rename map does not cover every label"
            full[l] = mp[l]
        else:
            if isinstance(l, bool) or not isinstance(l, int) \
                    or not hasattr(mp, "__len__") or not 0 <= l < len(mp):
                return None, "sequence rename map cannot be indexed by every label"
            full[l] = mp[l]
    try:
        if len(set(full.values())) != len(full):
            return None, "non-injective rename"
    except TypeError:
        return None, "unhashable new label"
    return full, None


def full_alias(A, B):
    """A and B are one automaton: their three view dictionaries are the very
    same objects (attribute reading only)."""
    return (A.graph_dict is B.graph_dict and A.out_dict is B.out_dict
            and A.in_dict is B.in_dict)


def describe(fsa):
    try:
        return {"graph_dict": {repr(k): {repr(l): repr(w) for l, w in v.items()}
                               for k, v in fsa.graph_dict.items()},
                "out_dict": {repr(k): {repr(w): list(map(repr, ls)) for w, ls in v.items()}
                             for k, v in fsa.out_dict.items()},
                "in_dict": {repr(k): {repr(w): list(map(repr, ls)) for w, ls in v.items()}
                            for k, v in fsa.in_dict.items()}}
    except Exception as e:
        return repr(e)


def setup(run):
    from geometry_tools.automata import fsa as fsamod
    FSA = fsamod.FSA
    mon = run.monitor("views-coherent", min_events=50)

    def invariant(obj, method, result):
        for o in (obj, result):
            if isinstance(o, FSA) and hasattr(o, "_graph_dict") \
                    and hasattr(o, "_out_dict") and hasattr(o, "_in_dict"):
                if o in _tainted:
                    mon.skip("non-deterministic or otherwise out-of-domain history")
                    continue
                probs = view_problems(o)
                if probs:
                    for key, what in probs[:1]:
                        mon.fail("views/%s/after:%s" % (key, method), what,
                                 case={"history": _state.get("history"),
                                       "views": describe(o)})
                else:
                    mon.ok()
    attach.attach_invariant(run, FSA, invariant)
    sanit.watch_defaults([FSA.__init__.__gtmon_original__,
                          __import__("geometry_tools.automata.kbmag_utils",
                                     fromlist=["x"]).build_dict])

    # relabel-law: ambient postcondition on *every* rename_generators call,
    # whoever makes it (the workloads, CoxeterGroup.automaton(), the repo's
    # tests).  The map is applied by plain indexing of the caller's object, so
    # dict, list and tuple maps are judged alike (seeded change C09-r3-1: a
    # 'lenient' `label in rename_map` test looks at the *values* of a sequence
    # map, leaving integer labels unrenamed -- three coherent views of the
    # wrong edge set).
    rl = run.monitor("relabel-law", min_events=20)

    def rename_pre(call):
        b = call.bound()
        obj = b.get("self")
        if not isinstance(obj, FSA) or obj in _tainted or view_problems(obj):
            return None
        ge, _oe, _ie, gv, _ov, _iv = fsa_model.lib_views(obj)
        return (ge, gv)

    def rename_post(call, state):
        if state is None:
            return rl.skip("automaton out of domain or incoherent before the call")
        if call.exc is not None:
            return      # the exception itself reaches the workload / run_case
        b = call.bound()
        obj, mp, inplace = b.get("self"), b.get("rename_map"), b.get("inplace")
        ge, gv = state
        labs = {l for (_v, _w, l) in ge}
        full, why = resolve_map(mp, labs)
        if full is None:
            return rl.skip(why)
        kind = map_kind(mp)
        want = sorted({(v, w, full[l]) for (v, w, l) in ge}, key=repr)
        case = {"history": _state.get("history"), "rename_map": repr(mp),
                "inplace": bool(inplace),
                "edges_before": [list(map(repr, e)) for e in ge]}
        target = obj if inplace else call.result
        if not isinstance(target, FSA):
            return rl.skip("no automaton returned")
        bad = edge_view_mismatch(target, want, gv)
        if bad:
            case["views"] = describe(target)
            return rl.fail("relabel/%s/map:%s/inplace:%s" % (bad[0], kind, bool(inplace)),
                           "after rename_generators(%r): %s" % (mp, bad[1]), case)
        if not inplace:
            bad = edge_view_mismatch(obj, sorted(set(ge), key=repr), gv)
            if bad:
                case["views"] = describe(obj)
                return rl.fail("relabel/source-changed/%s/map:%s" % (bad[0], kind),
                               "rename_generators(inplace=False) changed the automaton "
                               "it was called on: %s" % bad[1], case)
        rl.ok()
    attach.wrap_attr(run, FSA, "rename_generators", rename_post, pre=rename_pre)

    run.monitor("history-model", min_events=50)
    run.monitor("kbmag-roundtrip", min_events=5)
    run.monitor("routes", min_events=5)


# ---------------------------------------------------------------------------
# history machinery

V3 = [0, 1, 2]
L2 = ["a", "b"]


def dense_ops():
    ops = []
    for v in V3:
        ops.append(("add_vertices", [v]))
    for t in V3:
        for h in V3:
            for l in L2:
                ops.append(("add_edge", t, h, l))
    for t in V3:
        for h in V3:
            ops.append(("add_edges_elist", t, h, ["a", "b"]))
    for v in V3:
        ops.append(("delete_vertex", v))
    for t in V3:
        for h in V3:
            ops.append(("query", t, h))
    ops.append(("recurrent_inplace",))
    ops.append(("recurrent_copy",))
    ops.append(("rename", {"a": "b", "b": "a"}, True))
    ops.append(("rename", {"a": "x", "b": "y"}, False))
    ops.append(("deepcopy",))
    # sequence rename maps (in domain on integer-labelled automata only): new
    # names disjoint from / overlapping the old integer labels (C09-r3-1)
    ops.append(("rename_seq", "list", ["a", "b"], True))
    ops.append(("rename_seq", "tuple", [1, "a"], False))
    # one add_edges call with several edges: a walk running along an edge
    # twice, a loop named twice, overlapping label lists, and a batch of
    # distinct edges with the redundancy filter switched off (C09-r4-2)
    ops.append(("add_edges_batch", [(0, 1, "a"), (1, 0, "b"), (0, 1, "a")], False, True))
    ops.append(("add_edges_batch", [(2, 2, "b"), (2, 1, "a"), (2, 2, "b")], False, True))
    ops.append(("add_edges_batch", [(1, 2, ["a"]), (1, 2, ["b", "a"])], True, True))
    ops.append(("add_edges_batch", [(1, 2, "a"), (2, 1, "b"), (1, 2, "a")], False, False))
    # the edge collection as a tuple of exactly three edges (C09-r8-1)
    ops.append(("add_edges_batch", [(0, 1, "a"), (1, 2, "b"), (2, 0, "a")], False, True, [], "tuple"))
    # shallow copies: go on editing the copy / go on editing the original, the
    # other object stays live in the history's world (C09-r3-2)
    ops.append(("copy",))
    ops.append(("copy_keep",))
    return ops


DENSE_OPS = dense_ops()
ROUTES = ["empty", "label_dict", "label_dict_hidden", "target_dict",
          "deepcopy", "free", "int_labels", "copy", "fresh_names"]
DENSE_TOTAL = len(ROUTES) * len(DENSE_OPS) ** 3


def build_route(route, rng=None, universe=None):
    """-> (library FSA, model)."""
    from geometry_tools.automata import fsa as fsamod
    if route == "empty":
        return fsamod.FSA(), fsa_model.Model()
    if route == "label_dict":
        d = {0: {"a": 1}, 1: {"b": 0, "a": 1}, 2: {}}
        return fsamod.FSA(d, start_vertices=[0]), fsa_model.Model.from_label_dict(d, [0])
    if route == "label_dict_hidden":
        d = {0: {"a": 1, "b": 2}}
        return fsamod.FSA(d, start_vertices=[0]), fsa_model.Model.from_label_dict(d, [0])
    if route == "target_dict":
        d = {0: {1: ["a", "b"]}, 1: {1: ["a"]}, 2: {0: ["b"]}}
        return (fsamod.FSA(d, start_vertices=[0], graph_dict=False),
                fsa_model.Model.from_target_dict(d, [0]))
    if route == "deepcopy":
        d = {0: {"a": 1}, 1: {"a": 2}, 2: {"a": 0, "b": 2}}
        return (copy.deepcopy(fsamod.FSA(d, start_vertices=[0])),
                fsa_model.Model.from_label_dict(d, [0]))
    if route == "int_labels":
        d = {0: {0: 1, 1: 2}, 1: {1: 0}, 2: {0: 2}}
        return fsamod.FSA(d, start_vertices=[0]), fsa_model.Model.from_label_dict(d, [0])
    if route == "copy":
        d = {0: {"a": 1, "b": 2}, 1: {"a": 1}, 2: {"a": 0, "b": 2}}
        return (copy.copy(fsamod.FSA(d, start_vertices=[0])),
                fsa_model.Model.from_label_dict(d, [0]))
    if route == "fresh_names":
        # tuple-named vertices, labels assembled at run time: the dense ops
        # name them by freshly built equal objects (DENSE_NAMING)
        nm = DENSE_NAMING[route]
        d = {0: {"a": 1, "b": 2}, 1: {"a": 2, "b": 1}, 2: {"a": 0}}
        return (fsamod.FSA(nm.graph(d), start_vertices=[nm.v(0)]),
                fsa_model.Model.from_label_dict(nm.graph(d), [nm.v(0)]))
    if route == "free":
        F = fsamod.free_automaton("a")
        gens = ["a", "A"]
        d = {g: {h: h for h in gens if not (h.swapcase() == g)} for g in [""] + gens}
        return F, fsa_model.Model.from_label_dict(d, [""])
    raise ValueError(route)


VERTEX_SCHEMES = ["tuple", "bigint", "negint", "built-str", "float", "mixed"]
LABEL_SCHEMES = [None, "built-str", "tuple"]
BIGINT_BASE = 260


class Naming:
    """Vertex (and label) names that are NOT cached singletons, built afresh
    at every mention.  Histories are generated over the abstract universe
    0..n-1 / 'a','b',...; a Naming turns each abstract vertex i into a name of
    a given class -- tuple (i, 'v'), int > 256, int < -5, string assembled at
    run time, float, or a mix -- and constructs a *new, equal* object every
    time an operation names the vertex (route dictionaries: keys and targets
    separately; delete_vertex / delete_vertices / add_edges / add_vertices /
    has_edge / edge_labels / rename maps).  The library may therefore never
    rely on the object it is handed being the object it stored (seeded change
    C09-r5-1: delete_vertex selecting stale labels with `head is vertex`;
    small ints and interned short strings hide that)."""

    def __init__(self, vertices, labels=None):
        self.vertices, self.labels = vertices, labels

    def __str__(self):
        return "names:%s/%s" % (self.vertices, self.labels or "plain-labels")

    def v(self, i, scheme=None):
        scheme = scheme or self.vertices
        if not isinstance(i, int) or isinstance(i, bool):
            return i
        if scheme == "tuple":
            return (int(i), "".join(["v"]))
        if scheme == "bigint":
            return BIGINT_BASE + i
        if scheme == "negint":
            return -10 - i
        if scheme == "built-str":
            return "".join(["state-", str(i)])
        if scheme == "float":
            return i + 0.5
        return self.v(i, ["tuple", "bigint", "built-str", "negint"][i % 4])

    def l(self, x):
        if self.labels is None or not isinstance(x, str):
            return x
        if self.labels == "built-str":
            return "".join([x, "'"])
        return (str(x), len(x))

    def graph(self, d):
        return {self.v(v): {self.l(l): self.v(w) for l, w in nb.items()}
                for v, nb in d.items()}

    def op(self, op):
        """the same operation with every vertex / label freshly named."""
        k, v, l = op[0], self.v, self.l
        if k in ("add_vertices", "delete_vertices"):
            return (k, [v(x) for x in op[1]])
        if k == "add_edge":
            return (k, v(op[1]), v(op[2]), l(op[3]))
        if k == "add_edges_elist":
            return (k, v(op[1]), v(op[2]), [l(x) for x in op[3]])
        if k == "add_edges_batch":
            tr = [(v(t), v(h), [l(x) for x in lab] if op[2] else l(lab))
                  for (t, h, lab) in op[1]]
            return (k, tr) + tuple(op[2:])
        if k == "add_edges_walk":
            return (k, v(op[1]), [l(x) for x in op[2]], [v(x) for x in op[3]], op[4])
        if k == "delete_vertex":
            return (k, v(op[1]))
        if k == "query":
            return (k, v(op[1]), v(op[2]))
        if k == "rename":
            return (k, {l(a): l(b) for a, b in op[1].items()}, op[2])
        return op


DENSE_NAMING = {"fresh_names": Naming("tuple", "built-str")}


def random_route(rng, int_labels=False, shallow=False, naming=None):
    """int_labels: the alphabet is 0..k-1 (as the Coxeter automaton generator
    produces) instead of strings; shallow: the copy route uses copy.copy
    instead of copy.deepcopy; naming: vertex / label names of a non-singleton
    class (the returned `labels` stay abstract: run_history(naming=...)
    names them).  (Same random draws in every variant.)"""
    from geometry_tools.automata import fsa as fsamod
    nv = int(rng.integers(1, 7))
    labels = ([0, 1, 2, 3] if int_labels else ["a", "b", "c", "ab"])[:int(rng.integers(1, 5))]
    verts = list(range(nv))
    kind = ["label", "target", "deepcopy", "gap"][int(rng.integers(0, 4))]
    d = {}
    for v in verts:
        d[v] = {}
        for l in labels:
            if rng.random() < 0.45:
                # targets may be 'hidden' (not a key) for the label route
                hi = nv + 1 if kind != "target" else nv
                d[v][l] = int(rng.integers(0, hi))
    s0 = 0
    if naming is not None:
        if kind == "gap" and naming.vertices != "bigint":
            kind = "label"          # kbmag states are integers
        if kind != "gap":
            d, s0 = naming.graph(d), naming.v(0)
    model = fsa_model.Model.from_label_dict(d, [s0])
    if kind == "label":
        return "rand_label", fsamod.FSA(d, start_vertices=[s0]), model, labels
    if kind == "deepcopy":
        if shallow:
            return "rand_copy", copy.copy(fsamod.FSA(d, start_vertices=[s0])), model, labels
        return "rand_deepcopy", copy.deepcopy(fsamod.FSA(d, start_vertices=[s0])), model, labels
    if kind == "gap":
        # through the kbmag table route: vertices 1..n, 0 = fail.  Every
        # second record names a random subset of the states as `accepting`
        # (the word-acceptor convention [1..n] is only one possibility): the
        # automaton is the written table whatever that field says
        # (seeded change C09-r5-3)
        n = nv
        table = [[int(rng.integers(0, n + 1)) if rng.random() < 0.6 else 0
                  for _ in labels] for _ in range(n)]
        base = 0
        names = labels
        if naming is not None:
            # a record with several hundred states: the states the history
            # works on are BIGINT_BASE+1.., ints that are not cached singletons
            base = BIGINT_BASE
            table = [[0] * len(labels) for _ in range(base)] + \
                [[t + base if t else 0 for t in row] for row in table]
            names = [naming.l(l) for l in labels]
        nst = len(table)
        acc = [q for q in range(1, nst + 1) if (q * 7 + n) % 3 != 0] if n % 2 else \
            list(range(1, nst + 1))
        rec = {"x": {"isFSA": "true", "alphabet": {"names": names},
                     "table": {"transitions": table}, "initial": [base + 1],
                     "accepting": acc}}
        dd = {i + 1: {l: t for l, t in zip(names, row) if t != 0}
              for i, row in enumerate(table)}
        return ("rand_gap", fsamod._from_gap_record(rec),
                fsa_model.Model.from_label_dict(dd, [base + 1]), labels)
    td = {}
    for v, nb in d.items():
        td[v] = {}
        for l, w in nb.items():
            td[v].setdefault(w, []).append(l)
    return ("rand_target", fsamod.FSA(td, start_vertices=[s0], graph_dict=False),
            fsa_model.Model.from_target_dict(td, [s0]), labels)


# containers DRIVEN by the workload: the documented kind (list) and the tuple,
# the sequence type any list-iterating implementation accepts.  The other
# kinds pack_edges can build (iterators, generators, deques, dict views) and
# list-valued edges are not driven: the docstring of add_edges says "a list of
# tuples", and a correct implementation may iterate the collection twice,
# take its length or hash an edge.
EDGE_CONTAINERS = ["list", "tuple"]


def pack_edges(edges, container="auto"):
    """The edge collection handed to ONE add_edges call, in a given container
    kind.  add_edges only iterates over its argument once and unpacks each
    edge, so any iterable of 3-sequences is a collection of edges whatever its
    type and LENGTH: list, tuple, iterator, generator, deque, dict views; the
    edges themselves tuples or lists (seeded change C09-r8-1: a tuple of
    length 3 taken for one (tail, head, label) edge, so a tuple of exactly
    three edges becomes one bogus edge between tuple-named vertices).
    'auto' picks kind and edge form from the content (deterministic, varies
    from call to call).  dict_keys needs hashable edges and drops repeats of
    a triple (the requested edge *set* is the same)."""
    edges = list(edges)
    h = len(repr(edges))
    if container == "auto":
        container = EDGE_CONTAINERS[h % len(EDGE_CONTAINERS)]
    as_list = False          # edges stay tuples, as documented
    if container == "dict_keys":
        try:
            return dict.fromkeys(tuple(e) for e in edges).keys()
        except TypeError:               # elist mode: label lists are unhashable
            container = "tuple"
    edges = [list(e) if as_list else tuple(e) for e in edges]
    if container == "tuple":
        return tuple(edges)
    if container == "iterator":
        return iter(edges)
    if container == "generator":
        return (e for e in edges)
    if container == "deque":
        return collections.deque(edges)
    if container == "dict_values":
        return dict(enumerate(edges)).values()
    return edges


def resolve_batch(M, triples, elist, ignore_redundant, picks=()):
    """The in-domain edge list one add_edges call is given, worked out against
    the model at the moment of the call:
      * `picks` splice edges the automaton already has into the batch;
      * a triple that would make the automaton non-deterministic (w.r.t. the
        automaton or an earlier triple of the same batch) is dropped;
      * repeats -- of an edge already present or of an earlier triple of the
        batch -- stay in when ignore_redundant is True (the documented default:
        the repeat is ignored, the edge is stored once); with
        ignore_redundant=False the caller vouches that no edge is redundant,
        so repeats are taken out of the batch (then the result is again the
        plain set union);
      * elist mode: labels repeated inside one label list are out of domain
        (dropped), an emptied list drops its triple."""
    batch = [(t, h, list(l) if elist else l) for (t, h, l) in triples]
    have = M.edges()
    for p in picks:
        if have:
            v, w, l = have[p % len(have)]
            batch.insert(p % (len(batch) + 1), (v, w, [l] if elist else l))
    local = dict(M.delta)
    out = []
    for (t, h, l) in batch:
        keep = []
        for lab in (l if elist else [l]):
            if lab in keep or local.get((t, lab), h) != h:
                continue
            if not ignore_redundant and (t, lab) in local:
                continue
            keep.append(lab)
        for lab in keep:
            local[(t, lab)] = h
        if keep:
            out.append((t, h, keep if elist else keep[0]))
    return out


def apply_op(op, F, M):
    """Apply op to library automaton F and model M.  Returns (F, M, status)
    where status is 'ok' or an out-of-domain reason (then F is tainted)."""
    kind = op[0]
    if kind == "add_vertices":
        F.add_vertices(list(op[1]))
        M.add_vertices(op[1])
    elif kind == "add_edge":
        _, t, h, l = op
        if M.delta.get((t, l), h) != h:
            return F, M, "non-deterministic insertion"
        F.add_edges(pack_edges([(t, h, l)]))
        M.add_edge(t, h, l)
    elif kind == "add_edges_elist":
        _, t, h, ls = op
        if any(M.delta.get((t, l), h) != h for l in ls):
            return F, M, "non-deterministic insertion"
        if len(set(ls)) != len(ls):
            return F, M, "duplicate labels in one elist"
        F.add_edges(pack_edges([(t, h, list(ls))]), elist=True)
        for l in ls:
            M.add_edge(t, h, l)
    elif kind in ("add_edges_batch", "add_edges_walk"):
        # ONE add_edges call carrying several edges (seeded change C09-r4-2:
        # the redundancy filter evaluated once for the whole batch, so a triple
        # repeated inside the batch is listed twice in two of the views)
        if kind == "add_edges_walk":
            # the edge list of a walk: it follows the automaton where the
            # (vertex, label) transition exists -- also one the walk itself made
            # a moment ago -- and moves to the pre-drawn vertex otherwise
            _, start, labs, heads, ign = op
            elist, picks, triples = False, (), []
            local, v = dict(M.delta), start
            for l, h in zip(labs, heads):
                w = local.setdefault((v, l), h)
                triples.append((v, w, l))
                v = w
        else:
            _, triples, elist, ign = op[:4]
            picks = op[4] if len(op) > 4 else ()
        container = op[5] if kind == "add_edges_batch" and len(op) > 5 else "auto"
        batch = resolve_batch(M, triples, elist, ign, picks)
        # (a batch emptied by the domain filter is still a call: size 0)
        F.add_edges(pack_edges([(t, h, list(l) if elist else l) for (t, h, l) in batch],
                               container),
                    elist=bool(elist), ignore_redundant=bool(ign))
        for (t, h, l) in batch:
            for lab in (l if elist else [l]):
                M.add_edge(t, h, lab)
    elif kind == "delete_vertex":
        if op[1] not in M.vertices:
            return F, M, "delete of a missing vertex"
        F.delete_vertex(op[1])
        M.delete_vertex(op[1])
    elif kind == "delete_vertices":
        vs = [v for v in op[1] if v in M.vertices]
        vs = list(dict.fromkeys(vs))
        F.delete_vertices(vs)
        for v in vs:
            M.delete_vertex(v)
    elif kind == "recurrent_inplace":
        F.recurrent(inplace=True)
        M = M.recurrent()
    elif kind == "recurrent_copy":
        F = F.recurrent(inplace=False)
        M = M.recurrent()
    elif kind == "rename":
        _, mp, inplace = op
        labs = {l for (_v, l) in M.delta}
        full = {l: mp.get(l, l) for l in labs}
        if len(set(full.values())) != len(full):
            return F, M, "non-injective rename"
        if inplace:
            F.rename_generators(full, inplace=True)
        else:
            F = F.rename_generators(full, inplace=False)
        M = M.copy()
        M.rename(full)
    elif kind == "rename_seq":
        # the map is a *sequence* indexed by integer labels -- the form
        # CoxeterGroup.automaton() itself passes (ordered_gens is a list);
        # also handed over as a dict with keys 0..n-1 for comparison
        _, container, seq, inplace = op
        labs = {l for (_v, l) in M.delta}
        full, why = resolve_map(list(seq), labs)
        if full is None:
            return F, M, why
        mp = {"list": list(seq), "tuple": tuple(seq),
              "dict": dict(enumerate(seq))}[container]
        if inplace:
            F.rename_generators(mp, inplace=True)
        else:
            F = F.rename_generators(mp, inplace=False)
        M = M.copy()
        M.rename(full)
    elif kind in ("deepcopy", "deepcopy_keep"):
        F = copy.deepcopy(F)
        M = M.copy()
    elif kind in ("copy", "copy_keep"):
        # whether the shallow copy is the same automaton or an independent one
        # is for World.apply to observe (full_alias); the model content at the
        # moment of copying is the same either way
        F = copy.copy(F)
        M = M.copy()
    elif kind == "switch":
        pass            # world-level: which live object the next edits go through
    elif kind == "query":
        # read-only adjacency queries between two existing vertices, adjacent or
        # not: they must not change any view (seeded change C09-r2-2: has_edge /
        # edge_labels auto-creating an empty outgoing entry, after which
        # add_edges / delete_vertex raise and recurrent() keeps dead ends)
        _, t, h = op
        if t not in M.vertices or h not in M.vertices:
            return F, M, "query on a missing vertex"
        want = sorted((l for (u, l), w in M.delta.items() if u == t and w == h), key=repr)
        got_has = F.has_edge(t, h)
        got_labels = sorted(F.edge_labels(t, h), key=repr)
        list(F.edges_out(t))
        list(F.edges_in(h))
        list(F.neighbors_out(t))
        list(F.neighbors_in(h))
        if got_has != bool(want) or got_labels != want:
            return F, M, "VIOLATION:has_edge=%r edge_labels=%r, the model has %r" % (
                got_has, got_labels, want)
    return F, M, "ok"


def compare(run, F, M, step, history, role=""):
    """views of F == set model M (and coherent).  `role` marks a live object
    of the history other than the one the step went through."""
    mon = run.monitor("history-model")
    ge, oe, ie, gv, ov, iv = fsa_model.lib_views(F)
    want = sorted(M.edges(), key=repr)

    def case():
        return {"history": history, "step": step, "object": role or "edited-object",
                "views": describe(F),
                "model_edges": [list(map(repr, e)) for e in want],
                "model_vertices": sorted(map(repr, M.vertices))}
    opk = history[step][0] if 0 <= step < len(history) else "construct"
    if sorted(set(ge), key=repr) != want:
        return mon.fail("model/%slabel-view/after:%s" % (role, opk),
                        "label view %r != set model %r" % (ge[:6], want[:6]), case())
    if sorted(set(oe), key=repr) != want:
        return mon.fail("model/%soutgoing-view/after:%s" % (role, opk),
                        "outgoing view %r != set model %r" % (oe[:6], want[:6]), case())
    if sorted(set(ie), key=repr) != want:
        return mon.fail("model/%sincoming-view/after:%s" % (role, opk),
                        "incoming view %r != set model %r" % (ie[:6], want[:6]), case())
    if gv != M.vertices:
        return mon.fail("model/%svertices/after:%s" % (role, opk),
                        "vertex set %r != model %r" % (sorted(gv, key=repr),
                                                       sorted(M.vertices, key=repr)), case())
    probs = view_problems(F, (ge, oe, ie, gv, ov, iv))
    if probs:
        return mon.fail("model/%s%s/after:%s" % (role, probs[0][0], opk), probs[0][1], case())
    mon.ok()
    return True


class World:
    """The live automata of one history.  Every object the history produced
    (shallow and deep copies, non-inplace results) *and the object each was
    made from* stays here with the set model of the history that very object
    underwent, and all of them are judged after every step -- not only the
    object the step went through (seeded change C09-r3-2: a shallow __copy__
    sharing the per-vertex rows, so that editing the copy corrupts the views
    of the source, which no later call ever looked at).

    Which objects are one automaton is observed, not assumed: objects whose
    three view dictionaries are the very same objects (full_alias) share one
    Model instance, so an edit through one IS an edit of the others; as soon
    as an object's dictionaries are its own (copy.deepcopy, a rebuilding
    in-place relabelling, an independent __copy__) it keeps the model it had
    and later edits through the other object are not part of its history."""
    MAX_LIVE = 4

    def __init__(self, F, M, naming=None):
        self.objs = [[F, M]]
        self.cur = 0
        self.naming = naming

    @property
    def F(self):
        return self.objs[self.cur][0]

    @property
    def M(self):
        return self.objs[self.cur][1]

    def apply(self, op):
        kind = op[0]
        if kind == "switch":
            if len(self.objs) < 2:
                return "switch with a single live automaton"
            self.cur = (self.cur - 1) % len(self.objs)
            return "ok"
        F, M = self.objs[self.cur]
        group = [e for e in self.objs if e[1] is M]
        before = M.copy()
        if self.naming is not None:
            op = self.naming.op(op)     # fresh, equal name objects at every mention
        F2, M2, status = apply_op(op, F, M)
        if status != "ok":
            return status
        for e in group:
            e[1] = M2 if (e[0] is F2 or full_alias(e[0], F2)) else before
        if F2 is not F:
            self.objs.append([F2, M2])
            if not kind.endswith("_keep"):
                self.cur = len(self.objs) - 1
            while len(self.objs) > self.MAX_LIVE:
                drop = 0 if self.cur != 0 else 1
                del self.objs[drop]
                if self.cur > drop:
                    self.cur -= 1
        return "ok"

    def check(self, run, step, hist):
        """the object the step went through first (existing keys), then every
        other live object against its own model."""
        if not compare(run, self.F, self.M, step, hist):
            return False
        for i, (G, MG) in enumerate(self.objs):
            if i != self.cur and not compare(run, G, MG, step, hist, role="other-object/"):
                return False
        return True


def run_history(run, route_name, F, M, ops, F2=None, M2=None, ops2=(),
                naming=None, naming2=None):
    """Apply ops to (F, M); optionally interleave ops2 on a second,
    independent automaton (cross-instance leakage shows as a model mismatch).
    With a Naming the (abstract) ops are given freshly built vertex / label
    names at every step."""
    hist = [list(o) for o in ops]
    if naming is not None:
        route_name = "%s/%s" % (route_name, naming)
    _state["history"] = {"route": route_name, "ops": hist}
    run.current_case = _state["history"]
    W = World(F, M, naming)
    if not W.check(run, -1, hist):
        return
    W2 = World(F2, M2, naming2) if F2 is not None else None
    hist2 = [list(o) for o in ops2]
    nontrivial = False
    kinds = []
    for k, op in enumerate(ops):
        if len(W.M.delta) > 0:
            nontrivial = True
        status = W.apply(op)
        if status.startswith("VIOLATION:"):
            run.monitor("history-model").fail("model/adjacency-query/wrong-answer", status[10:],
                                              {"history": hist, "step": k})
            return
        if status != "ok":
            run.monitor("history-model").skip(status)
            continue
        kinds.append(op[0])
        if not W.check(run, k, hist):
            return
        if W2 is not None and k < len(ops2):
            st2 = W2.apply(ops2[k])
            if st2 == "ok":
                if not W2.check(run, k, hist2):
                    return
                # and the first automaton is untouched by edits to the second
                if not W.check(run, k, hist):
                    return
    if nontrivial and kinds:
        run.note_class(route_name, ",".join(sorted(set(kinds))),
                       len(W.M.vertices), len(W.M.delta))
    _state["history"] = None


def wl_dense(run, rng, idx):
    """every history of depth 3 (thorough: all DENSE_TOTAL; quick: sampled)."""
    if run.tier == "thorough":
        code = idx
    else:
        code = int(rng.integers(0, DENSE_TOTAL))
    n = len(DENSE_OPS)
    r, code = code % len(ROUTES), code // len(ROUTES)
    ops = []
    for _ in range(3):
        ops.append(DENSE_OPS[code % n])
        code //= n
    F, M = build_route(ROUTES[r])
    run_history(run, ROUTES[r], F, M, ops, naming=DENSE_NAMING.get(ROUTES[r]))
    if idx < 3:
        run.sample({"route": ROUTES[r], "ops": ops})


def wl_dense_block(run, rng, idx):
    """thorough tier: one index = a block of 256 consecutive dense histories."""
    n = len(DENSE_OPS)
    for code0 in range(idx * 256, min((idx + 1) * 256, DENSE_TOTAL)):
        code = code0
        r, code = code % len(ROUTES), code // len(ROUTES)
        ops = []
        for _ in range(3):
            ops.append(DENSE_OPS[code % n])
            code //= n
        F, M = build_route(ROUTES[r])
        run_history(run, ROUTES[r], F, M, ops, naming=DENSE_NAMING.get(ROUTES[r]))
    run.extra["dense_histories"] = run.extra.get("dense_histories", 0) + \
        (min((idx + 1) * 256, DENSE_TOTAL) - idx * 256)


def random_ops(rng, labels, depth, nv=7):
    ops = []
    for _ in range(depth):
        r = rng.random()
        t, h = int(rng.integers(0, nv)), int(rng.integers(0, nv))
        if r < 0.05:
            ops.append(random_batch(rng, labels, nv))
        elif r < 0.35:
            ops.append(("add_edge", t, h, labels[int(rng.integers(0, len(labels)))]))
        elif r < 0.45:
            k = int(rng.integers(1, len(labels) + 1))
            ls = [labels[i] for i in rng.permutation(len(labels))[:k]]
            ops.append(("add_edges_elist", t, h, ls))
        elif r < 0.55:
            ops.append(("add_vertices", [t, h]))
        elif r < 0.70:
            ops.append(("delete_vertex", t))
        elif r < 0.75:
            ops.append(("delete_vertices", [t, h]))
        elif r < 0.80:
            ops.append(("recurrent_inplace",))
        elif r < 0.85:
            ops.append(("recurrent_copy",))
        elif r < 0.88:
            ops.append(("query", t, h))
        elif r < 0.94:
            perm = list(rng.permutation(len(labels)))
            mp = {labels[i]: labels[perm[i]] for i in range(len(labels))}
            inplace = bool(rng.random() < 0.5)
            if all(isinstance(l, int) for l in labels) and rng.random() < 0.7:
                ops.append(random_rename_seq(rng, len(labels), inplace))
            else:
                ops.append(("rename", mp, inplace))
        elif r < 0.955:
            ops.append(("deepcopy",))
        elif r < 0.97:
            ops.append(("copy",))
        elif r < 0.98:
            ops.append(("copy_keep",))
        elif r < 0.99:
            ops.append(("deepcopy_keep",))
        else:
            ops.append(("switch",))
    return ops


BATCH_STYLES = ["repeats", "walk", "with-existing", "elist"]


def random_batch(rng, labels, nv, style=None, ignore_redundant=None, container="auto"):
    """one add_edges call with several edges.  repeats: triples drawn with
    replacement from a small pool, one of them named again; walk: the edge
    list of a random walk (short, few vertices: it re-uses its own edges);
    with-existing: as repeats, plus edges the automaton already has spliced
    in at apply time; elist: (tail, head, [labels]) triples with repeated
    pairs and overlapping label lists."""
    style = style or BATCH_STYLES[int(rng.integers(0, 4))]
    ign = bool(rng.random() < 0.75) if ignore_redundant is None else bool(ignore_redundant)
    nl = len(labels)
    if style == "walk":
        n = int(rng.integers(2, 9))
        span = int(rng.integers(2, min(nv, 4) + 1))
        return ("add_edges_walk", int(rng.integers(0, span)),
                [labels[int(rng.integers(0, nl))] for _ in range(n)],
                [int(rng.integers(0, span)) for _ in range(n)], ign)
    k = int(rng.integers(2, 6))
    span = int(rng.integers(2, nv + 1))
    if style == "elist":
        triples = []
        for _ in range(k):
            m = int(rng.integers(1, nl + 1))
            triples.append((int(rng.integers(0, span)), int(rng.integers(0, span)),
                            [labels[i] for i in rng.permutation(nl)[:m]]))
    else:
        triples = [(int(rng.integers(0, span)), int(rng.integers(0, span)),
                    labels[int(rng.integers(0, nl))]) for _ in range(k)]
    for _ in range(int(rng.integers(1, 3))):      # name an earlier triple again
        t, h, l = triples[int(rng.integers(0, len(triples)))]
        triples.insert(int(rng.integers(0, len(triples) + 1)),
                       (t, h, list(l) if style == "elist" else l))
    picks = [int(rng.integers(0, 64)) for _ in range(int(rng.integers(1, 3)))] \
        if style == "with-existing" else []
    return ("add_edges_batch", triples, style == "elist", ign, picks, container)


def wl_batches(run, rng, idx):
    """histories whose insertions are whole batches: style idx % 4 (repeated
    triples / walk re-using an edge / edges already present / elist), every
    third case of a style with ignore_redundant=False, interleaved with the
    other edits; string and integer labels, every route (C09-r4-2)."""
    style = BATCH_STYLES[idx % 4]
    ign = (idx // 4) % 3 != 2
    nm = pick_naming(idx // 3, idx % 5 == 4) if idx % 3 == 1 else None
    name, F, M, labels = random_route(rng, int_labels=idx % 5 == 4, shallow=idx % 7 == 6,
                                      naming=nm)
    ops = []
    for _ in range(int(rng.integers(1, 5))):
        # container kind of the edge collection: (idx // 4) % 2, independent of the
        # style idx % 4; sizes 0..8 arise from the batch generator and domain filter
        ops.append(random_batch(rng, labels, 7, style, ign,
                                EDGE_CONTAINERS[(idx // 4) % len(EDGE_CONTAINERS)]))
        ops.extend(random_ops(rng, labels, int(rng.integers(0, 3))))
    run_history(run, name + "/batch:%s:%s" % (style, "filtered" if ign else "unfiltered"),
                F, M, ops, naming=nm)
    if idx < 2:
        run.sample({"route": name, "ops": ops[:6]})


SEQ_CONTAINERS = ["list", "tuple", "dict"]
SEQ_STYLES = ["fresh", "permutation", "overlap"]


def random_rename_seq(rng, n, inplace, container=None, style=None):
    """a rename op whose map is a sequence over the integer labels 0..n-1.
    fresh: new names are strings; permutation: new names are the old labels
    shuffled (stays integer-labelled, so relabellings can be chained);
    overlap: some new names are other old labels, some are strings."""
    container = container or SEQ_CONTAINERS[int(rng.integers(0, 3))]
    style = style or SEQ_STYLES[int(rng.integers(0, 3))]
    fresh = ["x", "y", "z", "w", "xy", "u"][:max(n, 1)]
    perm = [int(i) for i in rng.permutation(n)]
    if style == "fresh":
        seq = list(fresh[:n])
    elif style == "permutation":
        seq = perm
    else:
        seq = [perm[i] if rng.random() < 0.5 else fresh[i] for i in range(n)]
    extra = int(rng.integers(0, 2))        # maps may be longer than needed
    seq = seq + ["q%d" % i for i in range(extra)]
    return ("rename_seq", container, seq, bool(inplace))


def wl_random(run, rng, idx):
    # every third history is over integer labels (sequence rename maps are in
    # domain there), every fifth starts from a shallow copy
    ints = idx % 3 == 1
    # every fourth over vertex names that are not cached singletons
    nm = pick_naming(idx // 4, ints) if idx % 4 == 3 else None
    nm2 = pick_naming(idx // 8 + 2, ints and idx % 2 == 0) if idx % 8 == 5 else None
    name, F, M, labels = random_route(rng, int_labels=ints, shallow=idx % 5 == 2, naming=nm)
    name2, F2, M2, labels2 = random_route(rng, int_labels=ints and idx % 2 == 0, naming=nm2)
    if ints:
        name += ":int-labels"
    depth = int(rng.integers(1, 31))
    ops = random_ops(rng, labels, depth)
    ops2 = random_ops(rng, labels2, depth)
    run_history(run, name, F, M, ops, F2, M2, ops2, naming=nm, naming2=nm2)
    if idx < 3:
        run.sample({"route": name, "ops": ops[:8]})


def pick_naming(k, int_labels=False):
    """the k-th (vertex scheme, label scheme) combination."""
    vs = VERTEX_SCHEMES[k % len(VERTEX_SCHEMES)]
    ls = None if int_labels else LABEL_SCHEMES[(k // len(VERTEX_SCHEMES)) % len(LABEL_SCHEMES)]
    return Naming(vs, ls)


def wl_fresh_names(run, rng, idx):
    """histories over vertex / label names that are equal-but-not-identical
    objects at every mention: vertex class idx % 6 (tuple, int > 256,
    int < -5, run-time string, float, mixed), label class (idx // 6) % 3,
    every route (incl. kbmag records with several hundred states for the
    big-int class), operations weighted towards those that NAME a vertex --
    delete_vertex / delete_vertices / recurrent of vertices with incoming
    edges, add_edges between existing vertices, adjacency queries
    (seeded change C09-r5-1)."""
    ints = idx % 11 == 7
    nm = pick_naming(idx, ints)
    name, F, M, labels = random_route(rng, int_labels=ints, shallow=idx % 5 == 4, naming=nm)
    nv = 7
    ops = []
    for o in random_ops(rng, labels, int(rng.integers(3, 16)), nv=nv):
        ops.append(o)
        r = rng.random()
        if r < 0.25:
            ops.append(("delete_vertex", int(rng.integers(0, nv))))
        elif r < 0.35:
            ops.append(("query", int(rng.integers(0, nv)), int(rng.integers(0, nv))))
    run_history(run, name, F, M, ops, naming=nm)
    if idx < 2:
        run.sample({"route": name, "naming": str(nm), "ops": ops[:8]})


def wl_relabel(run, rng, idx):
    """edit - relabel - edit histories on integer-labelled automata, the rename
    map given as list / tuple / dict (idx % 3), its new names fresh /
    a permutation of / overlapping the old labels ((idx // 3) % 3), in place or
    not ((idx // 9) % 2); every route incl. the Coxeter automaton generator,
    whose integer-labelled output CoxeterGroup.automaton() itself relabels
    with a list (seeded change C09-r3-1)."""
    container = SEQ_CONTAINERS[idx % 3]
    style = SEQ_STYLES[(idx // 3) % 3]
    inplace = bool((idx // 9) % 2)
    if idx % 6 == 5:
        from geometry_tools.automata import coxeter_automaton
        tri = COXETER_TRIANGLES[(idx // 6) % len(COXETER_TRIANGLES)]
        mat = [[1, tri[0], tri[1]], [tri[0], 1, tri[2]], [tri[1], tri[2], 1]]
        run.current_case = {"coxeter_matrix": mat}
        F = coxeter_automaton.generate_automaton_coxeter_matrix(mat, bool((idx // 18) % 2))
        probs = view_problems(F)
        if probs:
            return run.monitor("routes").fail(
                "routes/coxeter-generator/%s" % probs[0][0], probs[0][1],
                case={"coxeter_matrix": mat, "views": describe(F)})
        # the history starts at the (coherent) automaton as observed
        M = fsa_model.Model.from_label_dict({v: dict(nb) for v, nb in F.graph_dict.items()},
                                            list(F.start_vertices))
        name, labels = "coxeter-generator", [0, 1, 2]
        nv = 4
    else:
        name, F, M, labels = random_route(rng, int_labels=True, shallow=idx % 4 == 3)
        name += ":int-labels"
        nv = 7
    n = len(labels)
    plain = [o for o in random_ops(rng, labels, int(rng.integers(0, 6)), nv=nv)
             if not o[0].startswith("rename")]
    ren = random_rename_seq(rng, n, inplace, container, style)
    after_labels = [x for x in ren[2][:n]]
    tail = random_ops(rng, after_labels if rng.random() < 0.6 else labels,
                      int(rng.integers(1, 8)), nv=nv)
    run_history(run, name + "/relabel:%s:%s" % (container, style), F, M,
                plain + [ren] + tail)
    if idx < 2:
        run.sample({"route": name, "ops": (plain + [ren] + tail)[:8]})


COXETER_TRIANGLES = [(2, 3, 7), (3, 3, 4), (2, 4, 5), (3, 3, 3), (2, 2, 5),
                     (4, 4, 4), (2, 3, 0), (0, 0, 0), (3, 0, 5)]
COPIERS = [("copy",), ("copy_keep",), ("deepcopy",), ("deepcopy_keep",),
           ("recurrent_copy",), ("rename", {}, False)]


def wl_copy_edit(run, rng, idx):
    """copy route x structural edits with *both* objects live: the history
    makes a copy (copy.copy / copy.deepcopy / a non-inplace result; idx % 6),
    then edits go through the copy, through the original, or alternate
    (`switch`), and after every step each object must be coherent and equal
    the model of its own history (seeded change C09-r3-2)."""
    ints = idx % 7 == 3
    nm = pick_naming(idx // 5, ints) if idx % 5 == 2 else None
    name, F, M, labels = random_route(rng, int_labels=ints, shallow=idx % 4 == 1, naming=nm)
    copier = COPIERS[idx % len(COPIERS)]
    nv = 8          # one more than any route builds: edges to brand-new vertices
    pre = random_ops(rng, labels, int(rng.integers(0, 3)), nv=nv)
    ops = list(pre) + [copier]
    for o in random_ops(rng, labels, int(rng.integers(2, 12)), nv=nv):
        ops.append(o)
        if rng.random() < 0.2:
            ops.append(("switch",))
    run_history(run, name + "/copy-edit:" + copier[0], F, M, ops, naming=nm)
    if idx < 2:
        run.sample({"route": name, "ops": ops[:8]})


def wl_default_sharing(run, rng, idx):
    """two automata built with default arguments, edited in turn."""
    from geometry_tools.automata import fsa as fsamod
    A, B = fsamod.FSA(), fsamod.FSA()
    MA, MB = fsa_model.Model(), fsa_model.Model()
    labels = ["a", "b", "c"]
    opsA = random_ops(rng, labels, 12, nv=4)
    opsB = random_ops(rng, labels, 12, nv=4)
    run_history(run, "default_args", A, MA, opsA, B, MB, opsB)


def wl_shared_source(run, rng, idx):
    """two automata built from the *same* source dictionary (or from another
    automaton's own views): editing one must not change the other nor the
    caller's dictionary (seeded change C09-3: label lists aliased with the
    caller's dict on the target->labels route)."""
    from geometry_tools.automata import fsa as fsamod
    mon = run.monitor("history-model")
    nv = int(rng.integers(2, 6))
    labels = ["a", "b", "c"][:int(rng.integers(1, 4))]
    d = {v: {} for v in range(nv)}
    for v in range(nv):
        for l in labels:
            if rng.random() < 0.6:
                d[v][l] = int(rng.integers(0, nv))
    td = {v: {} for v in range(nv)}
    for v in range(nv):
        for l, w in d[v].items():
            td[v].setdefault(w, []).append(l)
    route = ["label", "target", "from-graph_dict-view", "from-out_dict-view"][idx % 4]
    M = fsa_model.Model.from_label_dict(d, [0])
    if route == "label":
        src = d
        A = fsamod.FSA(src, start_vertices=[0])
        B = fsamod.FSA(src, start_vertices=[0])
    elif route == "target":
        src = td
        A = fsamod.FSA(src, start_vertices=[0], graph_dict=False)
        B = fsamod.FSA(src, start_vertices=[0], graph_dict=False)
    elif route == "from-graph_dict-view":
        B = fsamod.FSA(d, start_vertices=[0])
        src = B.graph_dict
        A = fsamod.FSA(src, start_vertices=[0])
    else:
        B = fsamod.FSA(td, start_vertices=[0], graph_dict=False)
        src = B.out_dict
        A = fsamod.FSA(src, start_vertices=[0], graph_dict=False)
    snap = copy.deepcopy({k: dict(v) for k, v in src.items()})
    MA, MB = M.copy(), M.copy()
    ops = random_ops(rng, labels, int(rng.integers(3, 15)), nv=nv + 1)
    hist = [list(o) for o in ops]
    _state["history"] = {"route": "shared-source:" + route, "ops": hist}
    run.current_case = _state["history"]
    for k, op in enumerate(ops):
        A, MA, status = apply_op(op, A, MA)
        if status.startswith("VIOLATION:"):
            mon.fail("model/adjacency-query/wrong-answer", status[10:], _state["history"])
            return
        if status != "ok":
            mon.skip(status)
            continue
        if not compare(run, A, MA, k, hist):
            return
        # the sibling automaton and the source dictionary are untouched
        if not compare(run, B, MB, k, [["sibling-of-shared-source", route]] * (k + 1)):
            return
        now = {k2: dict(v) for k2, v in src.items()}
        if route in ("label", "target") and now != snap:
            mon.fail("model/caller-dict-mutated/route:%s" % route,
                     "editing an automaton changed the dictionary it was built from: %r -> %r"
                     % (snap, now), case=_state["history"])
            return
    run.note_class("shared-source", route, nv, len(labels))
    _state["history"] = None


# ---------------------------------------------------------------------------
# kbmag text


def gen_record_text(rng):
    n = int(rng.integers(1, 9))
    pool = ["a", "b", "c", "A", "B", "x", "y", "gen", "aa", "Ab", "t_1", "s"]
    k = int(rng.integers(1, 5))
    names = [pool[i] for i in rng.permutation(len(pool))[:k]]
    table = [[int(rng.integers(0, n + 1)) if rng.random() < 0.7 else 0
              for _ in names] for _ in range(n)]
    # make some rows consecutive so that the [a..b] interval syntax applies
    feats = set()
    for row in table:
        if rng.random() < 0.25 and len(row) >= 1:
            lo = int(rng.integers(0, max(1, n - len(row) + 2)))
            if lo + len(row) - 1 <= n:
                row[:] = list(range(lo, lo + len(row)))
    init = int(rng.integers(1, n + 1))

    def ws():
        return "".join(rng.choice([" ", "\n", "\t", ""], size=int(rng.integers(0, 3))))

    def fmt_row(row):
        if len(row) >= 1 and row == list(range(row[0], row[0] + len(row))) \
                and rng.random() < 0.6:
            feats.add("interval-row")
            return "[%d..%d]" % (row[0], row[-1])
        return "[" + ",".join(ws() + str(x) + ws() for x in row) + "]"
    quoted = bool(rng.random() < 0.4)
    if quoted:
        feats.add("quoted-names")
    nm = ",".join(ws() + ('"%s"' % x if quoted else x) + ws() for x in names)
    if any(len(x) > 1 for x in names):
        feats.add("multichar-names")
    init_txt = "[%d]" % init
    if rng.random() < 0.3:
        init_txt = "[%d..%d]" % (init, init)
        feats.add("interval-initial")
    # the `accepting` field: the word-acceptor convention [1..n], or any other
    # subset of the states in interval / explicit / empty syntax.  The loaded
    # automaton is the written transition table whatever this field says
    # (seeded change C09-r5-3: non-accepting states treated as failure states)
    r = rng.random()
    if r < 0.4 or n == 1 and r < 0.8:
        acc_txt = "[1..%d]" % n
    elif r < 0.55:
        lo = int(rng.integers(1, n + 1))
        hi = int(rng.integers(lo, n + 1))
        if (lo, hi) == (1, n):
            hi = n - 1 if n > 1 else n
        acc_txt = "[%d..%d]" % (lo, hi) if hi >= lo else "[]"
        feats.add("accepting-proper-interval")
    elif r < 0.8:
        acc = [q for q in range(1, n + 1) if rng.random() < 0.5]
        acc_txt = "[" + ",".join(ws() + str(q) + ws() for q in acc) + "]"
        feats.add("accepting-explicit-subset" if len(acc) < n else "accepting-explicit-all")
    elif r < 0.9:
        acc_txt = "[%s]" % ws()
        feats.add("accepting-empty")
    else:
        acc_txt = "[" + ",".join(str(q) for q in range(1, n + 1)) + "]"
        feats.add("accepting-explicit-all")
    fields = [
        "isFSA := true",
        "alphabet := rec(%stype := \"identifiers\",%ssize := %d,%sformat := \"dense\",%snames := [%s]%s)"
        % (ws(), ws(), len(names), ws(), ws(), nm, ws()),
        "states := rec(type := \"simple\", size := %d)" % n,
        "flags := [\"DFA\",\"minimized\",\"BFS\",\"accessible\",\"trim\"]",
        "initial := %s" % init_txt,
        "accepting := %s" % acc_txt,
        "table := rec(%sformat := \"dense deterministic\",%snumTransitions := %d,%stransitions := [%s]%s)"
        % (ws(), ws(), sum(1 for r in table for x in r if x), ws(),
           ("," + ws()).join(fmt_row(r) for r in table), ws()),
    ]
    text = "_RWS.wa := rec(\n" + (",\n" + ws()).join(ws() + f for f in fields) + "\n);\n"
    expected = {i + 1: {l: t for l, t in zip(names, row) if t != 0}
                for i, row in enumerate(table)}
    return text, names, table, init, expected, feats


def wl_kbmag(run, rng, idx):
    from geometry_tools.automata import fsa as fsamod, gap_parse
    mon = run.monitor("kbmag-roundtrip")
    text, names, table, init, expected, feats = gen_record_text(rng)
    case = {"text": text, "names": names, "table": table, "initial": init}
    run.current_case = case
    if idx % 3 == 2:
        # the file route: load_kbmag_file reads the same text from disk
        import tempfile, os
        fd, path = tempfile.mkstemp(suffix=".wa", prefix="gtmon-c09-")
        try:
            with os.fdopen(fd, "w") as f:
                f.write(text)
            F = fsamod.load_kbmag_file(path)
        finally:
            os.unlink(path)
        feats.add("file-route")
    else:
        record, _ = gap_parse.parse_record(text)
        F = fsamod._from_gap_record(record)
    if F is None:
        return mon.fail("kbmag/no-automaton", "no FSA built from a record with isFSA := true", case)
    got = {v: dict(nb) for v, nb in F.graph_dict.items()}
    hidden = {t for row in table for t in row if t != 0} - set(expected)
    want = dict(expected)
    if got != want:
        return mon.fail("kbmag/table-mismatch",
                        "parsed transition table %r != written table %r" % (got, want), case)
    if list(F.start_vertices) != [init]:
        return mon.fail("kbmag/start-state",
                        "start state %r != written %r" % (list(F.start_vertices), [init]), case)
    M = fsa_model.Model.from_label_dict(expected, [init])
    if not compare(run, F, M, -1, [["kbmag-text"]]):
        return
    mon.ok()
    run.note_class("kbmag", len(table), len(names), ",".join(sorted(feats)))
    if idx < 2:
        run.sample({"kbmag_text": text[:600]})


def parse_builtin_reference(text):
    """Independent, regex-based reading of a kbmag word-acceptor file."""
    import re
    names = re.search(r"names\s*:=\s*\[([^\]]*)\]", text).group(1)
    names = [x.strip().strip('"') for x in names.split(",") if x.strip()]
    init = re.search(r"initial\s*:=\s*\[\s*(\d+)", text).group(1)
    tr = re.search(r"transitions\s*:=\s*\[(.*)\]\s*\)", text, re.S).group(1)
    rows = re.findall(r"\[([^\[\]]*)\]", tr)
    table = []
    for r in rows:
        r = r.strip()
        m = re.fullmatch(r"(-?\d+)\.\.(-?\d+)", r)
        if m:
            table.append(list(range(int(m.group(1)), int(m.group(2)) + 1)))
        else:
            table.append([int(x) for x in r.split(",") if x.strip()])
    return names, int(init), table


def wl_builtin(run, rng, idx):
    import os
    from geometry_tools.automata import fsa as fsamod
    from .. import core
    mon = run.monitor("kbmag-roundtrip")
    files = sorted(fsamod.list_builtins())
    if not files:
        return
    fn = files[idx % len(files)]
    path = os.path.join(core.REPO, "geometry_tools", "automata", "builtin", fn)
    names, init, table = parse_builtin_reference(open(path).read())
    run.current_case = {"builtin": fn}
    F = fsamod.load_builtin(fn)
    expected = {i + 1: {l: t for l, t in zip(names, row) if t != 0}
                for i, row in enumerate(table)}
    got = {v: dict(nb) for v, nb in F.graph_dict.items()}
    if got != expected:
        return mon.fail("kbmag/builtin-table-mismatch",
                        "builtin %s: parsed table differs from the file's table" % fn)
    if list(F.start_vertices) != [init]:
        return mon.fail("kbmag/builtin-start", "builtin %s: start %r != %r"
                        % (fn, F.start_vertices, [init]))
    M = fsa_model.Model.from_label_dict(expected, [init])
    if compare(run, F, M, -1, [["builtin", fn]]):
        mon.ok()
        run.note_class("builtin", fn)
    # a short random history on the loaded automaton
    labels = names
    ops = random_ops(rng, labels, 8, nv=len(table) + 1)
    ops = [(o[0],) + tuple((x + 1 if isinstance(x, int) else x) for x in o[1:])
           if o[0] in ("add_edge", "add_edges_elist", "delete_vertex") else o
           for o in ops if o[0] != "add_vertices" and o[0] != "delete_vertices"]
    run_history(run, "builtin:" + fn, F, M, ops)


def wl_routes(run, rng, idx):
    """construction routes, incl. the Coxeter automaton generator and
    automaton_multiple, checked for view coherence and against the model."""
    from geometry_tools.automata import fsa as fsamod
    mon = run.monitor("routes")
    name, F, M, labels = random_route(rng)
    run.current_case = {"route": name, "model_edges": [list(map(repr, e)) for e in M.edges()]}
    if compare(run, F, M, -1, [[name]]):
        mon.ok()
    # free automaton over several generators
    gens = "abcd"[:int(rng.integers(1, 5))]
    FA = fsamod.free_automaton(gens)
    allg = list(gens) + [g.upper() for g in gens]
    d = {g: {h: h for h in allg if h.swapcase() != g} for g in [""] + allg}
    if compare(run, FA, fsa_model.Model.from_label_dict(d, [""]), -1, [["free", gens]]):
        mon.ok()
        run.note_class("free", len(gens))
    # derived automata: multiple / recurrent / remove_long_paths results must
    # themselves be coherent (their language is C10's business)
    # (word labels are concatenated strings: only uniquely decodable label
    # sets -- here single characters -- give a deterministic k-multiple)
    single = all(len(l) == 1 for l in labels)
    for G in (F.automaton_multiple(int(rng.integers(1, 4)))
              if single and M.starts and M.starts[0] in M.vertices else None,
              F.recurrent(),
              F.remove_long_paths(root=0) if 0 in M.vertices else None):
        if G is None:
            continue
        probs = view_problems(G)
        if probs:
            mon.fail("routes/derived/%s" % probs[0][0], probs[0][1],
                     case={"views": describe(G)})
        else:
            mon.ok()
    run.note_class(name, len(M.vertices), len(M.delta))
    if idx % 5 == 0:
        # CoxeterGroup.automaton(): the generator's integer-labelled automaton,
        # relabelled in place with the *list* ordered_gens -- judged by the
        # ambient relabel-law monitor; the result must be coherent
        from geometry_tools import coxeter
        tri = COXETER_TRIANGLES[(idx // 5) % len(COXETER_TRIANGLES)]
        run.current_case = {"triangle": list(tri)}
        before = run.monitor("relabel-law").evals
        G = coxeter.TriangleGroup(tri)
        A = G.automaton(shortlex=bool((idx // 10) % 2))
        probs = view_problems(A)
        if probs:
            mon.fail("routes/coxeter/%s" % probs[0][0], probs[0][1],
                     case={"triangle": list(tri), "views": describe(A)})
        elif run.monitor("relabel-law").evals > before:
            mon.ok()
            run.note_class("coxeter", tri)


def wl_repo_tests(run, rng, idx):
    """the repository's own automata tests, run with the FSA invariant attached
    (every automaton the suite builds and edits is judged at each quiescent
    point; the tests' own outcomes are not ours to judge)."""
    from .. import pytest_run
    before = run.monitor("views-coherent").evals
    run.current_case = {"repo_tests": "testing/test_automata.py"}
    _state["history"] = {"repo_tests": "testing/test_automata.py"}
    out = pytest_run.run_repo_tests(run, ["test_automata.py"])
    _state["history"] = None
    run.extra["repo_tests"] = {"ran": len(out),
                               "passed": sum(1 for v in out.values() if v == "passed"),
                               "invariant_evaluations": run.monitor("views-coherent").evals - before}
    if out:
        run.note_class("repo-tests", "test_automata.py")


WORKLOADS = [
    Workload("dense-depth3", wl_dense, quick=2500, thorough=0),
    Workload("dense-depth3-all", wl_dense_block, quick=0,
             thorough=(DENSE_TOTAL + 255) // 256),
    Workload("random-histories", wl_random, quick=400, thorough=6000),
    Workload("fresh-vertex-names", wl_fresh_names, quick=300, thorough=4000),
    Workload("edge-batches", wl_batches, quick=240, thorough=3000),
    Workload("relabel-sequence-maps", wl_relabel, quick=180, thorough=2500),
    Workload("copy-then-edit", wl_copy_edit, quick=240, thorough=3000),
    Workload("default-sharing", wl_default_sharing, quick=40, thorough=400),
    Workload("shared-source", wl_shared_source, quick=200, thorough=3000),
    Workload("kbmag-text", wl_kbmag, quick=300, thorough=5000),
    Workload("builtin-files", wl_builtin, quick=18, thorough=180),
    Workload("routes", wl_routes, quick=150, thorough=2000),
    Workload("repo-tests-under-monitors", wl_repo_tests, quick=1, thorough=1),
]
EXHAUSTIVE = {"quick": False, "thorough": False}


def finalize(run):
    chg = sanit.changed_defaults()
    mon = run.monitor("shared-defaults", deciding=False)
    for c in chg:
        mon.diag(c)
