"""C17 -- the Lie-group maps are homomorphisms onto the groups they name.

Monitors
  structure          (P) postconditions at the real functions lie.sl2_irrep,
                     sl2_to_so21, sl2c_to_so31, gln_adjoint, sln_adjoint,
                     slc_to_slr, block_include (every call, internal ones
                     included): determinant one / invariant form / Killing
                     (trace) form / character identity / value in the
                     elementary-matrix basis for the GL(n) adjoint.
  array-consistency  (P) same functions: for stacked input the result has the
                     batch shape of the input and its unit at an index is the
                     function's own value at that matrix.
  hom-exact          (W) randomised exact-integer executions with ZERO tolerance
                     of phi(AB) = phi(A) phi(B), phi(I) = I for the polynomial
                     maps sl2_irrep (n=2..6), block_include, slc_to_slr.
  hom-law            (W) float sampling of the same law for all maps
                     (bulk cond <= 50, stressed cond <= 1e4), single matrices and
                     stacks of shapes (k,), (a,b), (1,), (2,1); lie.hom wrappers;
                     Isometry.from_sl2.
  inverse            (W) o_to_pgl(sl2_to_so21(A)) = +-A, multiplicative up to
                     sign; Isometry.from_sl2(A).to_sl2() = +-A.
"""
import traceback

import numpy as np

from ..run import Workload
from .. import attach, core
from ..ref import lie_ref as lr

ID = "C17"
RULE = ("cases = (map in {sl2_irrep n=2..6, sl2_to_so21, sl2c_to_so31, gln_adjoint, "
        "sln_adjoint n=1..5, slc_to_slr n=1..4, block_include, lie.hom wrappers, "
        "Isometry.from_sl2/to_sl2, o_to_pgl}, input class in {exact integer (float64 "
        "and int64 dtype, Gaussian integers), bulk cond<=50, stressed cond<=1e4, "
        "triangular/diagonal/zero-entry hostile matrices}, batch shape in {(), (k,), "
        "(a,b), (1,), (2,1)}); non-trivial = both factors differ from the identity; "
        "distinct = distinct (map, target dimension, input class, dtype, batch shape) "
        "signatures")
ASSUMPTIONS = [
    "exact class: |entries| <= 6, so every intermediate integer is < 2^53 and float64 / "
    "int64 arithmetic is exact (checked: the code's binomials and integer powers are exact)",
    "float classes: 2-norm condition number <= 50 (bulk) or <= 1e4 (stressed, tolerance "
    "1e-7); residuals are relative to the product of the images' norms",
    "gln_adjoint / sln_adjoint called without dtype returned object-dtype arrays of floats on "
    "the pinned tree (their `like` was a function; repaired as F51, found through C05/C12); "
    "values are compared after casting either way",
    "o_to_pgl is judged on single matrices only (the property makes no array claim for it; "
    "its docstring says so); stacked input is a diagnostic",
    "recovery of A from its SO(2,1) image is judged when min(|a|,|d|) >= 0.05 (bulk) and, "
    "as its own class, when a diagonal entry is exactly zero; the band in between is "
    "ill-conditioned (square root of a rounded zero) and not judged",
    "the Killing form is the library's advertised lie.sln_killing_form(n), whose signature "
    "is checked independently; for GL(n) the trace form in the elementary basis",
    "the form-preserving adjoints lie.hom.so_adjoint / sp_adjoint / form_adjoint are not "
    "among the maps the property names; they are recorded as diagnostics only",
]
ANCHORS = [("geometry_tools/lie/core.py", q) for q in (
    "binom", "basis_matrix", "sln_basis_matrix", "gln_lie_algebra_coords",
    "sln_lie_algebra_coords", "linear_matrix_action", "sln_linear_action",
    "sln_adjoint", "gln_adjoint", "sl2_irrep", "sln_killing_form", "o_to_pgl",
    "sl2_to_so21", "block_include", "slc_to_slr", "sl2c_herm_action",
    "sl2c_to_so31")] + [
    ("geometry_tools/lie/hom.py", q) for q in (
        "_has_inv_param", "_wrap_hom", "sl2_irrep", "sln_adjoint", "gln_adjoint",
        "sl2_to_so21", "so21_to_sl2", "slc_to_slr", "sl2c_to_so31", "block_include")] + [
    ("geometry_tools/hyperbolic.py", "Isometry.from_sl2"),
    ("geometry_tools/hyperbolic.py", "Isometry.to_sl2"),
    ("geometry_tools/hyperbolic.py", "sl2_iso"),
]
REQUIRED = [
    ("geometry_tools/lie/core.py", "sl2_irrep", "im[..., j,k] +="),
    ("geometry_tools/lie/core.py", "linear_matrix_action", "b_image = linear_map(bm)"),
    ("geometry_tools/lie/core.py", "sln_linear_action", "b_image = linear_map(bm)"),
    ("geometry_tools/lie/core.py", "o_to_pgl", "b = b * -1"),
    ("geometry_tools/lie/core.py", "o_to_pgl", "c = c * -1"),
    ("geometry_tools/lie/core.py", "o_to_pgl", "d = d * -1"),
    ("geometry_tools/lie/core.py", "gln_adjoint", "inv = utils.invert(mat)"),
    ("geometry_tools/lie/core.py", "sln_adjoint", "inv = utils.invert(mat)"),
    ("geometry_tools/lie/core.py", "slc_to_slr", "result[..., dim:, :dim] = utils.imag(mat)"),
    ("geometry_tools/lie/hom.py", "_wrap_hom", "return hom(mat, *args, inv=inv, **kwargs)"),
    ("geometry_tools/lie/hom.py", "_wrap_hom", "return hom(mat, *args)"),
]

TOL = 1e-9
TOL_STRESSED = 1e-7
# which internal routine allocates the result of a map (mechanism of F12)
MECH = {"gln_adjoint": "linear_matrix_action", "sl2c_to_so31": "linear_matrix_action",
        "sl2c_herm_action": "linear_matrix_action",
        "sln_adjoint": "sln_linear_action"}

_killing = {}
_state = {"lie": None}


def killing(n):
    """the library's advertised Killing form of sl_n (cached), with its
    signature verified independently once per n."""
    if n not in _killing:
        K = lr.as_numeric(_state["lie"].sln_killing_form(n))
        _killing[n] = K
    return _killing[n]


def cond2(A):
    A = lr.as_numeric(A)
    if A.shape[-1] == 0:
        return np.ones(A.shape[:-2])
    s = np.linalg.svd(A, compute_uv=False)
    return s[..., 0] / np.maximum(s[..., -1], 1e-300)


def norm2(A):
    A = lr.as_numeric(A)
    if A.shape[-1] == 0:
        return np.ones(A.shape[:-2])
    return np.linalg.norm(A, 2, axis=(-2, -1))


def is_matrix_stack(x, n=None):
    return (isinstance(x, np.ndarray) and x.ndim >= 2 and x.shape[-1] == x.shape[-2]
            and x.dtype.kind in "iufc" and (n is None or x.shape[-1] == n))


# ---------------------------------------------------------------------------
# P: postconditions at the real functions


def setup(run):
    from geometry_tools import lie
    from geometry_tools.lie import core as lcore
    _state["lie"] = lie
    st = run.monitor("structure", min_events=200)
    ac = run.monitor("array-consistency", min_events=50)
    run.monitor("hom-exact", min_events=200)
    run.monitor("hom-law", min_events=200)
    run.monitor("inverse", min_events=50)

    def case_of(name, A, extra=None):
        c = {"function": name, "input": A}
        if extra:
            c.update(extra)
        if run.current_case is not None:
            c["workload_case"] = run.current_case
        return c

    def consistency(name, call, A, res, rest, kw_items):
        """result[idx] == f(A[idx]) and batch shape preserved."""
        batch = A.shape[:-2]
        R = np.asarray(res)
        if R.ndim < 2 or R.shape[:-2] != batch:
            ac.fail("array-input/%s/shape" % MECH.get(name, name),
                    "%s: input batch shape %r but result shape %r"
                    % (name, batch, R.shape), case_of(name, A))
            return False
        if len(batch) == 0:
            return True
        size = int(np.prod(batch))
        if size == 0:
            ac.ok()
            return True
        flat = [np.unravel_index(i, batch) for i in
                sorted(set([0, size - 1, size // 2]))]
        for idx in flat:
            kw = {}
            for k, v in kw_items.items():
                kw[k] = v[idx] if (k == "inv" and isinstance(v, np.ndarray)
                                   and v.shape[:-2] == batch) else v
            try:
                single = call.func(A[idx], *rest, **kw)
            except Exception as e:
                ac.fail("array-consistency/%s/single-call-raises" % name,
                        "%s works on the stack but raises %s on its unit %r"
                        % (name, type(e).__name__, idx), case_of(name, A))
                continue
            r = lr.rel_diff(R[idx], single)
            ac.judge(r, 1e-12, "array-consistency/%s/unit-differs" % name,
                     "%s(stack)[idx] differs from %s(stack[idx])" % (name, name),
                     case_of(name, A, {"index": list(idx)}))
        return True

    def make_hook(name):
        def hook(call):
            if call.exc is not None or not call.args:
                return
            A = call.args[0]
            if not is_matrix_stack(A):
                return
            rest = call.args[1:]
            kw = dict(call.kwargs)
            res = call.result
            if not consistency(name, call, A, res, rest, kw):
                return
            R = lr.as_numeric(res)
            An = lr.as_numeric(A)
            if An.size == 0 or R.size == 0:
                return
            checks = STRUCTURE[name](An, R, call)
            for (sub, residual, tol, what) in checks:
                if residual is None:
                    st.skip(what)
                else:
                    st.judge(residual, tol, "structure/%s/%s" % (name, sub),
                             "%s: %s" % (name, what), case_of(name, A))
        return hook

    # structure checkers: (A numeric stack, result numeric stack, call) ->
    # list of (sub-key, residual or None(=out of domain), tolerance, text)
    def s_irrep(A, R, call):
        n = call.args[1] if len(call.args) > 1 else call.kwargs.get("n")
        out = []
        dA = lr.det(A)
        c = cond2(A)
        nrm = norm2(A)
        # character (all 2x2 matrices of determinant one): basis-free
        sl = np.abs(dA - 1) <= 1e-9 * np.maximum(1.0, nrm ** 2)
        if R.shape[-1] != n:
            return [("dimension", float("inf"), 0.0, "result is not n x n")]
        if np.any(sl):
            chi = lr.sl2_character(A, n)
            tr = lr.trace(R)
            sc = n * np.maximum(1.0, nrm ** (n - 1))
            out.append(("character", float(np.max((np.abs(tr - chi) / sc)[sl])), 1e-9,
                        "trace differs from the character sum_k lambda^(n-1-2k)"))
            dR = lr.det(R)
            tol_det = np.maximum(1e-9, 1e-12 * n * c ** (n - 1))
            out.append(("det-one", float(np.max((np.abs(dR - 1) / tol_det)[sl])) * 1e-9, 1e-9,
                        "determinant of the image of a determinant-one matrix is not one"))
        else:
            out.append(("det-one", None, 0, "input not of determinant one"))
        return out

    def s_so21(A, R, call):
        out = []
        J = lr.minkowski(3)
        dA = lr.det(A)
        nrm = norm2(A)
        sl = np.abs(dA - 1) <= 1e-9 * np.maximum(1.0, nrm ** 2)
        if not np.any(sl):
            return [("form", None, 0, "input not of determinant one")]
        Rs, As = R[sl], A[sl]
        out.append(("form", lr.form_residual(Rs, J), 1e-9,
                    "image does not preserve diag(-1,1,1)"))
        n3 = np.maximum(1.0, norm2(Rs) ** 3)
        out.append(("det-one", float(np.max(np.abs(lr.det(Rs) - 1) / n3)), 1e-9,
                    "image has determinant != 1"))
        tr = lr.trace(As)
        out.append(("character", float(np.max(np.abs(lr.trace(Rs) - (tr * tr - 1)) /
                                              (3 * np.maximum(1.0, norm2(As) ** 2)))), 1e-9,
                    "trace differs from tr(A)^2 - 1"))
        out.append(("time-orientation", float(np.max(np.maximum(0.0, 1.0 - Rs[..., 0, 0]) /
                                                     np.maximum(1.0, norm2(Rs)))), 1e-9,
                    "image of a determinant-one matrix is not in the identity component "
                    "(S[0,0] < 1)"))
        return out

    def s_so31(A, R, call):
        out = []
        J = lr.minkowski(4)
        dA = lr.det(A)
        nrm = norm2(A)
        sl = np.abs(dA - 1) <= 1e-9 * np.maximum(1.0, nrm ** 2)
        if not np.any(sl):
            return [("form", None, 0, "input not of determinant one")]
        Rs, As = R[sl], A[sl]
        sc2 = np.maximum(1.0, norm2(Rs))
        out.append(("real", float(np.max(lr.mnorm(np.imag(Rs)) / sc2)), 1e-9,
                    "image has a non-zero imaginary part"))
        Rr = np.real(Rs)
        out.append(("form", lr.form_residual(Rr, J), 1e-9,
                    "image does not preserve diag(-1,1,1,1)"))
        out.append(("det-one", float(np.max(np.abs(lr.det(Rr) - 1) / sc2 ** 4)), 1e-9,
                    "image has determinant != 1"))
        tr = lr.trace(As)
        out.append(("character", float(np.max(np.abs(lr.trace(Rr) - np.abs(tr) ** 2) /
                                              (4 * np.maximum(1.0, norm2(As) ** 2)))), 1e-9,
                    "trace differs from |tr A|^2"))
        out.append(("time-orientation", float(np.max(np.maximum(0.0, 1.0 - Rr[..., 0, 0]) /
                                                     sc2)), 1e-9,
                    "image is not in the identity component (S[0,0] < 1)"))
        return out

    def s_gln(A, R, call):
        n = A.shape[-1]
        out = []
        c = cond2(A)
        if np.any(c > 1e6):
            return [("value", None, 0, "ill-conditioned input")]
        tol = TOL_STRESSED if np.any(c > 60) else TOL
        ref = np.empty(A.shape[:-2] + (n * n, n * n), dtype=complex)
        for idx in np.ndindex(*A.shape[:-2]):
            ref[idx] = lr.gln_adjoint_ref(A[idx])
        out.append(("value-elementary-basis", lr.rel_diff(R, ref, np.maximum(1.0, c)), tol,
                    "matrix of X -> g X g^-1 in the elementary basis differs from kron(g, g^-T)"))
        T = lr.gl_trace_form(n)
        out.append(("trace-form", lr.form_residual(R, T), tol,
                    "Ad(g) does not preserve the trace form tr(XY)"))
        return out

    def s_sln(A, R, call):
        n = A.shape[-1]
        out = []
        if n < 2:
            return [("killing-form", None, 0, "sl_1 is zero-dimensional")]
        c = cond2(A)
        if np.any(c > 1e6):
            return [("killing-form", None, 0, "ill-conditioned input")]
        tol = TOL_STRESSED if np.any(c > 60) else TOL
        if R.shape[-1] != n * n - 1:
            return [("dimension", float("inf"), 0.0, "result is not (n^2-1) x (n^2-1)")]
        K = killing(n)
        out.append(("killing-form", lr.form_residual(R, K), tol,
                    "Ad(g) does not preserve the advertised Killing form sln_killing_form(n)"))
        chi = np.empty(A.shape[:-2], dtype=complex)
        for idx in np.ndindex(*A.shape[:-2]):
            chi[idx] = lr.adjoint_character(A[idx], sl=True)
        out.append(("character", float(np.max(np.abs(lr.trace(R) - chi) /
                                              (n * n * np.maximum(1.0, c)))), tol,
                    "trace differs from tr g tr g^-1 - 1"))
        return out

    def s_slr(A, R, call):
        n = A.shape[-1]
        out = []
        if R.shape[-1] != 2 * n:
            return [("dimension", float("inf"), 0.0, "result is not 2n x 2n")]
        nrm = np.maximum(1.0, norm2(A))
        out.append(("real", float(np.max(lr.mnorm(np.imag(R)) / nrm)), 1e-12,
                    "realification has a non-zero imaginary part"))
        out.append(("character", float(np.max(np.abs(lr.trace(np.real(R)) - 2 * np.real(lr.trace(A)))
                                              / (2 * n * nrm))), 1e-12,
                    "trace differs from 2 Re tr"))
        dA = lr.det(A)
        out.append(("det", float(np.max(np.abs(lr.det(np.real(R)) - np.abs(dA) ** 2) /
                                        np.maximum(1.0, nrm ** (2 * n)))), 1e-9,
                    "determinant differs from |det|^2"))
        return out

    def s_block(A, R, call):
        n = A.shape[-1]
        d = R.shape[-1]
        nrm = np.maximum(1.0, norm2(A))
        out = [("character", float(np.max(np.abs(lr.trace(R) - lr.trace(A) - (d - n)) / (d * nrm))),
                1e-12, "trace differs from tr A + (d - n)"),
               ("det", float(np.max(np.abs(lr.det(R) - lr.det(A)) / nrm ** n)), 1e-9,
                "determinant differs from det A")]
        return out

    STRUCTURE = {"sl2_irrep": s_irrep, "sl2_to_so21": s_so21, "sl2c_to_so31": s_so31,
                 "gln_adjoint": s_gln, "sln_adjoint": s_sln, "slc_to_slr": s_slr,
                 "block_include": s_block}
    for name in STRUCTURE:
        attach.wrap_everywhere(run, getattr(lcore, name), make_hook(name),
                               label="lie." + name)
    # independent look at the advertised Killing forms (signature of the Killing
    # form of sl_n(R): n(n+1)/2 - 1 positive, n(n-1)/2 negative directions)
    for n in range(2, 6):
        K = killing(n)
        sig = lr.signature(K)
        want = lr.killing_signature(n)
        sym = float(np.max(np.abs(K - K.T))) if K.size else 0.0
        st.require(K.shape == (n * n - 1, n * n - 1) and sym == 0.0
                   and sig == (want[0], want[1], 0),
                   "structure/sln_killing_form/signature",
                   "sln_killing_form(%d): shape %r, signature %r, expected a symmetric "
                   "non-degenerate form of signature %r" % (n, K.shape, sig, want),
                   {"n": n, "K": K})


# ---------------------------------------------------------------------------
# the maps, as the workloads see them

def maps(lie):
    """name -> (callable on stacks of matrices, input kind, source dim n -> target dim)."""
    out = {}
    for n in range(2, 7):
        out["sl2_irrep(%d)" % n] = (lambda A, n=n: lie.sl2_irrep(A, n), "sl2", "sl2_irrep")
    out["sl2_to_so21"] = (lie.sl2_to_so21, "sl2", "sl2_to_so21")
    out["sl2c_to_so31"] = (lie.sl2c_to_so31, "sl2c", "sl2c_to_so31")
    for n in range(1, 6):
        out["gln_adjoint[%d]" % n] = (lie.gln_adjoint, ("gl", n), "gln_adjoint")
    for n in range(2, 6):
        out["sln_adjoint[%d]" % n] = (lie.sln_adjoint, ("sl", n), "sln_adjoint")
    # Ad on sl(n) is defined for every invertible g (Representation.sln_adjoint
    # feeds it GL(n) matrices): X -> g X g^-1.  Seeded change C17-r4-3: the
    # adjugate used as inverse for n = 2, right only when det g = 1.
    for n in range(2, 5):
        out["sln_adjoint[%d]/gl" % n] = (lie.sln_adjoint, ("gl", n), "sln_adjoint")
    out["sln_adjoint[2]/glc"] = (lie.sln_adjoint, ("glc", 2), "sln_adjoint")
    for n in range(1, 5):
        out["slc_to_slr[%d]" % n] = (lie.slc_to_slr, ("glc", n), "slc_to_slr")
    # real-dtype input is complex input with zero imaginary part: the same block
    # form, and products with complex factors must still go to products (seeded
    # change C17-r6-1: an interleaved realification A (x) I_2 for real dtypes)
    for n in range(1, 5):
        out["slc_to_slr[%d]/real-dtype" % n] = (lie.slc_to_slr, ("gl", n), "slc_to_slr")
    for n, d in ((1, 2), (2, 3), (2, 5), (3, 3), (3, 6), (4, 5)):
        out["block_include[%d->%d]" % (n, d)] = (
            lambda A, d=d: lie.block_include(A, d), ("gl", n), "block_include")
    # complex matrices ("real (complex) invertible matrices")
    for n in (2, 3, 5):
        out["sl2_irrep(%d)/complex" % n] = (lambda A, n=n: lie.sl2_irrep(A, n), "sl2c", "sl2_irrep")
    for n in (1, 2, 3):
        out["gln_adjoint[%d]/complex" % n] = (lie.gln_adjoint, ("glc", n), "gln_adjoint")
    for n in (2, 3):
        out["sln_adjoint[%d]/complex" % n] = (lie.sln_adjoint, ("slc", n), "sln_adjoint")
    out["block_include[2->4]/complex"] = (lambda A: lie.block_include(A, 4), ("glc", 2),
                                          "block_include")
    # the action on Hermitian matrices behind sl2c_to_so31, called directly
    out["sl2c_herm_action"] = (lie.sl2c_herm_action, "sl2c", "sl2c_herm_action")
    out["sl2c_herm_action(force_real=False)"] = (
        lambda A: lie.sl2c_herm_action(A, force_real=False), "sl2c", "sl2c_herm_action")
    return out


def draw(rng, kind, shape, cond):
    if kind == "sl2":
        return lr.rand_sl2(rng, shape, cond)
    if kind == "sl2c":
        return lr.rand_sl2c(rng, shape, cond)
    tag, n = kind
    if tag == "gl":
        return lr.rand_gl(rng, n, shape, cond)
    if tag == "sl":
        return lr.rand_gl(rng, n, shape, cond, det_one=True)
    if tag == "glc":
        return lr.rand_gl(rng, n, shape, cond, complex_=True)
    if tag == "slc":
        return lr.rand_gl(rng, n, shape, cond, complex_=True, det_one=True)
    raise ValueError(kind)


def eye_like(A):
    n = A.shape[-1]
    I = np.zeros_like(A)
    I[..., np.arange(n), np.arange(n)] = 1
    return I


def call_map(run, mon, f, fname, label, A, what, batch):
    """call a map; an exception on an in-domain input is a violation whose key
    names the internal routine that failed."""
    try:
        return f(A)
    except Exception as e:
        where = core.lib_frame_of(e.__traceback__) or fname
        klass = "array-input" if len(batch) else "exception"
        mon.fail("%s/%s:%s@%s" % (klass, fname, type(e).__name__, where) if klass == "exception"
                 else "array-input/%s" % where.split(".")[-1],
                 "%s(%s) raised %s: %s" % (label, what, type(e).__name__, str(e)[:140]),
                 {"map": label, "input": A, "batch_shape": list(batch)},
                 tb=traceback.format_exc())
        return None


def hom_residual(PA, PB, PAB):
    """max over the stack of |phi(AB) - phi(A)phi(B)| / (|phi(A)| |phi(B)|)."""
    PA, PB, PAB = lr.as_numeric(PA), lr.as_numeric(PB), lr.as_numeric(PAB)
    if PA.shape != PAB.shape or PB.shape != PAB.shape:
        return float("inf")
    if PAB.size == 0:
        return 0.0
    sc = np.maximum(1.0, norm2(PA) * norm2(PB))
    return float(np.max(lr.mnorm(PAB - PA @ PB) / sc))


# ---------------------------------------------------------------------------
# W: exact integer executions


def wl_exact(run, rng, idx):
    from geometry_tools import lie
    mon = run.monitor("hom-exact")
    shapes = [(), (), (3,), (2, 3), (1,), (2, 1)]
    shape = shapes[idx % len(shapes)]
    dtype_class = ("float64", "int64", "float64")[(idx // len(shapes)) % 3]
    which = ("sl2z", "grid")[(idx // 2) % 2]
    sig = (shape, dtype_class, which)

    def prep(M):
        return M.astype(np.int64) if dtype_class == "int64" else M.astype(float)

    def exact_case(label, fname, f, A, B, I):
        case = {"map": label, "A": A, "B": B, "dtype": str(A.dtype), "batch_shape": list(shape)}
        run.current_case = case
        P = {}
        for nm, X in (("A", A), ("B", B), ("AB", A @ B), ("I", I)):
            try:
                P[nm] = np.asarray(f(X))
            except Exception as e:
                where = core.lib_frame_of(e.__traceback__) or fname
                mon.fail("exception:%s@%s/%s-dtype" % (type(e).__name__, where, A.dtype.kind),
                         "%s(%s) raised %s: %s for an exact integer matrix of dtype %s"
                         % (label, nm, type(e).__name__, str(e)[:120], A.dtype),
                         case, tb=traceback.format_exc())
                return
        PA, PB, PAB, PI = (lr.as_numeric(P[k]) for k in ("A", "B", "AB", "I"))
        if max(float(np.max(np.abs(x))) if x.size else 0.0 for x in (PA, PB, PAB)) >= 2.0 ** 52:
            mon.skip("exact range exceeded")
            return
        prod = PA @ PB
        ok = PAB.shape == prod.shape and bool(np.array_equal(PAB, prod))
        mon.require(ok, "hom-exact/%s/product" % fname,
                    "%s: phi(AB) != phi(A) phi(B) exactly, on integer input (max deviation %r)"
                    % (label, float(np.max(np.abs(PAB - prod))) if PAB.shape == prod.shape else None),
                    case)
        d = PI.shape[-1]
        mon.require(bool(np.array_equal(PI, np.broadcast_to(np.eye(d), PI.shape))),
                    "hom-exact/%s/identity" % fname, "%s: phi(I) != I" % label, case)
        run.note_class("exact", label, *sig)

    # 2x2 integer matrices: SL(2,Z) or the full grid {-6..6}^4 (the identity is
    # polynomial, so it holds for every 2x2 matrix)
    if which == "sl2z":
        A2 = lr.rand_sl2z(rng, shape)
        B2 = lr.rand_sl2z(rng, shape)
    else:
        A2 = lr.rand_int(rng, 2, shape)
        B2 = lr.rand_int(rng, 2, shape)
    A2, B2 = prep(A2), prep(B2)
    I2 = prep(np.broadcast_to(np.eye(2), shape + (2, 2)).copy())
    for n in range(2, 7):
        exact_case("sl2_irrep(%d)" % n, "sl2_irrep", lambda X, n=n: lie.sl2_irrep(X, n),
                   A2, B2, I2)
    for n, d in ((1, 2), (2, 4), (3, 3), (3, 5)):
        A = prep(lr.rand_int(rng, n, shape))
        B = prep(lr.rand_int(rng, n, shape))
        I = prep(np.broadcast_to(np.eye(n), shape + (n, n)).copy())
        exact_case("block_include[%d->%d]" % (n, d), "block_include",
                   lambda X, d=d: lie.block_include(X, d), A, B, I)
    for n in (1, 2, 3):
        if dtype_class == "int64":
            A = lr.rand_int(rng, n, shape)
            B = lr.rand_int(rng, n, shape)
            I = np.broadcast_to(np.eye(n, dtype=np.int64), shape + (n, n)).copy()
        else:
            A = lr.rand_gauss_int(rng, n, shape)
            B = lr.rand_gauss_int(rng, n, shape)
            I = np.broadcast_to(np.eye(n, dtype=complex), shape + (n, n)).copy()
        exact_case("slc_to_slr[%d]" % n, "slc_to_slr", lie.slc_to_slr, A, B, I)
    if idx < 2:
        run.sample({"workload": "exact", "A": A2, "B": B2, "dtype": dtype_class})


# ---------------------------------------------------------------------------
# W: float sampling, single matrices and stacks

SHAPES = [(), (4,), (2, 3), (1,), (2, 1), (), (0,)]


def wl_float(run, rng, idx):
    from geometry_tools import lie
    mon = run.monitor("hom-law")
    table = maps(lie)
    names = sorted(table)
    shape = SHAPES[idx % len(SHAPES)]
    stressed = (idx // len(SHAPES)) % 4 == 3
    cond = 1e4 if stressed else 50.0
    tol = TOL_STRESSED if stressed else TOL
    cls = "stressed" if stressed else "bulk"
    # every map in every case would be slow in the larger dimensions: rotate
    pick = [names[(idx * 7 + j * 5) % len(names)] for j in range(8)]
    for label in dict.fromkeys(pick):
        f, kind, fname = table[label]
        A = draw(rng, kind, shape, cond)
        B = draw(rng, kind, shape, cond)
        mixed = False
        if idx % 2 and isinstance(kind, tuple) and kind[0] in ("gl", "glc", "sl", "slc"):
            # factors of different dtype: a real matrix is a complex matrix with zero
            # imaginary part, so the product law must hold across the two (seeded
            # change C17-r6-1: another -- conjugate -- realification for real dtypes)
            other = {"gl": "glc", "glc": "gl", "sl": "slc", "slc": "sl"}[kind[0]]
            try:
                B = draw(rng, (other, kind[1]), shape, cond)
                mixed = True
            except Exception:
                mixed = False
        case = {"map": label, "A": A, "B": B, "class": cls, "batch_shape": list(shape),
                "mixed_dtypes": mixed}
        run.current_case = case
        PA = call_map(run, mon, f, fname, label, A, "A", shape)
        if PA is None:
            continue
        PB = call_map(run, mon, f, fname, label, B, "B", shape)
        PAB = call_map(run, mon, f, fname, label, A @ B, "AB", shape)
        PI = call_map(run, mon, f, fname, label, eye_like(A), "I", shape)
        if PB is None or PAB is None or PI is None:
            continue
        PAn = lr.as_numeric(PA)
        if PAn.shape[:-2] != tuple(shape):
            mon.fail("array-input/%s/shape" % MECH.get(fname, fname),
                     "%s: input batch shape %r but result shape %r" % (label, shape, PAn.shape),
                     case)
            continue
        mon.judge(hom_residual(PA, PB, PAB), tol,
                  "hom-law/%s/product/%s%s" % (fname, cls, "/mixed-dtypes" if mixed else ""),
                  "%s: phi(AB) != phi(A) phi(B)" % label, case)
        if mixed and not np.iscomplexobj(A):
            # and the image does not depend on the dtype the same numbers arrive in
            PAc = call_map(run, mon, f, fname, label, A.astype(complex), "A as complex", shape)
            if PAc is not None:
                mon.judge(lr.rel_diff(PAc, PA, np.maximum(1.0, norm2(A))), tol,
                          "hom-law/%s/dtype-dependent" % fname,
                          "%s: phi(A) differs from phi(A.astype(complex))" % label, case)
        PIn = lr.as_numeric(PI)
        d = PIn.shape[-1]
        mon.judge(float(np.max(lr.mnorm(PIn - np.eye(d)))) if PIn.size else 0.0, 1e-12,
                  "hom-law/%s/identity" % fname, "%s: phi(I) != I" % label, case)
        # inverse goes to inverse (a consequence, checked with its own conditioning)
        Ai = np.linalg.inv(A)
        PAi = call_map(run, mon, f, fname, label, Ai, "A^-1", shape)
        if PAi is not None:
            r = hom_residual(PA, PAi, np.broadcast_to(np.eye(d), PAn.shape))
            mon.judge(r, 10 * tol, "hom-law/%s/inverse/%s" % (fname, cls),
                      "%s: phi(A) phi(A^-1) != I" % label, case)
        run.note_class("float", label, cls, shape)
        # explicit inv= argument of the adjoints
        if fname in ("gln_adjoint", "sln_adjoint"):
            g = getattr(lie, fname)
            try:
                Pinv = g(A, inv=Ai)
                mon.judge(lr.rel_diff(Pinv, PA, np.maximum(1.0, cond2(A))), tol,
                          "hom-law/%s/inv-argument" % fname,
                          "%s(A, inv=A^-1) differs from %s(A)" % (fname, fname), case)
            except Exception as e:
                where = core.lib_frame_of(e.__traceback__) or fname
                mon.fail("array-input/%s" % where.split(".")[-1] if shape else
                         "exception/%s:%s@%s" % (fname, type(e).__name__, where),
                         "%s(A, inv=) raised %s: %s" % (fname, type(e).__name__, str(e)[:120]),
                         case, tb=traceback.format_exc())
    if idx < 2:
        run.sample({"workload": "float", "maps": pick[:3], "class": cls, "shape": list(shape)})


def wl_hostile(run, rng, idx):
    """special matrices: identity, -I, diagonal, triangular, rotations by
    multiples of pi/2, elementary matrices, through every SL(2) map."""
    from geometry_tools import lie
    mon = run.monitor("hom-law")
    t = rng.uniform(0.2, 3.0)
    specials = [np.eye(2), -np.eye(2), np.diag([t, 1 / t]), np.diag([-t, -1 / t]),
                np.array([[1.0, t], [0, 1]]), np.array([[1.0, 0], [t, 1]]),
                np.array([[0.0, -1], [1, 0]]), np.array([[0.0, 1], [-1, 0]]),
                np.array([[0.0, -1], [1, t]]), np.array([[t, -1], [1, 0.0]]),
                np.array([[np.cos(t), -np.sin(t)], [np.sin(t), np.cos(t)]]),
                np.array([[np.cosh(t), np.sinh(t)], [np.sinh(t), np.cosh(t)]])]
    A = specials[idx % len(specials)]
    B = specials[(idx // len(specials) + 3 * idx) % len(specials)]
    fs = [("sl2_irrep(%d)" % n, "sl2_irrep", lambda X, n=n: lie.sl2_irrep(X, n))
          for n in range(2, 7)]
    fs += [("sl2_to_so21", "sl2_to_so21", lie.sl2_to_so21),
           ("sl2c_to_so31", "sl2c_to_so31", lambda X: lie.sl2c_to_so31(X.astype(complex))),
           ("sl2c_to_so31(real dtype)", "sl2c_to_so31", lie.sl2c_to_so31),
           ("gln_adjoint", "gln_adjoint", lie.gln_adjoint),
           ("sln_adjoint", "sln_adjoint", lie.sln_adjoint),
           ("slc_to_slr", "slc_to_slr", lambda X: lie.slc_to_slr(X * (1 + 0j))),
           ("block_include", "block_include", lambda X: lie.block_include(X, 4))]
    for label, fname, f in fs:
        case = {"map": label, "A": A, "B": B, "class": "special"}
        run.current_case = case
        PA = call_map(run, mon, f, fname, label, A, "A", ())
        PB = call_map(run, mon, f, fname, label, B, "B", ())
        PAB = call_map(run, mon, f, fname, label, A @ B, "AB", ())
        if PA is None or PB is None or PAB is None:
            continue
        mon.judge(hom_residual(PA, PB, PAB), TOL, "hom-law/%s/product/special" % fname,
                  "%s: phi(AB) != phi(A) phi(B)" % label, case)
        run.note_class("special", label, idx % len(specials))


# ---------------------------------------------------------------------------
# W: lie.hom wrappers, Isometry.from_sl2


def wl_wrappers(run, rng, idx):
    from geometry_tools import lie
    from geometry_tools.lie import hom
    from geometry_tools.hyperbolic import Isometry
    from geometry_tools.representation import Representation
    mon = run.monitor("hom-law")
    n = 2 + idx % 4
    d = n + 1 + idx % 2
    nirr = 2 + idx % 5
    specs = [
        ("hom.sl2_irrep(%d)" % nirr, hom.sl2_irrep(nirr), lambda X: lie.sl2_irrep(X, nirr), "sl2"),
        ("hom.sl2_to_so21", hom.sl2_to_so21(), lie.sl2_to_so21, "sl2"),
        ("hom.sl2c_to_so31", hom.sl2c_to_so31(), lie.sl2c_to_so31, "sl2c"),
        ("hom.gln_adjoint", hom.gln_adjoint(), lie.gln_adjoint, ("gl", n)),
        ("hom.gln_adjoint(dtype)", hom.gln_adjoint(dtype=np.dtype("float64")),
         lie.gln_adjoint, ("gl", n)),
        ("hom.sln_adjoint", hom.sln_adjoint(), lie.sln_adjoint, ("sl", n)),
        ("hom.sln_adjoint(dtype)", hom.sln_adjoint(dtype=np.dtype("float64")),
         lie.sln_adjoint, ("sl", n)),
        ("hom.slc_to_slr", hom.slc_to_slr(), lie.slc_to_slr, ("glc", n)),
        ("hom.block_include(%d)" % d, hom.block_include(d),
         lambda X: lie.block_include(X, d), ("gl", n)),
    ]
    for label, h, direct, kind in specs:
        A = draw(rng, kind, (), 50.0)
        B = draw(rng, kind, (), 50.0)
        Ai = np.linalg.inv(A)
        case = {"map": label, "A": A, "B": B}
        run.current_case = case
        hA = call_map(run, mon, h, label, label, A, "A", ())
        if hA is None:
            continue
        hAinv = call_map(run, mon, lambda X: h(X, inv=Ai), label, label, A, "A, inv=", ())
        hB = call_map(run, mon, h, label, label, B, "B", ())
        hAB = call_map(run, mon, h, label, label, A @ B, "AB", ())
        if hAinv is None or hB is None or hAB is None:
            continue
        dA = direct(A)
        mon.judge(lr.rel_diff(hA, dA), 1e-12, "hom-law/wrapper-differs/%s" % label.split("(")[0],
                  "%s differs from the function it wraps" % label, case)
        mon.judge(lr.rel_diff(hAinv, dA, np.maximum(1.0, cond2(A))), TOL,
                  "hom-law/wrapper-inv-argument/%s" % label.split("(")[0],
                  "%s(mat, inv=mat^-1) differs from the function it wraps" % label, case)
        mon.judge(hom_residual(hA, hB, hAB), TOL, "hom-law/%s/product/bulk" % label.split("(")[0],
                  "%s: phi(AB) != phi(A) phi(B)" % label, case)
        if label.endswith("(dtype)"):
            mon.require(np.asarray(hA).dtype == np.dtype("float64"),
                        "hom-law/wrapper-dtype/%s" % label.split("(")[0],
                        "%s with dtype=float64 returns dtype %s" % (label, np.asarray(hA).dtype),
                        case)
        run.note_class("wrapper", label)
        # the wrapper drives Representation.compose generator by generator
        rep = Representation()
        rep["a"] = A.copy()
        rep["b"] = B.copy()
        try:
            comp = rep.compose(h)
            got = lr.as_numeric(comp["abA"])
            want = lr.as_numeric(direct(A @ B @ Ai))
            sc = np.maximum(1.0, norm2(lr.as_numeric(dA)) ** 2 * norm2(lr.as_numeric(direct(B))))
            mon.judge(lr.rel_diff(got, want, sc), 1e-8,
                      "hom-law/compose-with-wrapper/%s" % label.split("(")[0],
                      "rep.compose(%s)['abA'] differs from phi(rho('abA'))" % label, case)
        except Exception as e:
            mon.fail("exception/compose:%s@%s" % (type(e).__name__,
                                                  core.lib_frame_of(e.__traceback__)),
                     "rep.compose(%s) raised %s: %s" % (label, type(e).__name__, str(e)[:120]),
                     case, tb=traceback.format_exc())
    # Isometry.from_sl2: matrices (column convention) multiply like the 2x2 ones
    shape = SHAPES[idx % len(SHAPES)]
    A = lr.rand_sl2(rng, shape)
    B = lr.rand_sl2(rng, shape)
    case = {"map": "Isometry.from_sl2", "A": A, "B": B, "batch_shape": list(shape)}
    run.current_case = case
    packs = {"ndarray": lambda X: X}
    if not shape:
        packs["nested-list"] = lambda X: X.tolist()
    for pk, conv in packs.items():
        IA = Isometry.from_sl2(conv(A))
        IB = Isometry.from_sl2(conv(B))
        IAB = Isometry.from_sl2(conv(A @ B))
        MA, MB, MAB = (np.swapaxes(np.asarray(x.matrix), -1, -2) for x in (IA, IB, IAB))
        mon.judge(hom_residual(MA, MB, MAB), TOL, "hom-law/from_sl2/product",
                  "Isometry.from_sl2(AB) != from_sl2(A) from_sl2(B) (column convention)", case)
        mon.judge(lr.form_residual(MA, lr.minkowski(3)), TOL, "hom-law/from_sl2/form",
                  "Isometry.from_sl2(A) does not preserve diag(-1,1,1)", case)
        comp = np.swapaxes(np.asarray((IA @ IB).matrix), -1, -2)
        mon.judge(lr.rel_diff(comp, MAB, np.maximum(1.0, norm2(MA) * norm2(MB))), TOL,
                  "hom-law/from_sl2/composition",
                  "from_sl2(A) @ from_sl2(B) is not from_sl2(AB)", case)
        run.note_class("from_sl2", pk, shape)
    # form-preserving adjoints: not named by the property (diagnostic only)
    dg = run.monitor("unnamed-adjoints", deciding=False)
    if idx == 0:
        for nm, build in (("so21_adjoint", lambda: hom.so21_adjoint()(lie.sl2_to_so21(lr.rand_sl2(rng)))),
                          ("sp_adjoint", lambda: hom.sp_adjoint(2))):
            try:
                build()
                dg.diag("lie.hom.%s runs" % nm)
            except Exception as e:
                dg.diag("lie.hom.%s raises %s" % (nm, type(e).__name__))
        dg.skip("not among the maps the property names")


# ---------------------------------------------------------------------------
# W: the documented inverse O(2,1) -> PGL(2)


def diag_class(A):
    """independent classifier of the conditioning of the recovery."""
    m = min(abs(A[0, 0]), abs(A[1, 1])) / max(1.0, float(np.max(np.abs(A))))
    if A[0, 0] == 0 or A[1, 1] == 0:
        return "zero-diagonal-entry"
    if A[0, 1] == 0 or A[1, 0] == 0:
        # triangular / diagonal: judged (the zero entry's own sign is
        # irrelevant), but under its own key
        return "zero-offdiagonal-entry"
    if m >= 0.05:
        return "bulk"
    return "near-zero"


def wl_inverse(run, rng, idx):
    from geometry_tools import lie
    from geometry_tools.lie import hom
    from geometry_tools.hyperbolic import Isometry
    mon = run.monitor("inverse")
    kind = idx % 6
    t = float(rng.uniform(0.3, 2.5))
    if kind == 2:
        # determinant -1 (orientation-reversing elements of O(2,1)): the inverse
        # is promised there as a homomorphism up to sign (seeded change C17-r2-2:
        # a sign rule derived from a d + b c = 2 a d - 1, true for det +1 only)
        fam = "det-minus-one"
        A = lr.rand_sl2(rng, (), 30.0) @ np.diag([1.0, -1.0])
        B = lr.rand_sl2(rng, (), 30.0) @ (np.diag([1.0, -1.0]) if (idx // 6) % 2 else np.eye(2))
    elif kind <= 1:
        A = lr.rand_sl2(rng, (), 50.0)
        B = lr.rand_sl2(rng, (), 50.0)
        fam = "generic"
    elif kind == 3:
        fam = "triangular-or-diagonal"
        u, v = float(rng.uniform(-2.5, 2.5)), float(rng.uniform(-2.5, 2.5))
        A = [np.array([[1.0, t], [0, 1]]), np.array([[1.0, 0], [-t, 1]]),
             np.diag([t, 1 / t]), np.diag([-t, -1 / t]),
             np.array([[t, 1.0], [0, 1 / t]]),
             # generic (not 'nice') triangular matrices: the zero corner of the
             # image carries rounding noise of either sign (seeded change C17-1)
             np.array([[t, u], [0, 1 / t]]), np.array([[-t, 0], [u, -1 / t]]),
             np.array([[1 / t, u], [0, t]])][(idx // 6) % 8]
        if (idx // 6) % 8 >= 5:
            # a second triangular factor of the same kind: AB is triangular too
            B = np.array([[1 / t, v], [0, t]]) if A[1, 0] == 0 else np.array([[t, 0], [v, 1 / t]])
        else:
            B = lr.rand_sl2(rng, (), 20.0)
    elif kind == 4:
        fam = "integer"
        A = lr.rand_sl2z(rng).astype(float)
        B = lr.rand_sl2z(rng).astype(float)
    else:
        fam = "zero-entry"
        A = [np.array([[0.0, -1], [1, 0]]), np.array([[0.0, 1], [-1, 0]]),
             np.array([[0.0, -1], [1, t]]), np.array([[t, -1], [1, 0.0]]),
             np.array([[0.0, -t], [1 / t, 0]]), np.array([[t, 1], [-1, 0.0]])][(idx // 6) % 6]
        B = lr.rand_sl2(rng, (), 20.0)
    for X, nm in ((A, "A"), (B, "B"), (A @ B, "AB")):
        cls = diag_class(X)
        case = {"matrix": X, "family": fam, "class": cls, "which": nm}
        run.current_case = case
        if cls == "near-zero":
            mon.skip("diagonal entry near zero: recovery of the signs is ill-conditioned")
            continue
        suffix = "" if cls == "bulk" else "/" + cls
        S = lie.sl2_to_so21(X)
        try:
            P = lie.o_to_pgl(S)
        except Exception as e:
            mon.fail("inverse/o_to_pgl/exception:%s%s" % (type(e).__name__, suffix),
                     "o_to_pgl(sl2_to_so21(A)) raised %s: %s" % (type(e).__name__, str(e)[:100]),
                     case, tb=traceback.format_exc())
            continue
        mon.judge(lr.eq_up_to_sign(P, X), 1e-7, "inverse/o_to_pgl/not-inverse" + suffix,
                  "o_to_pgl(sl2_to_so21(A)) = %r is not +-A = +-%r"
                  % (np.round(lr.as_numeric(P), 6).tolist(), np.round(X, 6).tolist()), case)
        if cls != "bulk":
            # one mechanism, one key: the other routes are judged in the bulk class
            run.note_class("inverse", fam, cls, nm)
            continue
        P2 = hom.so21_to_sl2()(S)
        mon.judge(lr.rel_diff(P2, P), 1e-12, "inverse/so21_to_sl2-wrapper-differs",
                  "lie.hom.so21_to_sl2()(S) differs from lie.o_to_pgl(S)", case)
        # through the Isometry API
        Q = Isometry.from_sl2(X).to_sl2()
        mon.judge(lr.eq_up_to_sign(Q, X), 1e-7, "inverse/to_sl2/not-inverse" + suffix,
                  "Isometry.from_sl2(A).to_sl2() = %r is not +-A = +-%r"
                  % (np.round(lr.as_numeric(Q), 6).tolist(), np.round(X, 6).tolist()), case)
        # it inverts in the other order as well: sl2_to_so21(o_to_pgl(S)) = S
        back = lie.sl2_to_so21(lr.as_numeric(P))
        mon.judge(lr.rel_diff(back, S, np.maximum(1.0, norm2(S))), 1e-7,
                  "inverse/sl2_to_so21-after-o_to_pgl" + suffix,
                  "sl2_to_so21(o_to_pgl(S)) != S", case)
        run.note_class("inverse", fam, cls, nm)
    # homomorphism up to sign
    classes = [diag_class(X) for X in (A, B, A @ B)]
    if all(c in ("bulk", "zero-offdiagonal-entry") for c in classes):
        # (a triangular AB is judged under its own key: the sign of the
        # recovered diagonal entry is read off a product with the zero entry's
        # rounding noise)
        sfx = "" if all(c == "bulk" for c in classes) else "/zero-offdiagonal-entry"
        # a zero entry is recovered as sqrt(rounding noise) ~ 1e-8: square-root rule
        tolp = 1e-7 if not sfx else 3e-6
        SA, SB = lie.sl2_to_so21(A), lie.sl2_to_so21(B)
        case = {"A": A, "B": B, "family": fam, "classes": classes}
        run.current_case = case
        l = lr.as_numeric(lie.o_to_pgl(SA @ SB))
        r = lr.as_numeric(lie.o_to_pgl(SA)) @ lr.as_numeric(lie.o_to_pgl(SB))
        mon.judge(lr.eq_up_to_sign(l, r), tolp, "inverse/o_to_pgl/product-of-images/not-multiplicative-up-to-sign" + sfx,
                  "o_to_pgl(S_A S_B) != +- o_to_pgl(S_A) o_to_pgl(S_B)", case)
        # S_A S_B is an element of SO(2,1) that was not itself computed as an image
        mon.judge(lr.eq_up_to_sign(l, A @ B), tolp, "inverse/o_to_pgl/product-of-images/not-inverse" + sfx,
                  "o_to_pgl(sl2_to_so21(A) sl2_to_so21(B)) is not +-AB", case)
        mon.judge(abs(abs(float(np.linalg.det(l))) - 1.0), tolp, "inverse/o_to_pgl/det",
                  "o_to_pgl(S) does not have determinant +-1", case)
        run.note_class("inverse-product", fam)
    # the same inverse with an explicitly given form of signature (2,1): for
    # J' = P^T J P the conjugates P^-1 S P of images S lie in O(J'), and
    # o_to_pgl(., J') must again be a homomorphism up to sign into matrices of
    # determinant one, conjugate to +-A (|trace| is kept); for J' a positive
    # multiple of J it recovers +-A itself.  (Seeded change C17-r4-1: the inverse
    # of the form-diagonalising matrix replaced by its transpose, invisible for
    # forms with eigenvalues +-1.)  Generic A, B only (no zero-entry classes: F35).
    if fam in ("generic", "det-minus-one") and fam_is_generic(A) and fam_is_generic(B) \
            and fam_is_generic(A @ B):
        # (random float data only: for a form other than J the function recovers a
        # CONJUGATE g A g^-1 with g of the library's choosing, and structured data --
        # integer, triangular -- can put an exact zero into that conjugate, which is
        # F35's zero-anchor mechanism again: thorough seed 0 hit it with the integer
        # family under diag(1,-1,1), a false alarm of this block)
        J = np.diag([-1.0, 1.0, 1.0])
        fk = ["positive-multiple", "diagonal-scaling", "generic-congruence", "orthogonal-congruence",
              "permuted-diagonal", "scaled-permuted-diagonal"][(idx // 6) % 6]
        if fk == "positive-multiple":
            Pm = np.eye(3) * float(np.exp(rng.uniform(np.log(0.3), np.log(4.0))))
        elif fk == "diagonal-scaling":
            Pm = np.diag(np.exp(rng.uniform(np.log(0.4), np.log(3.0), size=3)))
        elif fk in ("permuted-diagonal", "scaled-permuted-diagonal"):
            # exactly diagonal forms whose negative entry is NOT in the first slot
            # (seeded change C17-r5-1: a diagonal-form fast path hard-coding the
            # basis order of diag(-1,1,1))
            perm = [(1, 0, 2), (1, 2, 0), (2, 1, 0), (2, 0, 1), (0, 2, 1)][(idx // 36 + idx) % 5]
            Pm = np.eye(3)[list(perm)]
            if fk == "scaled-permuted-diagonal":
                Pm = Pm @ np.diag(np.exp(rng.uniform(np.log(0.4), np.log(3.0), size=3)))
        elif fk == "generic-congruence":
            Pm = lr.rand_cond(rng, 3, 8.0) if hasattr(lr, "rand_cond") else None
            if Pm is None:
                q1, _ = np.linalg.qr(rng.normal(size=(3, 3)))
                q2, _ = np.linalg.qr(rng.normal(size=(3, 3)))
                Pm = q1 @ np.diag(np.exp(rng.uniform(np.log(0.5), np.log(3.0), size=3))) @ q2
        else:
            Pm, _ = np.linalg.qr(rng.normal(size=(3, 3)))
        Jp = Pm.T @ J @ Pm
        Jp = (Jp + Jp.T) / 2.0
        Pi = np.linalg.inv(Pm)
        kap = float(np.linalg.cond(Pm)) ** 2
        SA = Pi @ lr.as_numeric(lie.sl2_to_so21(A)) @ Pm
        SB = Pi @ lr.as_numeric(lie.sl2_to_so21(B)) @ Pm
        case = {"A": A, "B": B, "family": fam, "form": Jp, "form_kind": fk}
        run.current_case = case
        tolf = 1e-7 * kap * max(1.0, float(norm2(SA)) * float(norm2(SB)))
        try:
            a = lr.as_numeric(lie.o_to_pgl(SA, Jp))
            b = lr.as_numeric(lie.o_to_pgl(SB, Jp))
            ab = lr.as_numeric(lie.o_to_pgl(SA @ SB, Jp))
        except Exception as e:
            mon.fail("inverse/o_to_pgl/explicit-form/exception:%s/%s" % (type(e).__name__, fk),
                     "o_to_pgl(S, form) raised %s: %s" % (type(e).__name__, str(e)[:100]),
                     case, tb=traceback.format_exc())
            a = None
        if a is not None and not all(fam_is_generic(x) for x in (a, b, ab)):
            # a recovered conjugate with an entry near zero: sign recovery through
            # that anchor is ill-conditioned (the "near-zero" class of the main check)
            mon.skip("explicit form: a recovered conjugate has an entry near zero")
            a = None
        if a is not None:
            mon.judge(lr.eq_up_to_sign(ab, a @ b), tolf,
                      "inverse/o_to_pgl/explicit-form/not-multiplicative-up-to-sign/" + fk,
                      "o_to_pgl(S_A S_B, J') != +- o_to_pgl(S_A, J') o_to_pgl(S_B, J')", case)
            for X, x, nm in ((A, a, "A"), (B, b, "B")):
                mon.judge(abs(abs(float(np.linalg.det(x))) - 1.0), tolf,
                          "inverse/o_to_pgl/explicit-form/det/" + fk,
                          "o_to_pgl(S, J') does not have determinant +-1", dict(case, which=nm))
                mon.judge(abs(abs(float(np.trace(x))) - abs(float(np.trace(X)))), tolf * max(1.0, float(norm2(X))),
                          "inverse/o_to_pgl/explicit-form/trace/" + fk,
                          "|trace| of o_to_pgl(P^-1 S_A P, P^T J P) differs from |trace A|", dict(case, which=nm))
                if fk == "positive-multiple":
                    mon.judge(lr.eq_up_to_sign(x, X), tolf, "inverse/o_to_pgl/explicit-form/not-inverse/" + fk,
                              "o_to_pgl(sl2_to_so21(A), c J) is not +-A", dict(case, which=nm))
            run.note_class("inverse-explicit-form", fam, fk)
    if idx == 0:
        dg = run.monitor("o_to_pgl-stacked", deciding=False)
        try:
            lie.o_to_pgl(lie.sl2_to_so21(lr.rand_sl2(rng, (3,))))
            dg.diag("o_to_pgl accepts a stack")
        except Exception as e:
            dg.diag("o_to_pgl on a stack raises %s (docstring: 'not vector-safe')" % type(e).__name__)
        dg.skip("no array claim for o_to_pgl")
    if idx < 2:
        run.sample({"workload": "inverse", "A": A, "family": fam})


def fam_is_generic(X):
    """no entry of the 2x2 matrix near zero relative to its size (keeps the
    explicit-form checks away from F35's zero-anchor mechanism)."""
    X = np.asarray(X, dtype=float)
    return bool(np.min(np.abs(X)) > 0.05 * np.max(np.abs(X)))


WORKLOADS = [
    Workload("exact-integer", wl_exact, quick=72, thorough=5760),
    Workload("float-sampling", wl_float, quick=98, thorough=7840),
    Workload("special-matrices", wl_hostile, quick=36, thorough=1152),
    Workload("hom-wrappers", wl_wrappers, quick=20, thorough=800),
    Workload("documented-inverse", wl_inverse, quick=120, thorough=9600),
]
