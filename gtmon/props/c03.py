"""C03 -- applying transformations is a left group action on every kind of object.

Monitors
  apply-contract   (P) postcondition on Transformation.apply (Isometry inherits
                   it; ``@`` goes through it): result has the class, unit ranks,
                   auxiliary data and composite shape the operand / broadcast
                   rule dictate, and its primary and auxiliary data are the
                   operand's rows times the row matrix (explicit per-unit loop).
                   Fires on every call, the library's internal ones included.
  action-laws      (W) (A@B)@X ~ A@(B@X), id@X ~ X, A.inv()@(A@X) ~ X on primary
                   and auxiliary data, as projective objects; class and shape of
                   every result; A@X against (column matrix)(column vector) by
                   hand; the transformed object's derived data against the
                   reference formulas.
  representation-action (W) rep[w] @ p against the product, along the word, of
                   the generator matrices *as assigned* (column convention)
                   applied to the column vector of p.
  matrix-product   (P, cross monitor of C04, not deciding here).

Round 4 additions (all under the monitors above):
  dual-objects     objects carrying DUAL data (ConvexPolygon built with an explicit
                   dual vector, generic ProjectiveObject with dual_ndims = 1): the
                   three laws on primary, derived AND dual data, dual rows compared
                   projectively (keys action-laws/<law>/dual).
  exact-dyadic     badly scaled matrices (entries of ONE matrix spanning > 2^42,
                   cond ~ 1e25) on which every operation is exact: the laws with a
                   tolerance that does not scale with the condition number.
  exact-identity   pairs (A, B) with A@B EXACTLY the identity (stacks of exact involutions,
                   signed permutations / dyadic matrices with their inverses) acting
                   on objects with fewer composite axes; relator lists through
                   rep.elements(words) @ p.  mixed-product: inverse and identity laws
                   for Transformation @ Isometry (an Isometry object with a general
                   matrix) and Isometry @ Transformation.
  structured       A, B from structured classes (complex unitary: phases / QR / Householder
                   / monomial / rotation; scaled unitary; real orthogonal; permutation;
                   oblique involution; unipotent; Hermitian positive) on complex object
                   data incl. dual objects; representations with such generators and
                   their inverse letters.
  enumerations     (in words) every enumeration route of a representation
                   (automaton_accepted default / start_state / end_state, maxlen,
                   with and without words, freely_reduced_elements): element i acts
                   on a point as the matrix of word i.
"""
import numpy as np

from ..run import Workload
from .. import attach
from ..ref import hyp as rh
from ..ref import proj as rp
from ..ref import dyadic as dy
from ..gen import projobjs as G
from ..gen import c03extra as GX
from . import c04

ID = "C03"
RULE = ("law cases = (object class, dimension 1..4, composite shape, shapes of A and B, "
        "field real/complex, kind of map: general invertible cond<=50 for projective "
        "objects, reference isometries of O(n,1) for hyperbolic ones, general "
        "invertible on hyperbolic objects for the linear part only); word cases = "
        "(representation class, #generators<=3, word length<=12, point shape); "
        "matrices are non-symmetric and non-commuting; non-trivial = A, B != identity "
        "and AB != BA; distinct = distinct (law, class, dimension, shapes, field) "
        "signatures; dual cases = (ConvexPolygon with explicit dual vector | generic "
        "ProjectiveObject with dual rank 1, dimension, composite shape, shapes of A, B, "
        "field); exact-dyadic cases = (form of the badly scaled matrix: diagonal / "
        "monomial / one transvection / powers of a moderate generator, spread >= 2^42, "
        "projective object class with small integer coordinates, shapes); enumeration "
        "cases = (route default/start_state/end_state/freely_reduced, maxlen, with_words, "
        "free automaton | random deterministic automaton over the generator letters)")
ASSUMPTIONS = [
    "ConvexPolygon is a polygon: it is driven with an explicit dual vector (a chart "
    "containing a genuinely convex polygon), the only construction route that does "
    "not re-order vertices; its dual data is judged by the three laws only (the "
    "property does not say HOW dual data transforms; whether the pairing "
    "<dual, vertex> is preserved is recorded as a diagnostic, not judged)",
    "exact-dyadic class: entries 0 or +-2^k, one transvection at most, small integer "
    "coordinates; every product is certified free of rounding by gtmon.ref.dyadic "
    "(bit-window test), so the tolerance is the flat 1e-10 whatever the condition "
    "number; cases whose certificate fails are skipped",
    "projective comparison: per unit row up to a non-zero (complex) scalar, per "
    "matrix for transformations; a tangent vector (p,v) equals (sp,tv) iff st>0",
    "derived data of hyperbolic objects is required to follow the primary data "
    "only under form-preserving maps; under general invertible maps only the "
    "(linear) action laws are judged on it",
    "tolerance scales with cond(A)*cond(B) (inverse law) and, for words, with "
    "prod|g_i| |x| / |rho(w)x| (cancellation); cases beyond 1e6 are out of domain",
]
ANCHORS = [
    ("geometry_tools/projective.py", "Transformation.__init__"),
    ("geometry_tools/projective.py", "Transformation._apply_to_data"),
    ("geometry_tools/projective.py", "Transformation.apply"),
    ("geometry_tools/projective.py", "Transformation.inv"),
    ("geometry_tools/projective.py", "Transformation.__matmul__"),
    ("geometry_tools/projective.py", "ProjectiveRepresentation.wrap_func"),
    ("geometry_tools/projective.py", "ProjectiveRepresentation.unwrap_func"),
    ("geometry_tools/projective.py", "ProjectiveRepresentation.array_wrap_func"),
    ("geometry_tools/projective.py", "identity"),
    ("geometry_tools/hyperbolic.py", "Isometry.__init__"),
    ("geometry_tools/hyperbolic.py", "HyperbolicRepresentation.wrap_func"),
    ("geometry_tools/hyperbolic.py", "HyperbolicRepresentation.array_wrap_func"),
    ("geometry_tools/hyperbolic.py", "identity"),
    ("geometry_tools/representation.py", "Representation._word_value"),
    ("geometry_tools/representation.py", "Representation.elements"),
    ("geometry_tools/representation.py", "Representation._set_generator"),
    ("geometry_tools/utils/core.py", "matrix_product"),
    ("geometry_tools/utils/core.py", "invert"),
]
REQUIRED = [
    ("geometry_tools/projective.py", "Transformation.apply", "aux_product = self._apply_to_data("),
    ("geometry_tools/projective.py", "Transformation.apply", "new_obj.set(proj_data=proj_product,"),
    ("geometry_tools/projective.py", "Transformation.__init__", "self.set(proj_data.swapaxes(-1,-2), **kwargs)"),
    ("geometry_tools/projective.py", "Transformation.inv", "return self.__class__(utils.invert(self.matrix))"),
    ("geometry_tools/representation.py", "Representation._word_value", "matrix = matrix @ self.generators[gen]"),
]

BASE_TOL = 1e-10


def setup(run):
    from geometry_tools import projective as P
    c04.attach_funnel(run, deciding=False)
    mon = run.monitor("apply-contract", min_events=300)

    def hook(call):
        if call.exc is not None:
            return
        b = call.bound()
        T, X, mode = b.get("self"), b.get("proj_obj"), b.get("broadcast")
        if not isinstance(X, P.ProjectiveObject):
            return mon.skip("operand is not a projective object")
        if isinstance(X, P.ConvexPolygon):
            return mon.skip("ConvexPolygon")
        if X.proj_data is None or mode not in rp.MODES:
            return mon.skip("no primary data / unknown mode")
        res = call.result
        cls = type(X).__name__
        hypmod = type(X).__module__.split(".")[-1]
        case = run.current_case
        sig = "%s.%s/%s" % (hypmod, cls, mode)
        try:
            want = rp.result_shape(X.shape, T.shape, mode)
        except ValueError:
            return mon.skip("shapes do not broadcast")
        if not mon.require(type(res) is type(X), "apply-contract/class/%s" % sig,
                           "apply of %s to a %s returns a %s"
                           % (type(T).__name__, cls, type(res).__name__), case):
            return
        if not mon.require(tuple(res.shape) == tuple(want), "apply-contract/shape/%s" % sig,
                           "apply[%s]: operand shape %r, transformation shape %r -> result "
                           "shape %r, expected %r" % (mode, X.shape, T.shape, res.shape, want), case):
            return
        if not mon.require((res.unit_ndims, res.aux_ndims) == (X.unit_ndims, X.aux_ndims)
                           and (res.aux_data is None) == (X.aux_data is None),
                           "apply-contract/unit-ranks/%s" % sig,
                           "apply changes the unit ranks / drops auxiliary data "
                           "(%r,%r,aux %s) -> (%r,%r,aux %s)"
                           % (X.unit_ndims, X.aux_ndims, X.aux_data is not None,
                              res.unit_ndims, res.aux_ndims, res.aux_data is not None), case):
            return
        M = np.asarray(T.proj_data)
        if M.dtype.kind not in "biufc" or np.asarray(X.proj_data).dtype.kind not in "biufc":
            return mon.skip("non-numeric dtype")
        total = int(np.prod(want)) if want else 1
        if total > 600:
            return mon.skip("large composite (judged by the funnel monitor)")
        cond = float(np.max(np.linalg.cond(M))) if M.size else 1.0
        if not np.isfinite(cond) or cond > 1e6:
            return mon.skip("ill-conditioned matrix")
        tol = BASE_TOL * max(cond, 1.0)
        matrix_like = isinstance(X, P.Transformation)
        for name, data, unit in (("primary", X.proj_data, X.unit_ndims),
                                 ("auxiliary", X.aux_data, X.aux_ndims)):
            if data is None:
                continue
            exp, _ = rp.loop_matrix_product(np.asarray(data), M, unit, 2, mode)
            got = np.asarray(getattr(res, "proj_data" if name == "primary" else "aux_data"))
            if got.shape != exp.shape:
                mon.fail("apply-contract/%s-shape/%s" % (name, sig),
                         "apply: %s data of the result has shape %r, rows-times-matrix "
                         "gives %r" % (name, got.shape, exp.shape), case)
                return
            err = rp.max_mat_dev(got, exp) if (matrix_like and name == "primary") \
                else rp.max_row_dev(got, exp)
            if not mon.judge(err, tol, "apply-contract/%s-value/%s" % (name, sig),
                             "apply: %s data of the result is not (projectively) the "
                             "operand's rows times the row matrix" % name, case):
                return
        run.note_class("apply", hypmod, cls, X.unit_ndims, X.aux_ndims,
                       len(X.shape), len(T.shape), mode)

    attach.wrap_attr(run, P.Transformation, "apply", hook)
    run.monitor("action-laws", min_events=300)
    run.monitor("representation-action", min_events=100)


# ---------------------------------------------------------------------------
# laws

KINDS = list(G.KINDS)
AB_SHAPES = [((), ()), ((), ()), ((3,), ()), ((), (3,)), ((3,), (3,)), ((1,), (3,)), ((2, 1), (1, 3))]


def compatible(oshape, ashape, bshape):
    try:
        np.broadcast_shapes(oshape, ashape, bshape)
        return True
    except ValueError:
        return False


def same_object(run, mon, law, kind, L, R, tol, case, aux_linear=True):
    """L ~ R as projective objects (class, shape, primary, auxiliary)."""
    key = "action-laws/%s" % law
    if not mon.require(type(L) is type(R), key + "/class",
                       "%s: classes differ: %s vs %s" % (law, type(L).__name__, type(R).__name__), case):
        return False
    if not mon.require(tuple(L.shape) == tuple(R.shape), key + "/shape",
                       "%s: composite shapes differ: %r vs %r" % (law, L.shape, R.shape), case):
        return False
    ok = mon.judge(G.compare_primary(kind, L.proj_data, R.proj_data), tol, key + "/primary",
                   "%s fails on the primary data of a %s" % (law, kind), case)
    if G.KINDS[kind][3] is not None:
        ok = mon.judge(G.compare_aux(kind, L.aux_data, R.aux_data), tol, key + "/auxiliary",
                       "%s fails on the auxiliary (derived) data of a %s" % (law, kind), case) and ok
    else:
        ok = mon.require(L.aux_data is None and R.aux_data is None, key + "/auxiliary-appeared",
                         "%s: auxiliary data appeared on a %s" % (law, kind), case) and ok
    for o in (L, R):
        if o.dual_data is not None:
            ok = mon.fail(key + "/dual-appeared", "%s: dual data appeared on a %s" % (law, kind), case)
    return ok


def wl_laws(run, rng, idx):
    from geometry_tools import projective as P, hyperbolic as H
    mon = run.monitor("action-laws")
    kind = KINDS[idx % len(KINDS)]
    r = idx // len(KINDS)
    oshape = G.OBJ_SHAPES[r % len(G.OBJ_SHAPES)]
    r //= len(G.OBJ_SHAPES)
    ashape, bshape = AB_SHAPES[r % len(AB_SHAPES)]
    if not compatible(oshape, ashape, bshape):
        ashape, bshape = (), ()
    r //= len(AB_SHAPES)
    hyp = G.KINDS[kind][1]
    n = c04.dims_for(kind, r + idx // 13)
    # map classes: hyperbolic objects get isometries, except every 4th round
    # where the linear part of the laws is exercised with a general matrix
    # (classes tied to the case index, not to the slow counter r, so that the
    # quick tier sees every one of them)
    general_on_hyp = hyp and (r % 4 == 3 or idx % 5 == 4)
    tkind = "H.Isometry" if (hyp and not general_on_hyp) else "P.Transformation"
    cx = (not hyp) and (r % 3 == 2 or idx % 3 == 2)
    raw = G.draw(rng, kind, n, oshape, cx=cx)
    araw = G.draw(rng, tkind, n, ashape, cx=cx)
    braw = G.draw(rng, tkind, n, bshape, cx=cx)
    case = {"kind": kind, "dimension": n, "object_shape": list(oshape), "A_shape": list(ashape),
            "B_shape": list(bshape), "maps": tkind, "field": "complex" if cx else "real",
            "X": raw, "A": araw, "B": braw}
    run.current_case = case
    X = G.build(kind, raw)
    A = G.build(tkind, araw)
    B = G.build(tkind, braw)
    MA, MB = G.row_matrix(tkind, araw), G.row_matrix(tkind, braw)
    check_laws(run, mon, kind, n, oshape, ashape, bshape, tkind, cx, raw, X, A, B, MA, MB,
               case, idx)
    if general_on_hyp:
        # mixed pair on a hyperbolic object with derived data: A a general
        # projective Transformation, B an Isometry.  A @ B is then an Isometry
        # *object* carrying the matrix A.B, and associativity must still hold on
        # the derived data (seeded change C03-r2-2: derived data transported by
        # Isometry objects but recomputed under plain Transformations)
        b2raw = G.draw(rng, "H.Isometry", n, bshape)
        B2 = G.build("H.Isometry", b2raw)
        MB2 = G.row_matrix("H.Isometry", b2raw)
        case2 = dict(case, B=b2raw, maps="P.Transformation @ H.Isometry")
        run.current_case = case2
        cA = float(np.max(np.linalg.cond(MA)))
        cB = float(np.max(np.linalg.cond(MB2)))
        tol = BASE_TOL * (1.0 + cA * cB)
        L = (A @ B2) @ X
        R = A @ (B2 @ X)
        same_object(run, mon, "associativity-mixed-classes", kind, L, R, tol, case2)
        IY = P.identity(n) @ L
        same_object(run, mon, "identity-after-mixed-product", kind, IY, L, 1e-12, case2)
        run.note_class("associativity-mixed", kind, n, oshape, ashape, bshape)
        mixed_product_laws(run, mon, kind, n, oshape, ashape, bshape, X, A, B2, MA, MB2, tol, case2,
                           both=bool(idx % 2))


def mixed_product_laws(run, mon, kind, n, oshape, ashape, bshape, X, A, B2, MA, MB2, tol, case, both=True):
    """identity and inverse laws for the products of mixed classes.  By the type
    rule C = A @ B2 (A a general projective Transformation, B2 an Isometry) is an
    Isometry *object* whose matrix is not in O(n,1); D = B2 @ A is a plain
    Transformation.  Both are transformations like any other: C.inv() @ (C @ X)
    ~ X, C.inv() @ C ~ id, id @ C ~ C (seeded change C03-r6-1: Isometry.inv()
    by the Minkowski adjoint J M^T J, right only for matrices that preserve the
    form)."""
    from geometry_tools import projective as P, hyperbolic as H
    cshape = tuple(np.broadcast_shapes(ashape, bshape))
    for name, L, Rr, ML, MR in (("T@I", A, B2, MA, MB2), ("I@T", B2, A, MB2, MA)):
        if name == "I@T" and not both:
            continue
        C, MC, want_cls = L @ Rr, _row_product(ML, MR), type(Rr)
        key = "action-laws/mixed-product/%s" % name
        if not mon.require(type(C) is want_cls and tuple(C.shape) == cshape, key + "/class-or-shape",
                           "the product %s is a %s of shape %r (right operand: %s, broadcast shape %r)"
                           % (name, type(C).__name__, C.shape, want_cls.__name__, cshape), case):
            continue
        mon.judge(rp.max_mat_dev(C.proj_data, MC), tol, key + "/matrix",
                  "the product %s does not carry the product of the matrices" % name, case)
        Ci = C.inv()
        if not mon.require(type(Ci) is type(C) and tuple(Ci.shape) == cshape, key + "/inverse/class-or-shape",
                           "(%s).inv() is a %s of shape %r" % (name, type(Ci).__name__, Ci.shape), case):
            continue
        mon.judge(rp.max_mat_dev(Ci.proj_data, np.linalg.inv(MC)), tol, key + "/inverse/matrix",
                  "(%s).inv() is not the inverse matrix of the product" % name, case)
        CiC = Ci @ C
        mon.judge(rp.max_mat_dev(CiC.proj_data, np.broadcast_to(np.eye(n + 1), np.shape(CiC.proj_data))),
                  tol, key + "/inverse/transformation", "(%s).inv() @ (%s) is not the identity" % (name, name), case)
        back = Ci @ (C @ X)
        if tuple(np.broadcast_shapes(oshape, cshape)) == tuple(oshape):
            same_object(run, mon, "mixed-product/%s/inverse" % name, kind, back, X, tol, case)
        else:
            for ridx, oi, _ in rp.operand_indices(oshape, cshape, "elementwise"):
                mon.judge(G.compare_primary(kind, back.proj_data[ridx], X.proj_data[oi]), tol,
                          key + "/inverse/primary",
                          "(%s).inv() @ ((%s) @ X) differs from X on the primary data of a %s"
                          % (name, name, kind), case)
        for I in (H.identity(n), P.identity(n)):
            mon.judge(max(rp.max_mat_dev((I @ C).proj_data, C.proj_data),
                          rp.max_mat_dev((C @ I).proj_data, C.proj_data)), 1e-12,
                      key + "/identity", "id @ (%s) or (%s) @ id differs from the product" % (name, name), case)
        run.note_class("mixed-product", name, kind, n, oshape, ashape, bshape)


def check_laws(run, mon, kind, n, oshape, ashape, bshape, tkind, cx, raw, X, A, B, MA, MB,
               case, idx, label=None, exact_tol=None, MAB_inv=None, inverse_assoc=None):
    """the law triples for one (X, A, B); MA, MB are the row matrices of A, B
    known independently of the calls under test.  exact_tol: flat tolerance for
    cases certified free of rounding (then MAB_inv is the exact row matrix of
    (A@B)^-1, known by construction)."""
    from geometry_tools import projective as P, hyperbolic as H
    with np.errstate(all="ignore"):
        cA = float(np.max(np.linalg.cond(MA)))
        cB = float(np.max(np.linalg.cond(MB)))
    tol = BASE_TOL * (1.0 + cA * cB)
    tolA = BASE_TOL * max(cA, 1.0)
    if exact_tol is not None:
        tol = tolA = exact_tol
    sig = (kind, n, oshape, ashape, bshape, label or tkind, "complex" if cx else "real")

    # non-triviality of the draw (independent of the library)
    noncomm = float(np.max(np.abs(MA @ MB - MB @ MA))) if ashape == bshape == () else 1.0
    if noncomm < 1e-6 and n >= 2:
        mon.skip("commuting pair drawn")

    # every other case asks for the factors' inverses *before* composing, so that
    # anything an object memoises about itself (seeded change C03-2: a cached
    # inverse carried onto the product by apply's shallow copy) is in place when
    # the product and its inverse are formed
    if idx % 2:
        B.inv()
        A.inv()

    # (A@B)@X ~ A@(B@X)
    AB = A @ B
    L = AB @ X
    R = A @ (B @ X)
    want_shape = np.broadcast_shapes(oshape, ashape, bshape)
    mon.require(tuple(L.shape) == tuple(want_shape) and type(L) is type(X),
                "action-laws/associativity/class-or-shape",
                "(A@B)@X is a %s of shape %r; X is a %s, broadcast shape %r"
                % (type(L).__name__, L.shape, type(X).__name__, want_shape), case)
    same_object(run, mon, "associativity", kind, L, R, tol, case)
    mon.require(type(AB) is type(A), "action-laws/product-class",
                "A@B is a %s for A a %s" % (type(AB).__name__, type(A).__name__), case)
    run.note_class("associativity", *sig)

    # identity
    I = H.identity(n) if tkind == "H.Isometry" else P.identity(n)
    IX = I @ X
    same_object(run, mon, "identity", kind, IX, X, 1e-12, case)
    IA = I @ A
    AI = A @ I
    mon.judge(max(rp.max_mat_dev(IA.proj_data, A.proj_data), rp.max_mat_dev(AI.proj_data, A.proj_data)),
              1e-12, "action-laws/identity/transformation", "id@A or A@id differs from A", case)
    run.note_class("identity", *sig)

    # inverse
    Ai = A.inv()
    mon.require(type(Ai) is type(A) and tuple(Ai.shape) == tuple(A.shape),
                "action-laws/inverse/class-or-shape",
                "A.inv() is a %s of shape %r" % (type(Ai).__name__, Ai.shape), case)
    AX = A @ X
    back = Ai @ AX
    if tuple(np.broadcast_shapes(oshape, ashape)) == tuple(oshape):
        same_object(run, mon, "inverse", kind, back, X, tol, case)
    else:
        # the composite shape grew by broadcasting: compare with X broadcast
        for ridx, oi, _ in rp.operand_indices(oshape, ashape, "elementwise"):
            mon.judge(G.compare_primary(kind, back.proj_data[ridx], X.proj_data[oi]), tol,
                      "action-laws/inverse/primary",
                      "A.inv()@(A@X) differs from X on the primary data of a %s" % kind, case)
    AiA = Ai @ A
    eye = np.broadcast_to(np.eye(n + 1), AiA.proj_data.shape)
    mon.judge(rp.max_mat_dev(AiA.proj_data, eye), tol, "action-laws/inverse/transformation",
              "A.inv()@A is not the identity", case)
    # associativity for the triple (A.inv(), A, X): the composed map is the
    # identity (exactly so for exactly invertible A), and acting by it must still
    # give an object of the broadcast shape of A and X, equal to A.inv()@(A@X)
    # (seeded change C03-r6-3: a stack of exact identities skips broadcasting)
    if inverse_assoc or (inverse_assoc is None and (idx % 4 == 0 or exact_tol is not None)):
        LI = AiA @ X
        if mon.require(type(LI) is type(X)
                       and tuple(LI.shape) == tuple(np.broadcast_shapes(oshape, ashape)),
                       "action-laws/associativity-with-inverse/class-or-shape",
                       "(A.inv()@A)@X is a %s of shape %r; X is a %s of shape %r, A has shape %r"
                       % (type(LI).__name__, LI.shape, type(X).__name__, oshape, ashape), case):
            same_object(run, mon, "associativity-with-inverse", kind, LI, back, tol, case)
    ABi = AB.inv()
    mon.judge(rp.max_mat_dev(ABi.proj_data, np.linalg.inv(_row_product(MA, MB))
                             if MAB_inv is None else MAB_inv),
              tol, "action-laws/inverse/of-product",
              "(A@B).inv() is not the inverse of the product", case)
    run.note_class("inverse", *sig)

    # pairwise application: entry [object i][map j] of A.apply(X, "pairwise") is
    # A[j] @ X[i] as a projective object, derived data included (seeded change
    # C03-r3-2: a spurious axis in the derived data of pairwise-transformed
    # polygons only)
    if idx % 2 == 0 and len(oshape) + len(ashape) <= 3:
        PW = A.apply(X, "pairwise")
        want_pw = tuple(oshape) + tuple(ashape)
        if mon.require(type(PW) is type(X) and tuple(PW.shape) == want_pw,
                       "action-laws/pairwise/class-or-shape",
                       "A.apply(X,'pairwise') is a %s of shape %r; X is a %s of shape %r, A has shape %r"
                       % (type(PW).__name__, PW.shape, type(X).__name__, oshape, ashape), case):
            for oi in np.ndindex(*oshape):
                for ai in np.ndindex(*ashape):
                    Aj = A[ai] if ai else A
                    if tkind == "H.Isometry" or G.KINDS[kind][3] in (None, "edges"):
                        E = Aj @ (X[oi] if oi else X)
                        got = PW[oi + ai] if (oi + ai) else PW
                        same_object(run, mon, "pairwise", kind, got, E, tol, case)
                    else:
                        # a general linear map on a hyperbolic object with
                        # non-linear derived data: indexing re-derives that data
                        # (and the image may leave the model), so compare the
                        # stored arrays of the pairwise and the elementwise image
                        EX = Aj @ X
                        mon.judge(G.compare_primary(kind, PW.proj_data[oi + ai], EX.proj_data[oi]), tol,
                                  "action-laws/pairwise/primary",
                                  "pairwise image differs from A[j]@X on the primary data of a %s" % kind, case)
                        if PW.aux_data is not None and PW.aux_data.shape[:len(want_pw)] == want_pw:
                            mon.judge(G.compare_aux(kind, PW.aux_data[oi + ai], EX.aux_data[oi]), tol,
                                      "action-laws/pairwise/auxiliary",
                                      "pairwise image differs from A[j]@X on the derived data of a %s"
                                      % kind, case)
            if PW.aux_data is not None:
                na = PW.aux_data.ndim - (X.aux_data.ndim - len(oshape))
                mon.require(tuple(PW.aux_data.shape[:na]) == want_pw,
                            "action-laws/pairwise/auxiliary-shape",
                            "derived data of A.apply(X,'pairwise') has shape %r for a composite of shape %r"
                            % (PW.aux_data.shape, want_pw), case)
            run.note_class("pairwise", *sig)

    # by hand: column matrix times column vector
    prim = G.primary(kind, raw)
    if prim is not None:
        exp, _ = rp.loop_matrix_product(prim, MA, G.KINDS[kind][2], 2, "elementwise")
        mon.judge(G.compare_primary(kind, AX.proj_data, exp), tolA,
                  "action-laws/by-hand/A@X",
                  "A@X is not (column matrix of A)(column vectors of X) for a %s" % kind, case)
        exp2, _ = rp.loop_matrix_product(prim, _row_product(MA, MB), G.KINDS[kind][2], 2, "elementwise")
        mon.judge(G.compare_primary(kind, L.proj_data, exp2), tol, "action-laws/by-hand/(A@B)@X",
                  "(A@B)@X is not (A_col B_col)(column vectors of X) for a %s" % kind, case)
        run.note_class("by-hand", *sig)

    # derived data of the image against the reference formulas
    auxk = G.KINDS[kind][3]
    if auxk is not None and (auxk == "edges" or tkind == "H.Isometry"):
        mon.judge(G.reference_aux_dev(kind, AX.proj_data, AX.aux_data), 1e-7,
                  "action-laws/derived-data/%s" % auxk,
                  "derived data of A@X is not what the reference formula gives for the "
                  "transformed primary data (%s)" % kind, case)
        mon.judge(G.reference_aux_dev(kind, L.proj_data, L.aux_data), 1e-7,
                  "action-laws/derived-data/%s" % auxk,
                  "derived data of (A@B)@X is not what the reference formula gives (%s)" % kind, case)
        run.note_class("derived", *sig)
    if idx < 3:
        run.sample({"kind": kind, "dimension": n, "object_shape": list(oshape),
                    "A_shape": list(ashape), "B_shape": list(bshape), "maps": tkind,
                    "A(row matrix)": MA})


LIB_MAPS = ["origin_to", "standard_rotation", "standard_loxodromic", "sl2_iso",
            "reflection_across", "isometry_to", "elliptic", "timelike_to"]
X_CLASSES = ["bulk", "mixed-sign-and-scale", "near-boundary", "near-origin"]


def library_isometry(rng, n, which):
    """an isometry produced by one of the library's own constructors (the
    'programs' part of the quantifier); None when the constructor does not
    exist in this dimension."""
    from geometry_tools import hyperbolic as H
    if which == "origin_to":
        return H.Point(G.interior(rng, n, ())).origin_to()
    if which == "standard_rotation":
        if n < 2:
            return None
        return H.Isometry.standard_rotation(float(rng.uniform(-6, 6)), dimension=n)
    if which == "standard_loxodromic":
        return H.Isometry.standard_loxodromic(n, float(np.exp(rng.uniform(-1.2, 1.2))))
    if which == "sl2_iso":
        if n != 2:
            return None
        return H.sl2_iso(c04.rand_sl2(rng, ()))
    if which == "reflection_across":
        if n < 2:
            return None
        return H.Hyperplane(G.exterior(rng, n, ())).reflection_across()
    if which == "isometry_to":
        if n < 2:
            return None
        P1, Q1 = G.separated_pair(rng, n, (), G.interior)
        P2, Q2 = G.separated_pair(rng, n, (), G.interior)
        t1 = H.Point(P1).unit_tangent_towards(H.Point(Q1))
        t2 = H.Point(P2).unit_tangent_towards(H.Point(Q2))
        return t1.isometry_to(t2)
    if which == "elliptic":
        return H.Isometry.elliptic(n, rh.rand_orth(rng, n))
    if which == "timelike_to":
        return H.timelike_to(G.interior(rng, n, ()))
    raise ValueError(which)


def hostile(rng, kind, raw, xclass, n, oshape):
    """redraw / rescale the raw inputs of a hyperbolic point-like object
    according to the hostile class."""
    if xclass == "bulk":
        return raw
    out = G.copy_raw(raw)
    if xclass == "mixed-sign-and-scale":
        for k in out:
            shp = out[k].shape[:-1] + (1,)
            out[k] = out[k] * rng.choice([-1.0, 1.0], size=shp) * \
                np.exp(rng.uniform(np.log(0.1), np.log(10.0), size=shp))
        return out
    if kind in ("H.Point", "H.PointPair", "H.Segment", "H.Polygon"):
        for k in out:
            if xclass == "near-boundary":
                r = 1.0 - np.exp(rng.uniform(np.log(1e-6), np.log(1e-2), size=out[k].shape[:-1] + (1,)))
            else:
                r = np.exp(rng.uniform(np.log(1e-8), np.log(1e-3), size=out[k].shape[:-1] + (1,)))
            out[k] = rh.klein_to_proj(rh.rand_sphere(rng, n, out[k].shape[:-1]) * r)
    return out


def wl_laws_library_maps(run, rng, idx):
    """the same laws with A, B produced by the library's own constructors and
    X drawn from hostile classes (negative / rescaled representatives, points
    near the boundary, points crowded at the origin)."""
    mon = run.monitor("action-laws")
    hk = G.HYPERBOLIC_KINDS
    kind = hk[idx % len(hk)]
    r = idx // len(hk)
    oshape = G.OBJ_SHAPES[r % len(G.OBJ_SHAPES)]
    r //= len(G.OBJ_SHAPES)
    wa = LIB_MAPS[r % len(LIB_MAPS)]
    wb = LIB_MAPS[(r // len(LIB_MAPS) + r) % len(LIB_MAPS)]
    xclass = X_CLASSES[(r // 3) % len(X_CLASSES)]
    n = c04.dims_for(kind, r // 2, lo=2)
    A = library_isometry(rng, n, wa)
    B = library_isometry(rng, n, wb)
    if A is None or B is None:
        A = library_isometry(rng, n, "origin_to") if A is None else A
        B = library_isometry(rng, n, "standard_loxodromic") if B is None else B
    MA = np.array(A.proj_data, dtype=float, copy=True)
    MB = np.array(B.proj_data, dtype=float, copy=True)
    raw = hostile(rng, kind, G.draw(rng, kind, n, oshape), xclass, n, oshape)
    if kind == "H.Segment" and xclass != "bulk":
        if float(np.min(rp.klein_sep(raw["P"], raw["Q"]))) < 1e-3:
            xclass = "bulk"
            raw = G.draw(rng, kind, n, oshape)
    case = {"kind": kind, "dimension": n, "object_shape": list(oshape), "A": wa, "B": wb,
            "x_class": xclass, "X": raw, "A(row matrix)": MA, "B(row matrix)": MB}
    run.current_case = case
    X = G.build(kind, raw)
    check_laws(run, mon, kind, n, oshape, (), (), "H.Isometry", False, raw, X, A, B, MA, MB,
               case, idx + 10, label="lib:%s,%s/%s" % (wa, wb, xclass))


def _row_product(MA, MB):
    """row matrix of A@B: x -> (x MB) MA (elementwise over composite shapes)."""
    return MB @ MA


# ---------------------------------------------------------------------------
# objects carrying dual data

DUAL_KINDS = list(GX.DUAL_KINDS)


def same_dual_object(mon, law, kind, L, R, tol, case, want_shape=None):
    """L ~ R as projective objects with dual data: class, shape, primary rows,
    derived edges and DUAL rows, each projectively."""
    key = "action-laws/%s" % law
    if not mon.require(type(L) is type(R), key + "/class",
                       "%s: classes differ: %s vs %s" % (law, type(L).__name__, type(R).__name__), case):
        return False
    if not mon.require(tuple(L.shape) == tuple(R.shape)
                       and (want_shape is None or tuple(L.shape) == tuple(want_shape)),
                       key + "/shape", "%s: composite shapes %r vs %r (expected %r)"
                       % (law, L.shape, R.shape, want_shape), case):
        return False
    ok = mon.judge(rp.max_row_dev(L.proj_data, R.proj_data), tol, key + "/primary",
                   "%s fails on the primary data of a %s" % (law, kind), case)
    if GX.DUAL_KINDS[kind][2] == "edges":
        if mon.require(L.aux_data is not None and R.aux_data is not None, key + "/auxiliary-lost",
                       "%s: derived data of a %s is missing" % (law, kind), case):
            ok = mon.judge(rp.max_row_dev(L.aux_data, R.aux_data), tol, key + "/auxiliary",
                           "%s fails on the auxiliary (derived) data of a %s" % (law, kind), case) and ok
    else:
        ok = mon.require(L.aux_data is None and R.aux_data is None, key + "/auxiliary-appeared",
                         "%s: auxiliary data appeared on a %s" % (law, kind), case) and ok
    if not mon.require(L.dual_data is not None and R.dual_data is not None, key + "/dual-lost",
                       "%s: the dual data of a %s is missing on one side" % (law, kind), case):
        return False
    dl, dr = np.asarray(L.dual_data), np.asarray(R.dual_data)
    d = np.asarray(L.proj_data).shape[-1]
    if not mon.require(dl.shape == dr.shape == tuple(L.shape) + (d,), key + "/dual-shape",
                       "%s: dual data of shape %r vs %r for a composite of shape %r in dimension %d"
                       % (law, dl.shape, dr.shape, tuple(L.shape), d - 1), case):
        return False
    return mon.judge(rp.max_row_dev(dl, dr), tol, key + "/dual",
                     "%s fails on the DUAL data of a %s (rows compared up to a scalar)"
                     % (law, kind), case) and ok


def _pairing(obj):
    """<dual, primary rows> per unit, flattened to (composite..., rows)."""
    pd = np.asarray(obj.proj_data)
    dd = np.asarray(obj.dual_data)
    if pd.ndim == dd.ndim:            # unit rank 1
        return np.sum(pd * dd, axis=-1)[..., None]
    return np.einsum("...kd,...d->...k", pd, dd)


def wl_dual(run, rng, idx):
    """the three laws on objects that carry dual data, with general (non
    orthogonal, non commuting) maps.  Seeded change C03-r4-1: dual data sent to
    d R^-1 instead of d R^-T -- identity and inverse round trips hold, but
    (A@B)@X carries d A^-1 B^-1 and A@(B@X) carries d B^-1 A^-1: a right action.
    Any law-breaking treatment of the third data slot (dropped, not broadcast,
    transformed by one factor only, ...) shows the same way."""
    from geometry_tools import projective as P
    mon = run.monitor("action-laws")
    kind = DUAL_KINDS[idx % len(DUAL_KINDS)]
    r = idx // len(DUAL_KINDS)
    oshape = GX.DUAL_OBJ_SHAPES[r % len(GX.DUAL_OBJ_SHAPES)]
    cx = GX.DUAL_KINDS[kind][3] and r % 2 == 1
    r //= len(GX.DUAL_OBJ_SHAPES)
    ashape, bshape = AB_SHAPES[r % len(AB_SHAPES)]
    if not compatible(oshape, ashape, bshape):
        ashape, bshape = (), ()
    lo = GX.DUAL_KINDS[kind][0]
    n = lo + (r + idx // 7) % (4 - lo + 1)
    raw = GX.draw_dual(rng, kind, n, oshape, cx=cx)
    araw = G.draw(rng, "P.Transformation", n, ashape, cx=cx)
    braw = G.draw(rng, "P.Transformation", n, bshape, cx=cx)
    MA, MB = araw["M"], braw["M"]
    dual_laws(run, mon, idx, kind, n, oshape, ashape, bshape, cx, raw, MA, MB, "P.Transformation")


def dual_laws(run, mon, idx, kind, n, oshape, ashape, bshape, cx, raw, MA, MB, maps):
    """the laws for one dual-carrying object and row matrices MA, MB."""
    from geometry_tools import projective as P
    case = {"kind": kind, "dimension": n, "object_shape": list(oshape), "A_shape": list(ashape),
            "B_shape": list(bshape), "maps": maps, "field": "complex" if cx else "real",
            "X(rows)": raw["X"], "X(dual)": raw["D"], "A(row matrix)": MA, "B(row matrix)": MB}
    run.current_case = case
    X = GX.build_dual(kind, raw)
    A = P.Transformation(MA.copy())
    B = P.Transformation(MB.copy())
    cA = float(np.max(np.linalg.cond(MA)))
    cB = float(np.max(np.linalg.cond(MB)))
    tol = BASE_TOL * (1.0 + cA * cB)
    sig = (kind, n, oshape, ashape, bshape, "complex" if cx else "real") + \
        (() if maps == "P.Transformation" else (maps,))
    if not mon.require(type(X).__name__ == kind.split(".")[1].split("/")[0] and tuple(X.shape) == tuple(oshape)
                       and X.dual_data is not None
                       and rp.max_row_dev(X.dual_data, raw["D"]) <= 1e-13
                       and rp.max_row_dev(X.proj_data, raw["X"]) <= 1e-13,
                       "action-laws/dual-object/construction",
                       "a %s built from rows and an explicit dual vector does not carry them" % kind, case):
        return
    if idx % 2:
        B.inv()
        A.inv()
    want_shape = np.broadcast_shapes(oshape, ashape, bshape)

    # (A@B)@X ~ A@(B@X)
    AB = A @ B
    L = AB @ X
    R = A @ (B @ X)
    same_dual_object(mon, "associativity", kind, L, R, tol, case, want_shape)
    run.note_class("dual-associativity", *sig)

    # identity
    IX = P.identity(n) @ X
    same_dual_object(mon, "identity", kind, IX, X, 1e-12, case, oshape)
    run.note_class("dual-identity", *sig)

    # inverse
    AX = A @ X
    back = A.inv() @ AX
    if tuple(np.broadcast_shapes(oshape, ashape)) == tuple(oshape):
        same_dual_object(mon, "inverse", kind, back, X, tol, case, oshape)
    else:
        for ridx, oi, _ in rp.operand_indices(oshape, ashape, "elementwise"):
            mon.judge(rp.max_row_dev(back.proj_data[ridx], X.proj_data[oi]), tol,
                      "action-laws/inverse/primary",
                      "A.inv()@(A@X) differs from X on the primary data of a %s" % kind, case)
            if mon.require(back.dual_data is not None
                           and np.asarray(back.dual_data).shape[:-1] == tuple(back.shape),
                           "action-laws/inverse/dual-shape",
                           "A.inv()@(A@X): dual data missing or not on the composite axes", case):
                mon.judge(rp.max_row_dev(back.dual_data[ridx], X.dual_data[oi]), tol,
                          "action-laws/inverse/dual",
                          "A.inv()@(A@X) differs from X on the DUAL data of a %s" % kind, case)
    # (A.inv()@A)@X ~ A.inv()@(A@X), dual data included
    LI = (A.inv() @ A) @ X
    same_dual_object(mon, "associativity-with-inverse", kind, LI, back, tol, case,
                     np.broadcast_shapes(oshape, ashape))
    run.note_class("dual-inverse", *sig)

    # the primary data by hand, the derived edges by the reference formula
    exp, _ = rp.loop_matrix_product(np.asarray(raw["X"]), MA, GX.DUAL_KINDS[kind][1], 2, "elementwise")
    mon.judge(rp.max_row_dev(AX.proj_data, exp), BASE_TOL * max(cA, 1.0), "action-laws/by-hand/A@X",
              "A@X is not (column matrix of A)(column vectors of X) for a %s" % kind, case)
    if GX.DUAL_KINDS[kind][2] == "edges" and AX.aux_data is not None:
        mon.judge(rp.max_row_dev(AX.aux_data, rp.polygon_edges(np.asarray(AX.proj_data))), 1e-7,
                  "action-laws/derived-data/edges",
                  "derived data of A@X is not what the reference formula gives for the "
                  "transformed primary data (%s)" % kind, case)

    # pairwise application: entry [object i][map j] is A[j] @ X[i], dual data
    # included; the unit objects are rebuilt from the slices of the raw inputs
    if idx % 2 == 0 and len(oshape) + len(ashape) <= 3:
        PW = A.apply(X, "pairwise")
        want_pw = tuple(oshape) + tuple(ashape)
        if mon.require(type(PW) is type(X) and tuple(PW.shape) == want_pw
                       and PW.dual_data is not None
                       and np.asarray(PW.dual_data).shape == want_pw + (n + 1,),
                       "action-laws/pairwise/class-or-shape",
                       "A.apply(X,'pairwise') is a %s of shape %r with dual data of shape %r; X is a "
                       "%s of shape %r, A has shape %r"
                       % (type(PW).__name__, PW.shape,
                          None if PW.dual_data is None else np.asarray(PW.dual_data).shape,
                          type(X).__name__, oshape, ashape), case):
            for oi in np.ndindex(*oshape):
                Xi = GX.build_dual(kind, GX.unit_raw(raw, oi))
                for ai in np.ndindex(*ashape):
                    E = P.Transformation(MA[ai].copy()) @ Xi
                    mon.judge(rp.max_row_dev(PW.proj_data[oi + ai], E.proj_data), tol,
                              "action-laws/pairwise/primary",
                              "pairwise image differs from A[j]@X[i] on the primary data of a %s" % kind, case)
                    mon.judge(rp.max_row_dev(PW.dual_data[oi + ai], E.dual_data), tol,
                              "action-laws/pairwise/dual",
                              "pairwise image differs from A[j]@X[i] on the DUAL data of a %s" % kind, case)
            run.note_class("dual-pairwise", *sig)

    # diagnostic only (the property does not state it): a dual vector that is
    # transported contragrediently keeps its pairing with the primary rows
    if AX.dual_data is not None and tuple(AX.shape) == tuple(oshape):
        with np.errstate(all="ignore"):
            s, t = _pairing(AX), _pairing(X)
            dev = rp.max_row_dev(s, t) if s.shape[-1] > 1 else 0.0
        if dev > 1e-6 * max(cA, 1.0):
            mon.diag("dual data of A@X does not pair with the image rows as the dual data of X "
                     "pairs with X (dual data is not transported by the inverse transpose)")
    if idx < 2:
        run.sample({"kind": kind, "dimension": n, "object_shape": list(oshape),
                    "A_shape": list(ashape), "B_shape": list(bshape), "X(dual)": raw["D"]})


# ---------------------------------------------------------------------------
# exact dyadic class: badly scaled matrices, no rounding anywhere

DYADIC_KINDS = ["P.Point", "P.Polygon", "P.PointPair", "P.Transformation", "P.Subspace", "P.Simplex"]
DYADIC_SHAPES = [((), ()), ((3,), ()), ((3,), (3,)), ((2, 3), (3,)), ((), (3,)), ((2, 3), ())]


def _dyadic_object(rng, kind, n, oshape):
    d = n + 1
    if kind == "P.Transformation":
        return {"M": GX.small_integer_matrix(rng, oshape, d)}
    if kind == "P.Point":
        return {"X": GX.small_integer_rows(rng, oshape, (d,))}
    k = {"P.Polygon": int(rng.integers(3, 6)), "P.PointPair": 2, "P.Subspace": 2,
         "P.Simplex": min(3, d)}[kind]
    return {"X": GX.small_integer_rows(rng, oshape, (k, d))}


def wl_dyadic(run, rng, idx):
    """the laws on the exact dyadic class.  The general workloads bound cond(A)
    by 50 and let the tolerance grow with it, so nothing there sees what happens
    to entries that are tiny *relative to the other entries of the same matrix*.
    Here A = P.D.(I + c e_ij) (entries 0 or +-2^k spanning >= 2^42 inside one
    matrix, also as the 6th..8th power of a moderate generator) and X has small
    integer coordinates: inversion, composition and application are exact, so
    A.inv()@(A@X) ~ X, A.inv()@A ~ id and the action of A.inv() by hand must hold
    to the flat tolerance whatever cond(A) is (seeded change C03-r4-3: entries of
    the inverse below 1e-12 x its largest entry flushed to zero)."""
    from geometry_tools import projective as P
    mon = run.monitor("action-laws")
    form = GX.DYADIC_FORMS[idx % len(GX.DYADIC_FORMS)]
    r = idx // len(GX.DYADIC_FORMS)
    kind = DYADIC_KINDS[(r + idx) % len(DYADIC_KINDS)]
    r //= 2
    oshape, ashape = DYADIC_SHAPES[(r + idx // 3) % len(DYADIC_SHAPES)]
    n = c04.dims_for(kind, r + idx // 5)
    d = n + 1
    if d < 2:
        n, d = 1, 2
    if "transvection" in form or form == "block-power":
        if d < 2:
            form = "diagonal"
    a = GX.draw_dyadic(rng, d, form, ashape)
    b = GX.draw_dyadic_moderate(rng, d, ())
    raw = _dyadic_object(rng, kind, n, oshape)
    # row matrices (the library's storage convention), exact transposes
    MA, MAi = np.swapaxes(a["M"], -1, -2).copy(), np.swapaxes(a["Minv"], -1, -2).copy()
    MB, MBi = np.swapaxes(b["M"], -1, -2).copy(), np.swapaxes(b["Minv"], -1, -2).copy()
    case = {"kind": kind, "dimension": n, "object_shape": list(oshape), "A_shape": list(ashape),
            "B_shape": [], "maps": "exact-dyadic:" + form, "X": raw,
            "A(row matrix)": MA, "A^-1(row matrix, exact)": MAi, "B(row matrix)": MB}
    run.current_case = case
    # certificates: every product the laws involve is free of rounding
    prim = G.primary(kind, raw)
    unit = G.KINDS[kind][2]
    MBA, o1 = dy.matmul_certified(MB, MA)                    # row matrix of A@B
    MBAi, o2 = dy.matmul_certified(MAi, MBi)
    xB, o3 = dy.rows_times_certified(prim, MB, unit)
    xBA, o4 = dy.rows_times_certified(xB, MA, unit)
    xBA2, o5 = dy.rows_times_certified(prim, MBA, unit)
    xA, o6 = dy.rows_times_certified(prim, MA, unit)
    xAAi, o7 = dy.rows_times_certified(xA, MAi, unit)
    xAi, o8 = dy.rows_times_certified(prim, MAi, unit)
    okc = (a["ok"] and b["ok"] and o1 and o2 and o3 and o4 and o5 and o6 and o7
           and GX.certify_inverse(MBA, MBAi)
           and np.array_equal(xBA, xBA2)
           and np.array_equal(xAAi, np.broadcast_to(prim, xAAi.shape)))
    if not okc:
        return mon.skip("exact-dyadic: a product is not certified free of rounding")
    X = G.build(kind, raw)
    A = P.Transformation(MA.copy())
    B = P.Transformation(MB.copy())
    check_laws(run, mon, kind, n, oshape, ashape, (), "P.Transformation", False, raw, X, A, B,
               MA, MB, case, idx, label="exact-dyadic:" + form, exact_tol=BASE_TOL, MAB_inv=MBAi)
    # the inverse acts as the exact inverse matrix, by hand
    Ai = A.inv()
    mon.judge(rp.max_mat_dev(Ai.proj_data, MAi), BASE_TOL, "action-laws/inverse/by-hand/matrix",
              "A.inv() is not the (exactly representable) inverse matrix of a badly scaled A", case)
    # A.inv() @ X by hand and the other order A @ (A.inv() @ X) ~ X: only when
    # applying the inverse to X itself is free of rounding as well (a row of the
    # inverse may mix 1/d_i and c/d_j of very different size)
    xAiA, o9 = dy.rows_times_certified(xAi, MA, unit)
    if o8 and o9 and np.array_equal(xAiA, np.broadcast_to(prim, xAiA.shape)):
        AiX = Ai @ X
        mon.judge(G.compare_primary(kind, AiX.proj_data, xAi), BASE_TOL,
                  "action-laws/inverse/by-hand/A.inv()@X",
                  "A.inv()@X is not (exact inverse matrix)(column vectors of X) for a %s" % kind, case)
        fwd = A @ AiX
        if tuple(np.broadcast_shapes(oshape, ashape)) == tuple(oshape):
            same_object(run, mon, "inverse-right", kind, fwd, X, BASE_TOL, case)
        run.note_class("exact-dyadic-inverse-first", form, kind, n)
    run.note_class("exact-dyadic", form, kind, n, oshape, ashape)

    # the same class reached as the image of a word: rep['a'*k] with a moderate
    # dyadic generator a (entries 2^+-7 at most), b monomial
    if idx % 2 == 0:
        _dyadic_words(run, rng, idx, n)


def _dyadic_words(run, rng, idx, n):
    from geometry_tools import projective as P
    mon = run.monitor("representation-action")
    d = n + 1
    k = 6 + (idx // 2) % 3
    bits = -(-42 // k)
    gform = "diagonal" if (idx // 2) % 2 == 0 else "diagonal+transvection"
    fa = GX._factors(rng, d, gform, (bits, bits + 1), cmax=4)
    ga, gai, oa = GX._product(fa)
    gb = GX.draw_dyadic_moderate(rng, d, ())
    gens = {"a": ga, "b": gb["M"]}
    invs = {"a": gai, "b": gb["Minv"]}
    rep = P.ProjectiveRepresentation()
    rep["a"] = P.Transformation(ga.copy(), column_vectors=True)
    rep["b"] = P.Transformation(gb["M"].T.copy())
    pshape = c04.pick([(), (3,), (2, 3)], idx // 4)
    x = GX.small_integer_rows(rng, pshape, (d,))
    p = P.Point(x.copy())
    others = ["A" * k, "b" + "a" * k, "a" * k + "B", "B" + "A" * k + "b"]
    words = ["a" * k, others[(idx // 2) % 4], others[(idx // 2 + 1 + (idx // 8) % 3) % 4]]
    case = {"representation": "ProjectiveRepresentation", "dimension": n,
            "generators(column)": gens, "point": x, "words": words, "class": "exact-dyadic"}
    run.current_case = case
    inv_word = lambda w: "".join(c.swapcase() for c in reversed(w))
    letter = lambda ch: gens[ch] if ch.islower() else invs[ch.lower()]
    memo = {"": (np.eye(d), True)}

    def cert(w):
        """certified product along w; the powers a^m / A^m are chained (and
        shared between the words), the monomial letters b, B are multiplied on
        afterwards -- every contiguous sub-word of w is then an exact product
        too (a monomial factor adds nothing up), whichever way a product along
        the word is bracketed."""
        if w in memo:
            return memo[w]
        if w[0] in "bB":
            M, o = cert(w[1:])
            R, o2 = dy.matmul_certified(letter(w[0]), M)
        else:
            M, o = cert(w[:-1])
            R, o2 = dy.matmul_certified(M, letter(w[-1]))
        memo[w] = (R, bool(o and o2))
        return memo[w]
    for w in words:
        M, o1 = cert(w)
        Mi, o2 = cert(inv_word(w))
        ok = bool(oa and gb["ok"] and o1 and o2)
        y, o3 = dy.rows_times_certified(x, M.T, 1)
        z, o4 = dy.rows_times_certified(y, Mi.T, 1)
        yi, o5 = dy.rows_times_certified(x, Mi.T, 1)
        if not (ok and o3 and o4 and GX.certify_inverse(M, Mi) and np.array_equal(z, x)):
            mon.skip("exact-dyadic: a product is not certified free of rounding")
            continue
        cw = dict(case, word=w)
        T = rep[w]
        img = T @ p
        mon.judge(rp.max_row_dev(img.proj_data, y), BASE_TOL, "representation-action/word-image",
                  "rep[w]@p differs from (product of the assigned generator matrices along w)"
                  "(column vector of p)", cw)
        Ti = T.inv()
        mon.judge(rp.max_row_dev((Ti @ img).proj_data, x), BASE_TOL,
                  "representation-action/word-inverse/round-trip",
                  "rep[w].inv() @ (rep[w] @ p) differs from p (badly scaled, exactly representable word)", cw)
        if o5:
            mon.judge(rp.max_row_dev((Ti @ p).proj_data, yi), BASE_TOL,
                      "representation-action/word-inverse/image",
                      "rep[w].inv() @ p differs from (inverse of the word's matrix)(column vector of p)", cw)
            mon.judge(rp.max_row_dev((Ti @ p).proj_data, (rep[inv_word(w)] @ p).proj_data), BASE_TOL,
                      "representation-action/word-inverse/inverse-word",
                      "rep[w].inv() @ p differs from rep[w^-1] @ p", cw)
        mon.judge(rp.max_mat_dev((Ti @ T).proj_data, np.eye(d)), BASE_TOL,
                  "representation-action/word-inverse/identity",
                  "rep[w].inv() @ rep[w] is not the identity", cw)
        run.note_class("exact-dyadic-word", gform, n, len(w), pshape,
                       dy.spread(M) >= 2.0 ** 40)


# ---------------------------------------------------------------------------
# products that are EXACTLY the identity

EXACT_ID_SHAPES = [((), (3,)), ((), (2, 3)), ((3,), (2, 3)), ((), (4,)), ((3,), (2, 1)),
                   ((1,), (3,)), ((), (1,)), ((3,), (3,))]
EXACT_ID_MODES = ["involution-squared", "involution-times-inverse", "signed-permutation-times-inverse",
                  "dyadic-times-inverse"]
RELATORS = ["", "aa", "aA", "bB", "Bb", "AA", "abBA", "aabB"]


def wl_exact_identity(run, rng, idx):
    """the laws for pairs (A, B) whose product is EXACTLY the identity matrix --
    composite stacks of exact involutions composed with themselves (coordinate
    reflections, swaps), signed permutations and exactly invertible dyadic
    matrices composed with their inverses -- acting on objects with FEWER
    composite axes than the maps: (A@B)@X must have the broadcast shape and
    equal A@(B@X) unit by unit.  With float products that are the identity only
    up to rounding this never happens, so a shortcut for identity maps was never
    exercised (seeded change C03-r6-3: a stack of exact identities returns the
    object untouched, without broadcasting its composite axes).  The same for
    lists of relators ('' , 'aa', 'aA', ...) of exact generators through
    rep.elements(words) @ p."""
    from geometry_tools import projective as P, hyperbolic as H
    mon = run.monitor("action-laws")
    kind = KINDS[idx % len(KINDS)]
    r = idx // len(KINDS)
    hyp = G.KINDS[kind][1]
    oshape, ashape = EXACT_ID_SHAPES[(r + idx) % len(EXACT_ID_SHAPES)]
    mode = EXACT_ID_MODES[(r + idx // 3) % (3 if hyp else 4)]
    n = c04.dims_for(kind, r + idx // 7)
    d = n + 1
    tkind = "H.Isometry" if hyp else "P.Transformation"
    dy_inv = None
    if mode == "dyadic-times-inverse":
        a = GX.draw_dyadic(rng, d, GX.DYADIC_FORMS[idx % 4], ashape, min_spread_bits=6 + idx % 30)
        MAc, dy_inv = a["M"], a["Minv"]
        if not GX.certify_inverse(MAc, dy_inv):
            return mon.skip("exact-dyadic: a product is not certified free of rounding")
    else:
        MAc = GX.signed_permutations(rng, d, ashape, involution=mode.startswith("involution"), fix0=hyp)
    Tcls = H.Isometry if hyp else P.Transformation
    A = Tcls(MAc.copy(), column_vectors=True)
    if mode == "involution-squared":
        B, MBc = Tcls(MAc.copy(), column_vectors=True), MAc
    else:
        B = A.inv()
        MBc = np.swapaxes(MAc, -1, -2) if dy_inv is None else dy_inv
    MA, MB = np.swapaxes(MAc, -1, -2).copy(), np.swapaxes(MBc, -1, -2).copy()
    raw = G.draw(rng, kind, n, oshape)
    case = {"kind": kind, "dimension": n, "object_shape": list(oshape), "A_shape": list(ashape),
            "B_shape": list(ashape), "maps": tkind, "pair": mode, "X": raw,
            "A(row matrix)": MA, "B(row matrix)": MB}
    run.current_case = case
    eye = np.broadcast_to(np.eye(d), MA.shape)
    if not (np.array_equal(MB @ MA, eye) and np.array_equal(MA @ MB, eye)):
        return mon.skip("exact-identity: the reference product is not exactly the identity")
    if not mon.require(type(B) is Tcls and tuple(B.shape) == tuple(ashape)
                       and rp.max_mat_dev(B.proj_data, MB) <= 1e-13,
                       "action-laws/inverse/exact-matrix",
                       "A.inv() of an exactly invertible stack (%s) is not its inverse" % mode, case):
        return
    X = G.build(kind, raw)
    check_laws(run, mon, kind, n, oshape, ashape, ashape, tkind, False, raw, X, A, B, MA, MB,
               case, idx, label="exact-identity:" + mode, inverse_assoc=True)
    # the product applied unit by unit: entry [i] of (A@B)@X is X[broadcast index]
    AB = A @ B
    L = AB @ X
    want = tuple(np.broadcast_shapes(oshape, ashape))
    if mon.require(type(L) is type(X) and tuple(L.shape) == want
                   and np.shape(L.proj_data)[:len(want)] == want,
                   "action-laws/exact-identity/class-or-shape",
                   "(A@B)@X with A@B an exact stack of identities of shape %r is a %s of shape %r; "
                   "X is a %s of shape %r" % (ashape, type(L).__name__, L.shape, type(X).__name__, oshape), case):
        for ridx, oi, _ in rp.operand_indices(oshape, ashape, "elementwise"):
            mon.judge(G.compare_primary(kind, L.proj_data[ridx], X.proj_data[oi]), BASE_TOL,
                      "action-laws/exact-identity/primary",
                      "(A@B)@X with A@B the identity differs from X at a broadcast index (%s)" % kind, case)
        if X.aux_data is not None:
            mon.require(L.aux_data is not None and np.shape(L.aux_data)[:len(want)] == want,
                        "action-laws/exact-identity/auxiliary-shape",
                        "derived data of (A@B)@X has shape %r for a composite of shape %r"
                        % (None if L.aux_data is None else np.shape(L.aux_data), want), case)
    run.note_class("exact-identity", mode, kind, n, oshape, ashape)
    if idx % 2 == 0:
        _relator_words(run, rng, idx, n, hyp)


def _relator_words(run, rng, idx, n, hyp):
    from geometry_tools import projective as P, hyperbolic as H
    mon = run.monitor("representation-action")
    d = n + 1
    ga = GX.signed_permutations(rng, d, (), involution=True, fix0=hyp)
    gb = GX.signed_permutations(rng, d, (), involution=False, fix0=hyp)
    gens = {"a": ga, "b": gb}
    Tcls = H.Isometry if hyp else P.Transformation
    rep = (H.HyperbolicRepresentation if hyp else P.ProjectiveRepresentation)()
    rep["a"] = Tcls(ga.copy(), column_vectors=True)
    rep["b"] = Tcls(gb.T.copy())
    k = idx // 2
    lists = [["", "aa"], ["aA", "", "bB"], ["aa", "abBA", "AA", "aabB"], ["", "ab", "aa"], ["aa"], ["b", "aa", "a"]]
    words = lists[k % len(lists)]
    pshape = c04.pick([(), (1,), (2, 1), ()], k // 2)
    x = G.interior(rng, n, pshape) if hyp else rng.normal(size=tuple(pshape) + (d,))
    p = (H.Point if hyp else P.Point)(x.copy())
    case = {"representation": type(rep).__name__, "dimension": n, "generators(column)": gens,
            "point": x, "words": words, "class": "exact generators, lists with relators"}
    run.current_case = case
    Ts = rep.isometries(words) if hyp else rep.transformations(words)
    if not mon.require(type(Ts) is Tcls and tuple(Ts.shape) == (len(words),),
                       "representation-action/elements-class-or-shape",
                       "rep.elements(words) is a %s of shape %r" % (type(Ts).__name__, Ts.shape), case):
        return
    want = tuple(np.broadcast_shapes(pshape, (len(words),)))
    for tag, img in (("elements@p", Ts @ p), ("elements.apply(p)", Ts.apply(p))):
        if not mon.require(type(img) is type(p) and tuple(img.shape) == want
                           and np.shape(img.proj_data) == want + (d,),
                           "representation-action/elements-image-shape",
                           "%s for %d words and a point of shape %r is a %s of shape %r (expected %r)"
                           % (tag, len(words), pshape, type(img).__name__, img.shape, want), case):
            continue
        for ridx, oi, ti in rp.operand_indices(pshape, (len(words),), "elementwise"):
            Mw, _ = rp.word_matrix(gens, words[ti[0]])
            mon.judge(rp.max_row_dev(img.proj_data[ridx], Mw @ x[oi]), BASE_TOL,
                      "representation-action/elements-word-image",
                      "(rep.elements(words) @ p)[j] differs from word j's matrix applied to p",
                      dict(case, word=words[ti[0]]))
    run.note_class("relator-list", type(rep).__name__, n, len(words), pshape,
                   all(np.array_equal(rp.word_matrix(gens, w)[0], np.eye(d)) for w in words))


# ---------------------------------------------------------------------------
# structured matrices

STRUCT_KINDS = ["P.Point", "P.Polygon", "P.ProjectiveObject/u2", "P.Transformation", "P.PointPair",
                "P.ProjectiveObject/u1", "P.Subspace", "P.Simplex", "P.ConvexPolygon"]
STRUCT_SHAPES = [((), (), ()), ((3,), (), ()), ((3,), (3,), ()), ((2, 3), (3,), (3,)), ((), (3,), ()),
                 ((3,), (), (3,)), ((1, 3), (1,), (3,))]


def wl_structured(run, rng, idx):
    """the laws with A, B from *structured* classes -- complex unitary (diagonal
    of phases, Haar/QR factor, Householder reflection, monomial, conjugated
    plane rotation), scaled unitary, real orthogonal, permutation, oblique
    involution, unipotent, Hermitian positive -- on genuinely complex object
    data, through every route that inverts: A.inv(), (A@B).inv(), the inverse
    round trip, associativity with the inverse, dual objects, inverse letters
    of a representation.  The general workloads draw Gaussian matrices, which
    belong to none of the classes a numerical shortcut tests for (seeded change
    C03-r7-2: utils.invert returns the plain transpose whenever M M^* = I, i.e.
    the conjugate of the inverse of a complex unitary matrix)."""
    from geometry_tools import projective as P
    mon = run.monitor("action-laws")
    ns = len(GX.STRUCTURED)
    sa = GX.STRUCTURED[idx % ns]
    r = idx // ns
    kind = STRUCT_KINDS[(r + idx) % len(STRUCT_KINDS)]
    # B: the same class, another class, or a general matrix
    sb = [sa, GX.STRUCTURED[(idx + 1 + r) % ns], "general"][(r + idx // 2) % 3]
    dual = kind in GX.DUAL_KINDS
    cx = (idx % 4 != 3) and (not dual or GX.DUAL_KINDS[kind][3])
    oshape, ashape, bshape = STRUCT_SHAPES[(r + idx // 3) % len(STRUCT_SHAPES)]
    lo = GX.DUAL_KINDS[kind][0] if dual else G.KINDS[kind][0]
    n = lo + (r + idx // 5) % (4 - lo + 1)
    d = n + 1
    MA = GX.draw_structured(rng, d, sa, ashape, cx)
    MB = rp.rand_invertible(rng, d, bshape, cx=cx) if sb == "general" \
        else GX.draw_structured(rng, d, sb, bshape, cx)
    label = "structured:%s,%s" % (sa, sb)
    if dual:
        raw = GX.draw_dual(rng, kind, n, oshape, cx=cx)
        dual_laws(run, mon, idx, kind, n, oshape, ashape, bshape, cx, raw, MA, MB, label)
    else:
        raw = G.draw(rng, kind, n, oshape, cx=cx)
        case = {"kind": kind, "dimension": n, "object_shape": list(oshape), "A_shape": list(ashape),
                "B_shape": list(bshape), "maps": label, "field": "complex" if cx else "real",
                "X": raw, "A(row matrix)": MA, "B(row matrix)": MB}
        run.current_case = case
        X = G.build(kind, raw)
        A = P.Transformation(MA.copy())
        B = P.Transformation(MB.copy())
        check_laws(run, mon, kind, n, oshape, ashape, bshape, "P.Transformation", cx, raw, X, A, B,
                   MA, MB, case, idx, label=label, inverse_assoc=True)
        # the inverse by hand
        Ai = A.inv()
        cA = float(np.max(np.linalg.cond(MA)))
        mon.judge(rp.max_mat_dev(Ai.proj_data, np.linalg.inv(MA)), BASE_TOL * max(cA, 1.0) ** 2,
                  "action-laws/inverse/by-hand/matrix",
                  "A.inv() is not the inverse matrix of a structured A (%s)" % sa, case)
    run.note_class("structured", sa, sb, kind, n, "complex" if cx else "real", ashape)
    if idx % 2 == 0:
        _structured_words(run, rng, idx, n, cx)


def _structured_words(run, rng, idx, n, cx):
    """a representation whose generators are structured: the inverse letters
    (computed by the library when the generator is assigned) must act as the
    inverse matrices."""
    from geometry_tools import projective as P
    mon = run.monitor("representation-action")
    d = n + 1
    ns = len(GX.STRUCTURED)
    k = idx // 2
    sa, sb = GX.STRUCTURED[k % ns], GX.STRUCTURED[(k // ns + k + 3) % ns]
    gens = {"a": GX.draw_structured(rng, d, sa, (), cx), "b": GX.draw_structured(rng, d, sb, (), cx)}
    rep = P.ProjectiveRepresentation()
    rep["a"] = P.Transformation(gens["a"].copy(), column_vectors=True)
    if k % 3 == 2:
        rep["B"] = P.Transformation(np.linalg.inv(gens["b"]).T.copy())     # through the inverse letter
    else:
        rep["b"] = P.Transformation(gens["b"].T.copy())
    pshape = c04.pick([(), (3,), (2, 3)], k)
    x = G.draw(rng, "P.Point", n, pshape, cx=cx)["X"]
    p = P.Point(x.copy())
    words = ["A", "B", "aA", "Ab", "BA", "abAB", rp.random_word(rng, "ab", 5), rp.random_word(rng, "ab", 8)]
    case = {"representation": "ProjectiveRepresentation", "dimension": n, "generators(column)": gens,
            "generator_classes": [sa, sb], "point": x, "words": words,
            "field": "complex" if cx else "real"}
    run.current_case = case
    good, exps = [], []
    for w in words:
        Mw, scale = rp.word_matrix(gens, w)
        exp = np.einsum("ij,...j->...i", Mw, x)
        with np.errstate(all="ignore"):
            kappa = float(np.max(scale * np.linalg.norm(x, axis=-1) / np.linalg.norm(exp, axis=-1)))
        if not np.isfinite(kappa) or kappa > 1e6:
            mon.skip("ill-conditioned word (cancellation > 1e6)")
            continue
        tolw = 1e-10 * max(kappa, 1.0) * len(w)
        T = rep[w]
        mon.judge(rp.max_row_dev((T @ p).proj_data, exp), tolw, "representation-action/word-image",
                  "rep[w]@p differs from (product of the assigned generator matrices along w)"
                  "(column vector of p)", dict(case, word=w))
        mon.judge(rp.max_row_dev((T.inv() @ (T @ p)).proj_data, x), tolw,
                  "representation-action/word-inverse/round-trip",
                  "rep[w].inv() @ (rep[w] @ p) differs from p", dict(case, word=w))
        good.append(w)
        exps.append((exp, tolw))
    if good:
        img = rep.transformations(good).apply(p, "pairwise")
        if mon.require(tuple(img.shape) == tuple(pshape) + (len(good),),
                       "representation-action/pairwise-shape",
                       "elements.apply(p, 'pairwise') has shape %r" % (img.shape,), case):
            for j, w in enumerate(good):
                mon.judge(rp.max_row_dev(img.proj_data[..., j, :], exps[j][0]), exps[j][1],
                          "representation-action/pairwise-word-image",
                          "elements(words).apply(p,'pairwise')[i][j] differs from word j's "
                          "matrix applied to point i", dict(case, word=w))
    run.note_class("structured-word", sa, sb, n, pshape, "complex" if cx else "real")


# ---------------------------------------------------------------------------
# representations

def wl_words(run, rng, idx):
    from geometry_tools import projective as P, hyperbolic as H
    mon = run.monitor("representation-action")
    hyp = bool(idx % 2)
    n = 1 + (idx // 2) % 4
    ngen = 1 + (idx // 8) % 3
    letters = "abc"[:ngen]
    cx = (not hyp) and (idx % 3 == 0)
    pshape = c04.pick([(), (3,), (2, 3)], idx // 24)
    gens = {}
    if hyp:
        rep = H.HyperbolicRepresentation()
        for l in letters:
            gens[l] = rh.rand_isometry(rng, n, tmax=0.8)
    else:
        rep = P.ProjectiveRepresentation()
        for l in letters:
            M = rp.rand_invertible(rng, n + 1, cx=cx, cond_max=6.0)
            gens[l] = M / np.linalg.norm(M, 2)
    mixed = "none"
    if (not hyp) and ngen >= 2 and idx % 4 == 2:
        # generators of mixed dtype, the narrower one assigned LAST (seeded change
        # C03-r2-1: bulk word images cast to the dtype of the last generator)
        last = letters[-1]
        if cx:
            gens[last] = np.real(gens[last]) + 0.0
            if abs(np.linalg.det(gens[last])) < 1e-3:
                gens[last] = gens[last] + np.eye(n + 1)
            mixed = "complex-then-real"
        else:
            U = np.eye(n + 1, dtype=np.int64)
            for _ in range(3):
                i, j = rng.choice(n + 1, size=2, replace=False)
                U[int(i)] += int(rng.integers(-1, 2)) * U[int(j)]
            gens[last] = U
            mixed = "float-then-int"

    via_inverse_name = (idx // 2) % 3 == 1

    def assign(k, l):
        # assign through both conventions
        M = gens[l]
        name = l
        if via_inverse_name and k == len(letters) - 1 and M.dtype.kind != "i":
            # the generator is given through its inverse letter: rep['B'] = T^-1
            # must make rep['b'] act as T (seeded change C03-r3-3: the pair
            # stored in a canonical order with the matrices swapped)
            M = np.linalg.inv(M)
            name = l.upper()
        if k % 2 == 0:
            T = (H.Isometry if hyp else P.Transformation)(M.copy(), column_vectors=True)
        else:
            T = (H.Isometry if hyp else P.Transformation)(M.T.copy())
        rep[name] = T
    for k, l in enumerate(letters):
        assign(k, l)
    if idx % 3 == 1:
        # re-assign a generator on the same representation object: its inverse
        # letter must follow (seeded change C03-r2-3: stale inverse after a
        # second assignment)
        l = letters[0]
        if hyp:
            gens[l] = rh.rand_isometry(rng, n, tmax=0.8)
        else:
            M2 = rp.rand_invertible(rng, n + 1, cx=cx, cond_max=6.0)
            gens[l] = M2 / np.linalg.norm(M2, 2)
        assign(1, l)
    x = G.interior(rng, n, pshape) if hyp else G.draw(rng, "P.Point", n, pshape, cx=cx)["X"]
    p = (H.Point if hyp else P.Point)(x.copy())
    words = [""] + [rp.random_word(rng, letters, int(L)) for L in rng.integers(1, 13, size=6)]
    words.append(letters[0].upper() + letters[-1] + letters[0])      # always an inverse letter
    case = {"representation": type(rep).__name__, "dimension": n, "generators(column)": gens,
            "point": x, "words": words, "mixed_dtype": mixed, "reassigned": idx % 3 == 1,
            "last_generator_assigned_via_inverse_name": via_inverse_name}
    run.current_case = case
    want_T = H.Isometry if hyp else P.Transformation
    images = {}
    for w in words:
        Mw, scale = rp.word_matrix(gens, w)
        T = rep[w]
        if not mon.require(type(T) is want_T, "representation-action/element-class",
                           "rep[%r] is a %s" % (w, type(T).__name__), case):
            continue
        img = T @ p
        if not mon.require(type(img) is type(p) and tuple(img.shape) == tuple(pshape),
                           "representation-action/image-class-or-shape",
                           "rep[w]@p is a %s of shape %r" % (type(img).__name__, img.shape), case):
            continue
        exp = np.einsum("ij,...j->...i", Mw, x)
        with np.errstate(all="ignore"):
            kappa = float(np.max(scale * np.linalg.norm(x, axis=-1) / np.linalg.norm(exp, axis=-1)))
        if not np.isfinite(kappa) or kappa > 1e6:
            mon.skip("ill-conditioned word (cancellation > 1e6)")
            continue
        images[w] = (exp, kappa)
        mon.judge(rp.max_row_dev(img.proj_data, exp), 1e-11 * max(kappa, 1.0) * max(len(w), 1),
                  "representation-action/word-image",
                  "rep[w]@p differs from (product of the assigned generator matrices along w)"
                  "(column vector of p)", dict(case, word=w))
        # the element itself, as a column matrix up to scalar
        mon.judge(rp.max_mat_dev(np.swapaxes(T.proj_data, -1, -2), Mw),
                  1e-11 * max(scale / max(np.linalg.norm(Mw, 2), 1e-300), 1.0) * max(len(w), 1),
                  "representation-action/word-matrix",
                  "rep[w] is not the product of the assigned generator matrices along w",
                  dict(case, word=w))
        run.note_class("word", type(rep).__name__, n, ngen, min(len(w), 12) // 4, pshape,
                       "complex" if cx else "real")
    # composite of words applied pairwise: entry [point i][word j]
    good = [w for w in words if w in images]
    if good:
        Ts = rep.isometries(good) if hyp else rep.transformations(good)
        if mon.require(type(Ts) is want_T and tuple(Ts.shape) == (len(good),),
                       "representation-action/elements-class-or-shape",
                       "rep.elements(words) is a %s of shape %r" % (type(Ts).__name__, Ts.shape), case):
            img = Ts.apply(p, "pairwise")
            if mon.require(tuple(img.shape) == tuple(pshape) + (len(good),),
                           "representation-action/pairwise-shape",
                           "elements.apply(p, 'pairwise') has shape %r, expected %r"
                           % (img.shape, tuple(pshape) + (len(good),)), case):
                for j, w in enumerate(good):
                    exp, kappa = images[w]
                    mon.judge(rp.max_row_dev(img.proj_data[..., j, :], exp),
                              1e-11 * max(kappa, 1.0) * max(len(w), 1),
                              "representation-action/pairwise-word-image",
                              "elements(words).apply(p,'pairwise')[i][j] differs from word j's "
                              "matrix applied to point i", dict(case, word=w))
    # every enumeration route returns, next to each word, the element that acts
    # as that word's matrix
    check_enumerations(run, mon, rng, idx, rep, gens, letters, hyp, p, x, pshape, case)
    run.current_case = case
    # a subgroup representation acts through the substituted words, whichever way
    # its inverse generators are obtained
    if ngen >= 2 and mixed == "none":
        sw = {"a": rp.random_word(rng, letters, 2) + letters[0], "b": letters[-1] + rp.random_word(rng, letters, 1)}
        ci = bool(idx % 2)
        case3 = dict(case, subgroup_generators=sw, compute_inverse=ci)
        run.current_case = case3
        sub = rep.subgroup(sw, compute_inverse=ci)
        inv = lambda w: "".join(c.swapcase() for c in reversed(w))
        for w in ("a", "B", "abAB", "Ba", rp.random_word(rng, "ab", 5)):
            full = "".join(sw[c] if c.islower() else inv(sw[c.lower()]) for c in w)
            Mw, scale = rp.word_matrix(gens, full)
            img = sub[w] @ p
            exp = np.einsum("ij,...j->...i", Mw, x)
            with np.errstate(all="ignore"):
                kappa = float(np.max(scale * np.linalg.norm(x, axis=-1) / np.linalg.norm(exp, axis=-1)))
            if not np.isfinite(kappa) or kappa > 1e6:
                mon.skip("ill-conditioned word (cancellation > 1e6)")
                continue
            mon.judge(rp.max_row_dev(img.proj_data, exp), 1e-11 * max(kappa, 1.0) * len(full),
                      "representation-action/subgroup-word-image",
                      "subgroup(...)[w]@p differs from the substituted word's matrix applied to p",
                      dict(case3, word=w, substituted=full))
            run.note_class("subgroup-word", type(rep).__name__, n, ci)
    if idx < 3:
        run.sample({"representation": type(rep).__name__, "dimension": n, "words": words})


ENUM_ROUTES = ["default", "start_state", "end_state", "freely_reduced"]


def check_enumerations(run, mon, rng, idx, rep, gens, letters, hyp, p, x, pshape, case):
    """the representation clause on the enumeration routes: the elements
    returned by automaton_accepted (from the start state, from a prescribed
    start_state, backwards from a prescribed end_state; words up to / of exactly
    the length; with or without the word list) and by freely_reduced_elements
    act on a point as the matrices of the words returned with them.  Which words
    are returned is C06's business; here only 'element i is the image of word
    i'.  Seeded change C03-r4-2: on the end_state route the edge element
    multiplied on the wrong side, so element i was the image of word i
    reversed."""
    from geometry_tools import projective as P, hyperbolic as H
    from geometry_tools.automata import fsa
    want_T = H.Isometry if hyp else P.Transformation
    ngen = len(letters)
    length = 3 if ngen <= 2 else 2
    free = (idx // 2) % 2 == 0
    if free:
        F = fsa.free_automaton(list(letters))
        states = list(letters) + [l.upper() for l in letters]
        auto = "free"
    else:
        ns = 2 + idx % 3
        graph = GX.random_graph(rng, letters, ns)
        F = fsa.FSA(graph, start_vertices=[0])
        states = list(range(ns))
        auto = "random-deterministic"
    st = states[int(rng.integers(0, len(states)))]
    calls = []
    for route in ENUM_ROUTES:
        if route == "freely_reduced" and not free:
            continue
        for maxlen in (True, False):
            calls.append((route, maxlen))
    # three of the calls per case, rotating with the case index; one of them is
    # repeated without the word list
    calls = [calls[(idx + o) % len(calls)] for o in (0, 3, 5)]
    nowords = calls[(idx // 3) % len(calls)]
    x2 = np.asarray(x)
    for route, maxlen in calls:
        kw = {"maxlen": maxlen}
        if route == "start_state":
            kw["start_state"] = st
        elif route == "end_state":
            kw["end_state"] = st
        if (idx // 4) % 2 and route != "freely_reduced":
            kw["edge_words"] = False
        c2 = dict(case, enumeration=route, automaton=auto, state=st if route.endswith("state") else None,
                  length=length, options={k: v for k, v in kw.items() if not k.endswith("state")})
        if not free:
            c2["automaton_graph"] = {str(k): {lab: int(w) for lab, w in nb.items()} for k, nb in graph.items()}
        run.current_case = c2
        key = "representation-action/enumeration/%s" % route
        if route == "freely_reduced":
            res = rep.freely_reduced_elements(length, with_words=True, **kw)
        else:
            res = rep.automaton_accepted(F, length, with_words=True, **kw)
        if not mon.require(isinstance(res, tuple) and len(res) == 2, key + "/result-form",
                           "with_words=True does not return (elements, words)", c2):
            continue
        Ts, ws = res
        ws = list(ws)
        if not ws:
            mon.skip("enumeration returned no word")
            continue
        if not mon.require(type(Ts) is want_T and tuple(Ts.shape) == (len(ws),),
                           key + "/class-or-shape",
                           "%s returns a %s of shape %r next to %d words"
                           % (route, type(Ts).__name__, Ts.shape, len(ws)), c2):
            continue
        img = Ts.apply(p, "pairwise")
        if not mon.require(type(img) is type(p) and tuple(img.shape) == tuple(pshape) + (len(ws),),
                           key + "/image-class-or-shape",
                           "elements.apply(p,'pairwise') is a %s of shape %r" % (type(img).__name__, img.shape), c2):
            continue
        # all words at once: matrices along the words, images of the point,
        # cancellation factors (the witness dict is only built on failure)
        pairs = [rp.word_matrix(gens, w) for w in ws]
        Mst = np.stack([m for m, _ in pairs])
        scl = np.array([sc for _, sc in pairs])
        exp = np.einsum("kij,...j->...ki", Mst, x2)                 # pshape + (k, d)
        with np.errstate(all="ignore"):
            kap = scl * np.linalg.norm(x2, axis=-1)[..., None] / np.linalg.norm(exp, axis=-1)
            kap = np.max(kap.reshape(-1, len(ws)), axis=0)
            dimg = np.max(np.asarray(rp.row_dev(img.proj_data, exp)).reshape(-1, len(ws)), axis=0) \
                if np.asarray(img.proj_data).shape == exp.shape else np.full(len(ws), np.inf)
            dmat = np.asarray(rp.mat_dev(np.swapaxes(np.asarray(Ts.proj_data), -1, -2), Mst)).reshape(-1)
            nrm = np.linalg.norm(Mst, 2, axis=(-2, -1))
        if dmat.shape != (len(ws),):
            dmat = np.full(len(ws), np.inf)
        mats, tols, broken = [], [], False
        for j, w in enumerate(ws):
            kappa = float(kap[j])
            if not np.isfinite(kappa) or kappa > 1e6:
                mon.skip("ill-conditioned word (cancellation > 1e6)")
                mats.append(None)
                tols.append(None)
                continue
            mats.append(Mst[j])
            tols.append(1e-11 * max(scl[j] / max(nrm[j], 1e-300), 1.0) * max(len(w), 1))
            t1 = 1e-11 * max(kappa, 1.0) * max(len(w), 1)
            bad = not (dimg[j] <= t1 and dmat[j] <= tols[-1])
            cw = dict(c2, word=w, position=j) if bad else c2
            ok = mon.judge(dimg[j], t1, key + "/word-image",
                           "element i of the enumeration, applied to p, differs from (matrix of the "
                           "word returned at position i)(column vector of p)", cw)
            ok = mon.judge(dmat[j], tols[-1], key + "/word-matrix",
                           "element i of the enumeration is not the product of the assigned generator "
                           "matrices along the word returned at position i", cw) and ok
            if not ok:
                broken = True
                break
        run.note_class("enumeration", type(rep).__name__, route, maxlen, auto, ngen, pshape,
                       kw.get("edge_words", True))
        if broken or (route, maxlen) != nowords:
            continue
        # without the word list: the same elements (position by position; a
        # different order is accepted if the elements match as a multiset)
        if route == "freely_reduced":
            T2 = rep.freely_reduced_elements(length, **kw)
        else:
            T2 = rep.automaton_accepted(F, length, **kw)
        if not mon.require(type(T2) is want_T and tuple(T2.shape) == (len(ws),),
                           key + "/no-words/class-or-shape",
                           "%s without words returns a %s of shape %r; with words there are %d"
                           % (route, type(T2).__name__, getattr(T2, "shape", None), len(ws)), c2):
            continue
        got = np.swapaxes(np.asarray(T2.proj_data), -1, -2)
        todo = [j for j in range(len(ws)) if mats[j] is not None]
        bad = [j for j in todo if not rp.max_mat_dev(got[j], mats[j]) <= tols[j]]
        if bad:
            # multiset matching of the misplaced elements
            pool = list(bad)
            for j in bad:
                hit = next((q for q in pool if rp.max_mat_dev(got[j], mats[q]) <= tols[q]), None)
                if hit is None:
                    mon.fail(key + "/no-words/element",
                             "an element returned without the word list is the image of none of the "
                             "words the same call returns with with_words=True", dict(c2, position=j))
                    break
                pool.remove(hit)
            else:
                mon.ok(0.0)
        else:
            mon.ok(0.0)


WORKLOADS = [
    Workload("laws", wl_laws, quick=1300, thorough=20000),
    Workload("laws-library-maps", wl_laws_library_maps, quick=500, thorough=8000),
    Workload("words", wl_words, quick=300, thorough=5000),
    Workload("dual-objects", wl_dual, quick=210, thorough=4000),
    Workload("exact-dyadic", wl_dyadic, quick=180, thorough=3000),
    Workload("exact-identity", wl_exact_identity, quick=152, thorough=3000),
    Workload("structured", wl_structured, quick=180, thorough=3000),
]
