"""C03 -- applying transformations is a left group action on every kind of object.

Monitors
  apply-contract   (P) postcondition on Transformation.apply (Isometry inherits
                   it; ``@`` goes through it): result has the class, unit ranks,
                   auxiliary data and composite shape the operand / broadcast
                   rule dictate, and its primary and auxiliary data are the
                   operand's rows times the row matrix (explicit per-unit loop).
                   Fires on every call, the library's internal ones included.
  action-laws      (W) (A@B)@X ~ A@(B@X), id@X ~ X, A.inv()@(A@X) ~ X on primary
                   and auxiliary data, as projective objects; class and shape of
                   every result; A@X against (column matrix)(column vector) by
                   hand; the transformed object's derived data against the
                   reference formulas.
  representation-action (W) rep[w] @ p against the product, along the word, of
                   the generator matrices *as assigned* (column convention)
                   applied to the column vector of p.
  matrix-product   (P, cross monitor of C04, not deciding here).
"""
import numpy as np

from ..run import Workload
from .. import attach
from ..ref import hyp as rh
from ..ref import proj as rp
from ..gen import projobjs as G
from . import c04

ID = "C03"
RULE = ("law cases = (object class, dimension 1..4, composite shape, shapes of A and B, "
        "field real/complex, kind of map: general invertible cond<=50 for projective "
        "objects, reference isometries of O(n,1) for hyperbolic ones, general "
        "invertible on hyperbolic objects for the linear part only); word cases = "
        "(representation class, #generators<=3, word length<=12, point shape); "
        "matrices are non-symmetric and non-commuting; non-trivial = A, B != identity "
        "and AB != BA; distinct = distinct (law, class, dimension, shapes, field) "
        "signatures")
ASSUMPTIONS = [
    "ConvexPolygon (dual data, constructor re-orders vertices) is not in the "
    "property's list of object kinds and is excluded",
    "projective comparison: per unit row up to a non-zero (complex) scalar, per "
    "matrix for transformations; a tangent vector (p,v) equals (sp,tv) iff st>0",
    "derived data of hyperbolic objects is required to follow the primary data "
    "only under form-preserving maps; under general invertible maps only the "
    "(linear) action laws are judged on it",
    "tolerance scales with cond(A)*cond(B) (inverse law) and, for words, with "
    "prod|g_i| |x| / |rho(w)x| (cancellation); cases beyond 1e6 are out of domain",
]
ANCHORS = [
    ("geometry_tools/projective.py", "Transformation.__init__"),
    ("geometry_tools/projective.py", "Transformation._apply_to_data"),
    ("geometry_tools/projective.py", "Transformation.apply"),
    ("geometry_tools/projective.py", "Transformation.inv"),
    ("geometry_tools/projective.py", "Transformation.__matmul__"),
    ("geometry_tools/projective.py", "ProjectiveRepresentation.wrap_func"),
    ("geometry_tools/projective.py", "ProjectiveRepresentation.unwrap_func"),
    ("geometry_tools/projective.py", "ProjectiveRepresentation.array_wrap_func"),
    ("geometry_tools/projective.py", "identity"),
    ("geometry_tools/hyperbolic.py", "Isometry.__init__"),
    ("geometry_tools/hyperbolic.py", "HyperbolicRepresentation.wrap_func"),
    ("geometry_tools/hyperbolic.py", "HyperbolicRepresentation.array_wrap_func"),
    ("geometry_tools/hyperbolic.py", "identity"),
    ("geometry_tools/representation.py", "Representation._word_value"),
    ("geometry_tools/representation.py", "Representation.elements"),
    ("geometry_tools/representation.py", "Representation._set_generator"),
    ("geometry_tools/utils/core.py", "matrix_product"),
    ("geometry_tools/utils/core.py", "invert"),
]
REQUIRED = [
    ("geometry_tools/projective.py", "Transformation.apply", "aux_product = self._apply_to_data("),
    ("geometry_tools/projective.py", "Transformation.apply", "new_obj.set(proj_data=proj_product,"),
    ("geometry_tools/projective.py", "Transformation.__init__", "self.set(proj_data.swapaxes(-1,-2), **kwargs)"),
    ("geometry_tools/projective.py", "Transformation.inv", "return self.__class__(utils.invert(self.matrix))"),
    ("geometry_tools/representation.py", "Representation._word_value", "matrix = matrix @ self.generators[gen]"),
]

BASE_TOL = 1e-10


def setup(run):
    from geometry_tools import projective as P
    c04.attach_funnel(run, deciding=False)
    mon = run.monitor("apply-contract", min_events=300)

    def hook(call):
        if call.exc is not None:
            return
        b = call.bound()
        T, X, mode = b.get("self"), b.get("proj_obj"), b.get("broadcast")
        if not isinstance(X, P.ProjectiveObject):
            return mon.skip("operand is not a projective object")
        if isinstance(X, P.ConvexPolygon):
            return mon.skip("ConvexPolygon")
        if X.proj_data is None or mode not in rp.MODES:
            return mon.skip("no primary data / unknown mode")
        res = call.result
        cls = type(X).__name__
        hypmod = type(X).__module__.split(".")[-1]
        case = run.current_case
        sig = "%s.%s/%s" % (hypmod, cls, mode)
        try:
            want = rp.result_shape(X.shape, T.shape, mode)
        except ValueError:
            return mon.skip("shapes do not broadcast")
        if not mon.require(type(res) is type(X), "apply-contract/class/%s" % sig,
                           "apply of %s to a %s returns a %s"
                           % (type(T).__name__, cls, type(res).__name__), case):
            return
        if not mon.require(tuple(res.shape) == tuple(want), "apply-contract/shape/%s" % sig,
                           "apply[%s]: operand shape %r, transformation shape %r -> result "
                           "shape %r, expected %r" % (mode, X.shape, T.shape, res.shape, want), case):
            return
        if not mon.require((res.unit_ndims, res.aux_ndims) == (X.unit_ndims, X.aux_ndims)
                           and (res.aux_data is None) == (X.aux_data is None),
                           "apply-contract/unit-ranks/%s" % sig,
                           "apply changes the unit ranks / drops auxiliary data "
                           "(%r,%r,aux %s) -> (%r,%r,aux %s)"
                           % (X.unit_ndims, X.aux_ndims, X.aux_data is not None,
                              res.unit_ndims, res.aux_ndims, res.aux_data is not None), case):
            return
        M = np.asarray(T.proj_data)
        if M.dtype.kind not in "biufc" or np.asarray(X.proj_data).dtype.kind not in "biufc":
            return mon.skip("non-numeric dtype")
        total = int(np.prod(want)) if want else 1
        if total > 600:
            return mon.skip("large composite (judged by the funnel monitor)")
        cond = float(np.max(np.linalg.cond(M))) if M.size else 1.0
        if not np.isfinite(cond) or cond > 1e6:
            return mon.skip("ill-conditioned matrix")
        tol = BASE_TOL * max(cond, 1.0)
        matrix_like = isinstance(X, P.Transformation)
        for name, data, unit in (("primary", X.proj_data, X.unit_ndims),
                                 ("auxiliary", X.aux_data, X.aux_ndims)):
            if data is None:
                continue
            exp, _ = rp.loop_matrix_product(np.asarray(data), M, unit, 2, mode)
            got = np.asarray(getattr(res, "proj_data" if name == "primary" else "aux_data"))
            if got.shape != exp.shape:
                mon.fail("apply-contract/%s-shape/%s" % (name, sig),
                         "apply: %s data of the result has shape %r, rows-times-matrix "
                         "gives %r" % (name, got.shape, exp.shape), case)
                return
            err = rp.max_mat_dev(got, exp) if (matrix_like and name == "primary") \
                else rp.max_row_dev(got, exp)
            if not mon.judge(err, tol, "apply-contract/%s-value/%s" % (name, sig),
                             "apply: %s data of the result is not (projectively) the "
                             "operand's rows times the row matrix" % name, case):
                return
        run.note_class("apply", hypmod, cls, X.unit_ndims, X.aux_ndims,
                       len(X.shape), len(T.shape), mode)

    attach.wrap_attr(run, P.Transformation, "apply", hook)
    run.monitor("action-laws", min_events=300)
    run.monitor("representation-action", min_events=100)


# ---------------------------------------------------------------------------
# laws

KINDS = list(G.KINDS)
AB_SHAPES = [((), ()), ((), ()), ((3,), ()), ((), (3,)), ((3,), (3,)), ((1,), (3,)), ((2, 1), (1, 3))]


def compatible(oshape, ashape, bshape):
    try:
        np.broadcast_shapes(oshape, ashape, bshape)
        return True
    except ValueError:
        return False


def same_object(run, mon, law, kind, L, R, tol, case, aux_linear=True):
    """L ~ R as projective objects (class, shape, primary, auxiliary)."""
    key = "action-laws/%s" % law
    if not mon.require(type(L) is type(R), key + "/class",
                       "%s: classes differ: %s vs %s" % (law, type(L).__name__, type(R).__name__), case):
        return False
    if not mon.require(tuple(L.shape) == tuple(R.shape), key + "/shape",
                       "%s: composite shapes differ: %r vs %r" % (law, L.shape, R.shape), case):
        return False
    ok = mon.judge(G.compare_primary(kind, L.proj_data, R.proj_data), tol, key + "/primary",
                   "%s fails on the primary data of a %s" % (law, kind), case)
    if G.KINDS[kind][3] is not None:
        ok = mon.judge(G.compare_aux(kind, L.aux_data, R.aux_data), tol, key + "/auxiliary",
                       "%s fails on the auxiliary (derived) data of a %s" % (law, kind), case) and ok
    else:
        ok = mon.require(L.aux_data is None and R.aux_data is None, key + "/auxiliary-appeared",
                         "%s: auxiliary data appeared on a %s" % (law, kind), case) and ok
    for o in (L, R):
        if o.dual_data is not None:
            ok = mon.fail(key + "/dual-appeared", "%s: dual data appeared on a %s" % (law, kind), case)
    return ok


def wl_laws(run, rng, idx):
    from geometry_tools import projective as P, hyperbolic as H
    mon = run.monitor("action-laws")
    kind = KINDS[idx % len(KINDS)]
    r = idx // len(KINDS)
    oshape = G.OBJ_SHAPES[r % len(G.OBJ_SHAPES)]
    r //= len(G.OBJ_SHAPES)
    ashape, bshape = AB_SHAPES[r % len(AB_SHAPES)]
    if not compatible(oshape, ashape, bshape):
        ashape, bshape = (), ()
    r //= len(AB_SHAPES)
    hyp = G.KINDS[kind][1]
    n = c04.dims_for(kind, r + idx // 13)
    # map classes: hyperbolic objects get isometries, except every 4th round
    # where the linear part of the laws is exercised with a general matrix
    # (classes tied to the case index, not to the slow counter r, so that the
    # quick tier sees every one of them)
    general_on_hyp = hyp and (r % 4 == 3 or idx % 5 == 4)
    tkind = "H.Isometry" if (hyp and not general_on_hyp) else "P.Transformation"
    cx = (not hyp) and (r % 3 == 2 or idx % 3 == 2)
    raw = G.draw(rng, kind, n, oshape, cx=cx)
    araw = G.draw(rng, tkind, n, ashape, cx=cx)
    braw = G.draw(rng, tkind, n, bshape, cx=cx)
    case = {"kind": kind, "dimension": n, "object_shape": list(oshape), "A_shape": list(ashape),
            "B_shape": list(bshape), "maps": tkind, "field": "complex" if cx else "real",
            "X": raw, "A": araw, "B": braw}
    run.current_case = case
    X = G.build(kind, raw)
    A = G.build(tkind, araw)
    B = G.build(tkind, braw)
    MA, MB = G.row_matrix(tkind, araw), G.row_matrix(tkind, braw)
    check_laws(run, mon, kind, n, oshape, ashape, bshape, tkind, cx, raw, X, A, B, MA, MB,
               case, idx)
    if general_on_hyp and G.KINDS[kind][3] is not None:
        # mixed pair on a hyperbolic object with derived data: A a general
        # projective Transformation, B an Isometry.  A @ B is then an Isometry
        # *object* carrying the matrix A.B, and associativity must still hold on
        # the derived data (seeded change C03-r2-2: derived data transported by
        # Isometry objects but recomputed under plain Transformations)
        b2raw = G.draw(rng, "H.Isometry", n, bshape)
        B2 = G.build("H.Isometry", b2raw)
        MB2 = G.row_matrix("H.Isometry", b2raw)
        case2 = dict(case, B=b2raw, maps="P.Transformation @ H.Isometry")
        run.current_case = case2
        cA = float(np.max(np.linalg.cond(MA)))
        cB = float(np.max(np.linalg.cond(MB2)))
        tol = BASE_TOL * (1.0 + cA * cB)
        L = (A @ B2) @ X
        R = A @ (B2 @ X)
        same_object(run, mon, "associativity-mixed-classes", kind, L, R, tol, case2)
        IY = P.identity(n) @ L
        same_object(run, mon, "identity-after-mixed-product", kind, IY, L, 1e-12, case2)
        run.note_class("associativity-mixed", kind, n, oshape, ashape, bshape)


def check_laws(run, mon, kind, n, oshape, ashape, bshape, tkind, cx, raw, X, A, B, MA, MB,
               case, idx, label=None):
    """the law triples for one (X, A, B); MA, MB are the row matrices of A, B
    known independently of the calls under test."""
    from geometry_tools import projective as P, hyperbolic as H
    cA = float(np.max(np.linalg.cond(MA)))
    cB = float(np.max(np.linalg.cond(MB)))
    tol = BASE_TOL * (1.0 + cA * cB)
    sig = (kind, n, oshape, ashape, bshape, label or tkind, "complex" if cx else "real")

    # non-triviality of the draw (independent of the library)
    noncomm = float(np.max(np.abs(MA @ MB - MB @ MA))) if ashape == bshape == () else 1.0
    if noncomm < 1e-6 and n >= 2:
        mon.skip("commuting pair drawn")

    # every other case asks for the factors' inverses *before* composing, so that
    # anything an object memoises about itself (seeded change C03-2: a cached
    # inverse carried onto the product by apply's shallow copy) is in place when
    # the product and its inverse are formed
    if idx % 2:
        B.inv()
        A.inv()

    # (A@B)@X ~ A@(B@X)
    AB = A @ B
    L = AB @ X
    R = A @ (B @ X)
    want_shape = np.broadcast_shapes(oshape, ashape, bshape)
    mon.require(tuple(L.shape) == tuple(want_shape) and type(L) is type(X),
                "action-laws/associativity/class-or-shape",
                "(A@B)@X is a %s of shape %r; X is a %s, broadcast shape %r"
                % (type(L).__name__, L.shape, type(X).__name__, want_shape), case)
    same_object(run, mon, "associativity", kind, L, R, tol, case)
    mon.require(type(AB) is type(A), "action-laws/product-class",
                "A@B is a %s for A a %s" % (type(AB).__name__, type(A).__name__), case)
    run.note_class("associativity", *sig)

    # identity
    I = H.identity(n) if tkind == "H.Isometry" else P.identity(n)
    IX = I @ X
    same_object(run, mon, "identity", kind, IX, X, 1e-12, case)
    IA = I @ A
    AI = A @ I
    mon.judge(max(rp.max_mat_dev(IA.proj_data, A.proj_data), rp.max_mat_dev(AI.proj_data, A.proj_data)),
              1e-12, "action-laws/identity/transformation", "id@A or A@id differs from A", case)
    run.note_class("identity", *sig)

    # inverse
    Ai = A.inv()
    mon.require(type(Ai) is type(A) and tuple(Ai.shape) == tuple(A.shape),
                "action-laws/inverse/class-or-shape",
                "A.inv() is a %s of shape %r" % (type(Ai).__name__, Ai.shape), case)
    AX = A @ X
    back = Ai @ AX
    if tuple(np.broadcast_shapes(oshape, ashape)) == tuple(oshape):
        same_object(run, mon, "inverse", kind, back, X, tol, case)
    else:
        # the composite shape grew by broadcasting: compare with X broadcast
        for ridx, oi, _ in rp.operand_indices(oshape, ashape, "elementwise"):
            mon.judge(G.compare_primary(kind, back.proj_data[ridx], X.proj_data[oi]), tol,
                      "action-laws/inverse/primary",
                      "A.inv()@(A@X) differs from X on the primary data of a %s" % kind, case)
    AiA = Ai @ A
    eye = np.broadcast_to(np.eye(n + 1), AiA.proj_data.shape)
    mon.judge(rp.max_mat_dev(AiA.proj_data, eye), tol, "action-laws/inverse/transformation",
              "A.inv()@A is not the identity", case)
    ABi = AB.inv()
    mon.judge(rp.max_mat_dev(ABi.proj_data, np.linalg.inv(_row_product(MA, MB))),
              tol, "action-laws/inverse/of-product",
              "(A@B).inv() is not the inverse of the product", case)
    run.note_class("inverse", *sig)

    # pairwise application: entry [object i][map j] of A.apply(X, "pairwise") is
    # A[j] @ X[i] as a projective object, derived data included (seeded change
    # C03-r3-2: a spurious axis in the derived data of pairwise-transformed
    # polygons only)
    if idx % 2 == 0 and len(oshape) + len(ashape) <= 3:
        PW = A.apply(X, "pairwise")
        want_pw = tuple(oshape) + tuple(ashape)
        if mon.require(type(PW) is type(X) and tuple(PW.shape) == want_pw,
                       "action-laws/pairwise/class-or-shape",
                       "A.apply(X,'pairwise') is a %s of shape %r; X is a %s of shape %r, A has shape %r"
                       % (type(PW).__name__, PW.shape, type(X).__name__, oshape, ashape), case):
            for oi in np.ndindex(*oshape):
                for ai in np.ndindex(*ashape):
                    Aj = A[ai] if ai else A
                    if tkind == "H.Isometry" or G.KINDS[kind][3] in (None, "edges"):
                        E = Aj @ (X[oi] if oi else X)
                        got = PW[oi + ai] if (oi + ai) else PW
                        same_object(run, mon, "pairwise", kind, got, E, tol, case)
                    else:
                        # a general linear map on a hyperbolic object with
                        # non-linear derived data: indexing re-derives that data
                        # (and the image may leave the model), so compare the
                        # stored arrays of the pairwise and the elementwise image
                        EX = Aj @ X
                        mon.judge(G.compare_primary(kind, PW.proj_data[oi + ai], EX.proj_data[oi]), tol,
                                  "action-laws/pairwise/primary",
                                  "pairwise image differs from A[j]@X on the primary data of a %s" % kind, case)
                        if PW.aux_data is not None and PW.aux_data.shape[:len(want_pw)] == want_pw:
                            mon.judge(G.compare_aux(kind, PW.aux_data[oi + ai], EX.aux_data[oi]), tol,
                                      "action-laws/pairwise/auxiliary",
                                      "pairwise image differs from A[j]@X on the derived data of a %s"
                                      % kind, case)
            if PW.aux_data is not None:
                na = PW.aux_data.ndim - (X.aux_data.ndim - len(oshape))
                mon.require(tuple(PW.aux_data.shape[:na]) == want_pw,
                            "action-laws/pairwise/auxiliary-shape",
                            "derived data of A.apply(X,'pairwise') has shape %r for a composite of shape %r"
                            % (PW.aux_data.shape, want_pw), case)
            run.note_class("pairwise", *sig)

    # by hand: column matrix times column vector
    prim = G.primary(kind, raw)
    if prim is not None:
        exp, _ = rp.loop_matrix_product(prim, MA, G.KINDS[kind][2], 2, "elementwise")
        mon.judge(G.compare_primary(kind, AX.proj_data, exp), BASE_TOL * max(cA, 1.0),
                  "action-laws/by-hand/A@X",
                  "A@X is not (column matrix of A)(column vectors of X) for a %s" % kind, case)
        exp2, _ = rp.loop_matrix_product(prim, _row_product(MA, MB), G.KINDS[kind][2], 2, "elementwise")
        mon.judge(G.compare_primary(kind, L.proj_data, exp2), tol, "action-laws/by-hand/(A@B)@X",
                  "(A@B)@X is not (A_col B_col)(column vectors of X) for a %s" % kind, case)
        run.note_class("by-hand", *sig)

    # derived data of the image against the reference formulas
    auxk = G.KINDS[kind][3]
    if auxk is not None and (auxk == "edges" or tkind == "H.Isometry"):
        mon.judge(G.reference_aux_dev(kind, AX.proj_data, AX.aux_data), 1e-7,
                  "action-laws/derived-data/%s" % auxk,
                  "derived data of A@X is not what the reference formula gives for the "
                  "transformed primary data (%s)" % kind, case)
        mon.judge(G.reference_aux_dev(kind, L.proj_data, L.aux_data), 1e-7,
                  "action-laws/derived-data/%s" % auxk,
                  "derived data of (A@B)@X is not what the reference formula gives (%s)" % kind, case)
        run.note_class("derived", *sig)
    if idx < 3:
        run.sample({"kind": kind, "dimension": n, "object_shape": list(oshape),
                    "A_shape": list(ashape), "B_shape": list(bshape), "maps": tkind,
                    "A(row matrix)": MA})


LIB_MAPS = ["origin_to", "standard_rotation", "standard_loxodromic", "sl2_iso",
            "reflection_across", "isometry_to", "elliptic", "timelike_to"]
X_CLASSES = ["bulk", "mixed-sign-and-scale", "near-boundary", "near-origin"]


def library_isometry(rng, n, which):
    """an isometry produced by one of the library's own constructors (the
    'programs' part of the quantifier); None when the constructor does not
    exist in this dimension."""
    from geometry_tools import hyperbolic as H
    if which == "origin_to":
        return H.Point(G.interior(rng, n, ())).origin_to()
    if which == "standard_rotation":
        if n < 2:
            return None
        return H.Isometry.standard_rotation(float(rng.uniform(-6, 6)), dimension=n)
    if which == "standard_loxodromic":
        return H.Isometry.standard_loxodromic(n, float(np.exp(rng.uniform(-1.2, 1.2))))
    if which == "sl2_iso":
        if n != 2:
            return None
        return H.sl2_iso(c04.rand_sl2(rng, ()))
    if which == "reflection_across":
        if n < 2:
            return None
        return H.Hyperplane(G.exterior(rng, n, ())).reflection_across()
    if which == "isometry_to":
        if n < 2:
            return None
        P1, Q1 = G.separated_pair(rng, n, (), G.interior)
        P2, Q2 = G.separated_pair(rng, n, (), G.interior)
        t1 = H.Point(P1).unit_tangent_towards(H.Point(Q1))
        t2 = H.Point(P2).unit_tangent_towards(H.Point(Q2))
        return t1.isometry_to(t2)
    if which == "elliptic":
        return H.Isometry.elliptic(n, rh.rand_orth(rng, n))
    if which == "timelike_to":
        return H.timelike_to(G.interior(rng, n, ()))
    raise ValueError(which)


def hostile(rng, kind, raw, xclass, n, oshape):
    """redraw / rescale the raw inputs of a hyperbolic point-like object
    according to the hostile class."""
    if xclass == "bulk":
        return raw
    out = G.copy_raw(raw)
    if xclass == "mixed-sign-and-scale":
        for k in out:
            shp = out[k].shape[:-1] + (1,)
            out[k] = out[k] * rng.choice([-1.0, 1.0], size=shp) * \
                np.exp(rng.uniform(np.log(0.1), np.log(10.0), size=shp))
        return out
    if kind in ("H.Point", "H.PointPair", "H.Segment", "H.Polygon"):
        for k in out:
            if xclass == "near-boundary":
                r = 1.0 - np.exp(rng.uniform(np.log(1e-6), np.log(1e-2), size=out[k].shape[:-1] + (1,)))
            else:
                r = np.exp(rng.uniform(np.log(1e-8), np.log(1e-3), size=out[k].shape[:-1] + (1,)))
            out[k] = rh.klein_to_proj(rh.rand_sphere(rng, n, out[k].shape[:-1]) * r)
    return out


def wl_laws_library_maps(run, rng, idx):
    """the same laws with A, B produced by the library's own constructors and
    X drawn from hostile classes (negative / rescaled representatives, points
    near the boundary, points crowded at the origin)."""
    mon = run.monitor("action-laws")
    hk = G.HYPERBOLIC_KINDS
    kind = hk[idx % len(hk)]
    r = idx // len(hk)
    oshape = G.OBJ_SHAPES[r % len(G.OBJ_SHAPES)]
    r //= len(G.OBJ_SHAPES)
    wa = LIB_MAPS[r % len(LIB_MAPS)]
    wb = LIB_MAPS[(r // len(LIB_MAPS) + r) % len(LIB_MAPS)]
    xclass = X_CLASSES[(r // 3) % len(X_CLASSES)]
    n = c04.dims_for(kind, r // 2, lo=2)
    A = library_isometry(rng, n, wa)
    B = library_isometry(rng, n, wb)
    if A is None or B is None:
        A = library_isometry(rng, n, "origin_to") if A is None else A
        B = library_isometry(rng, n, "standard_loxodromic") if B is None else B
    MA = np.array(A.proj_data, dtype=float, copy=True)
    MB = np.array(B.proj_data, dtype=float, copy=True)
    raw = hostile(rng, kind, G.draw(rng, kind, n, oshape), xclass, n, oshape)
    if kind == "H.Segment" and xclass != "bulk":
        if float(np.min(rp.klein_sep(raw["P"], raw["Q"]))) < 1e-3:
            xclass = "bulk"
            raw = G.draw(rng, kind, n, oshape)
    case = {"kind": kind, "dimension": n, "object_shape": list(oshape), "A": wa, "B": wb,
            "x_class": xclass, "X": raw, "A(row matrix)": MA, "B(row matrix)": MB}
    run.current_case = case
    X = G.build(kind, raw)
    check_laws(run, mon, kind, n, oshape, (), (), "H.Isometry", False, raw, X, A, B, MA, MB,
               case, idx + 10, label="lib:%s,%s/%s" % (wa, wb, xclass))


def _row_product(MA, MB):
    """row matrix of A@B: x -> (x MB) MA (elementwise over composite shapes)."""
    return MB @ MA


# ---------------------------------------------------------------------------
# representations

def wl_words(run, rng, idx):
    from geometry_tools import projective as P, hyperbolic as H
    mon = run.monitor("representation-action")
    hyp = bool(idx % 2)
    n = 1 + (idx // 2) % 4
    ngen = 1 + (idx // 8) % 3
    letters = "abc"[:ngen]
    cx = (not hyp) and (idx % 3 == 0)
    pshape = c04.pick([(), (3,), (2, 3)], idx // 24)
    gens = {}
    if hyp:
        rep = H.HyperbolicRepresentation()
        for l in letters:
            gens[l] = rh.rand_isometry(rng, n, tmax=0.8)
    else:
        rep = P.ProjectiveRepresentation()
        for l in letters:
            M = rp.rand_invertible(rng, n + 1, cx=cx, cond_max=6.0)
            gens[l] = M / np.linalg.norm(M, 2)
    mixed = "none"
    if (not hyp) and ngen >= 2 and idx % 4 == 2:
        # generators of mixed dtype, the narrower one assigned LAST (seeded change
        # C03-r2-1: bulk word images cast to the dtype of the last generator)
        last = letters[-1]
        if cx:
            gens[last] = np.real(gens[last]) + 0.0
            if abs(np.linalg.det(gens[last])) < 1e-3:
                gens[last] = gens[last] + np.eye(n + 1)
            mixed = "complex-then-real"
        else:
            U = np.eye(n + 1, dtype=np.int64)
            for _ in range(3):
                i, j = rng.choice(n + 1, size=2, replace=False)
                U[int(i)] += int(rng.integers(-1, 2)) * U[int(j)]
            gens[last] = U
            mixed = "float-then-int"

    via_inverse_name = (idx // 2) % 3 == 1

    def assign(k, l):
        # assign through both conventions
        M = gens[l]
        name = l
        if via_inverse_name and k == len(letters) - 1 and M.dtype.kind != "i":
            # the generator is given through its inverse letter: rep['B'] = T^-1
            # must make rep['b'] act as T (seeded change C03-r3-3: the pair
            # stored in a canonical order with the matrices swapped)
            M = np.linalg.inv(M)
            name = l.upper()
        if k % 2 == 0:
            T = (H.Isometry if hyp else P.Transformation)(M.copy(), column_vectors=True)
        else:
            T = (H.Isometry if hyp else P.Transformation)(M.T.copy())
        rep[name] = T
    for k, l in enumerate(letters):
        assign(k, l)
    if idx % 3 == 1:
        # re-assign a generator on the same representation object: its inverse
        # letter must follow (seeded change C03-r2-3: stale inverse after a
        # second assignment)
        l = letters[0]
        if hyp:
            gens[l] = rh.rand_isometry(rng, n, tmax=0.8)
        else:
            M2 = rp.rand_invertible(rng, n + 1, cx=cx, cond_max=6.0)
            gens[l] = M2 / np.linalg.norm(M2, 2)
        assign(1, l)
    x = G.interior(rng, n, pshape) if hyp else G.draw(rng, "P.Point", n, pshape, cx=cx)["X"]
    p = (H.Point if hyp else P.Point)(x.copy())
    words = [""] + [rp.random_word(rng, letters, int(L)) for L in rng.integers(1, 13, size=6)]
    words.append(letters[0].upper() + letters[-1] + letters[0])      # always an inverse letter
    case = {"representation": type(rep).__name__, "dimension": n, "generators(column)": gens,
            "point": x, "words": words, "mixed_dtype": mixed, "reassigned": idx % 3 == 1,
            "last_generator_assigned_via_inverse_name": via_inverse_name}
    run.current_case = case
    want_T = H.Isometry if hyp else P.Transformation
    images = {}
    for w in words:
        Mw, scale = rp.word_matrix(gens, w)
        T = rep[w]
        if not mon.require(type(T) is want_T, "representation-action/element-class",
                           "rep[%r] is a %s" % (w, type(T).__name__), case):
            continue
        img = T @ p
        if not mon.require(type(img) is type(p) and tuple(img.shape) == tuple(pshape),
                           "representation-action/image-class-or-shape",
                           "rep[w]@p is a %s of shape %r" % (type(img).__name__, img.shape), case):
            continue
        exp = np.einsum("ij,...j->...i", Mw, x)
        with np.errstate(all="ignore"):
            kappa = float(np.max(scale * np.linalg.norm(x, axis=-1) / np.linalg.norm(exp, axis=-1)))
        if not np.isfinite(kappa) or kappa > 1e6:
            mon.skip("ill-conditioned word (cancellation > 1e6)")
            continue
        images[w] = (exp, kappa)
        mon.judge(rp.max_row_dev(img.proj_data, exp), 1e-11 * max(kappa, 1.0) * max(len(w), 1),
                  "representation-action/word-image",
                  "rep[w]@p differs from (product of the assigned generator matrices along w)"
                  "(column vector of p)", dict(case, word=w))
        # the element itself, as a column matrix up to scalar
        mon.judge(rp.max_mat_dev(np.swapaxes(T.proj_data, -1, -2), Mw),
                  1e-11 * max(scale / max(np.linalg.norm(Mw, 2), 1e-300), 1.0) * max(len(w), 1),
                  "representation-action/word-matrix",
                  "rep[w] is not the product of the assigned generator matrices along w",
                  dict(case, word=w))
        run.note_class("word", type(rep).__name__, n, ngen, min(len(w), 12) // 4, pshape,
                       "complex" if cx else "real")
    # composite of words applied pairwise: entry [point i][word j]
    good = [w for w in words if w in images]
    if good:
        Ts = rep.isometries(good) if hyp else rep.transformations(good)
        if mon.require(type(Ts) is want_T and tuple(Ts.shape) == (len(good),),
                       "representation-action/elements-class-or-shape",
                       "rep.elements(words) is a %s of shape %r" % (type(Ts).__name__, Ts.shape), case):
            img = Ts.apply(p, "pairwise")
            if mon.require(tuple(img.shape) == tuple(pshape) + (len(good),),
                           "representation-action/pairwise-shape",
                           "elements.apply(p, 'pairwise') has shape %r, expected %r"
                           % (img.shape, tuple(pshape) + (len(good),)), case):
                for j, w in enumerate(good):
                    exp, kappa = images[w]
                    mon.judge(rp.max_row_dev(img.proj_data[..., j, :], exp),
                              1e-11 * max(kappa, 1.0) * max(len(w), 1),
                              "representation-action/pairwise-word-image",
                              "elements(words).apply(p,'pairwise')[i][j] differs from word j's "
                              "matrix applied to point i", dict(case, word=w))
    # a subgroup representation acts through the substituted words, whichever way
    # its inverse generators are obtained
    if ngen >= 2 and mixed == "none":
        sw = {"a": rp.random_word(rng, letters, 2) + letters[0], "b": letters[-1] + rp.random_word(rng, letters, 1)}
        ci = bool(idx % 2)
        case3 = dict(case, subgroup_generators=sw, compute_inverse=ci)
        run.current_case = case3
        sub = rep.subgroup(sw, compute_inverse=ci)
        inv = lambda w: "".join(c.swapcase() for c in reversed(w))
        for w in ("a", "B", "abAB", "Ba", rp.random_word(rng, "ab", 5)):
            full = "".join(sw[c] if c.islower() else inv(sw[c.lower()]) for c in w)
            Mw, scale = rp.word_matrix(gens, full)
            img = sub[w] @ p
            exp = np.einsum("ij,...j->...i", Mw, x)
            with np.errstate(all="ignore"):
                kappa = float(np.max(scale * np.linalg.norm(x, axis=-1) / np.linalg.norm(exp, axis=-1)))
            if not np.isfinite(kappa) or kappa > 1e6:
                mon.skip("ill-conditioned word (cancellation > 1e6)")
                continue
            mon.judge(rp.max_row_dev(img.proj_data, exp), 1e-11 * max(kappa, 1.0) * len(full),
                      "representation-action/subgroup-word-image",
                      "subgroup(...)[w]@p differs from the substituted word's matrix applied to p",
                      dict(case3, word=w, substituted=full))
            run.note_class("subgroup-word", type(rep).__name__, n, ci)
    if idx < 3:
        run.sample({"representation": type(rep).__name__, "dimension": n, "words": words})


WORKLOADS = [
    Workload("laws", wl_laws, quick=1300, thorough=20000),
    Workload("laws-library-maps", wl_laws_library_maps, quick=500, thorough=8000),
    Workload("words", wl_words, quick=300, thorough=5000),
]
