"""C20 -- CP^1 points, disks and Moebius maps are consistent on the Riemann sphere.

Reference model (gtmon.ref.cp1): a disk is (circle, side) -- affine circumcircle
of the three stored boundary points (or a fitted Hermitian form when the circle
passes near infinity) with the side decided by the stored interior point;
membership by |z - c| <> r resp. the sign of the Hermitian form; Moebius maps as
arithmetic on extended complex numbers; stereographic projection from the north
pole; Fubini-Study distance = half the spherical angle.

Monitors (P = postcondition on the real function, W = workload relation)
  projective_to_spherical / spherical_to_projective   P  == stereographic projection
  CP1Disk.__init__     P  boundary points on the requested circle (affine or
                          Fubini-Study metric), interior point inside, distinct
  circle_parameters    P  == circumcircle of the stored boundary points
  center_inside        P  == "the disk does not contain infinity"
  fs_center / fs_diameter  P  == centre / angular radius of the spherical cap
  complement           P  same circle, interior point on the other side
  inversion            P  Moebius involution preserving the circle, swapping sides
  contains / intersects    P  == set-theoretic answer from centres / radii /
                          boundedness, general-position margin 1e-3, both
                          broadcast modes, result shape
  mobius-image         P  on Transformation.apply(CP1Disk): images (complex
                          arithmetic) of interior points are inside the image
                          disk, images of exterior points outside
  point-roundtrip      W  CP1Point in every coordinate system <-> spherical
  disk-roundtrip       W  CP1Disk(c, r).circle_parameters() == (c, r);
                          FS disk reports its centre and 2*radius; double
                          complement is the original disk; for disks that are
                          small compared with their distance from the origin
                          (|c|/r = 1e3 .. 1e8) the error is measured in radii
                          against the conditioning bound radius_scale_tol
  scale-invariance     W  center_inside / circle_parameters / contains /
                          intersects (both broadcast modes) of lambda * data,
                          (lambda * M) @ disk and Fubini-Study disks about
                          lambda * (homogeneous centre), |lambda| = 1e-12 ..
                          1e12, equal those of the unscaled representatives
  large-collections    W  contains / intersects on collections of 255 .. 2050
                          disks (sizes around 256 / 512 / 1024 / 2048, where
                          blocked code paths switch), pairwise N x M, M x N and
                          elementwise, EVERY entry against the vectorised
                          set-theoretic oracle
  fs_ctr_to_aff_ctr / aff_ctr_to_fs_ctr   P  (utils/cp1.py, anchored file) ==
                          closed-form affine centre of a Fubini-Study ball /
                          Fubini-Study centre of an affine disk
  fs-affine-helpers    W  the helpers agree with CP1Disk(w0, rho, 'fs')
                          .circle_parameters() / .fs_center() and invert each
                          other, bounded balls and balls containing infinity
"""
import traceback

import numpy as np

from ..run import Workload
from .. import attach
from ..ref import cp1

ID = "C20"
RULE = ("point cases = (coordinate system in {projective, cx_affine, real_affine, "
        "spherical}, |z| over 12 decades incl. 0 and infinity, composite shape); "
        "disk cases = (construction route in {(centre, radius) affine, (centre, "
        "radius) Fubini-Study, raw boundary/interior data}, centre coordinate "
        "system, centre/radius over 4 decades, bounded / containing infinity, "
        "shape); Moebius cases = (matrix class, disk side); relation cases = "
        "(configuration in {nested, disjoint, overlapping, near-tangent}, the four "
        "bounded/unbounded combinations, elementwise / pairwise, unit / composite); "
        "small-far cases = (decade of |centre|/radius in 1e3..1e8, centre coordinate "
        "system, construction route in {constructor, raw data, similarity image}, "
        "relation configuration); scale cases = (class of the overall factor lambda in "
        "{tiny, huge, moderate} x {positive, negative, complex}, |lambda| = 1e-12..1e12, "
        "object in {point, raw disk data per row / per disk, Moebius matrix, "
        "Fubini-Study centre as array / CP1Point}, relation configuration); "
        "large cases = (N, M) with N or M in 255..2050 around the powers of two, "
        "1-D / 2-D composite, homogeneous / mixed bounded flags; helper cases = "
        "(scalar / array, |w0| over 4 decades, ball bounded / containing infinity); "
        "non-trivial = in-domain by the independent predicate (near-tangent pairs "
        "are counted out of domain); distinct = distinct signatures of those tuples")
ASSUMPTIONS = [
    "pairs of disks are judged in general position: | |c1-c2| - (r1+r2) | and "
    "| |c1-c2| - |r1-r2| | >= 1e-3 * max(1, r1, r2, |c1-c2|), or (pairs of small "
    "disks) >= 1e-3 * max(r1, r2, |c1-c2|) and >= 100 * 32 eps * (|c1|+r1+|c2|+r2)",
    "reported centres / radii are also judged in units of the radius, with "
    "tolerance (1e-9 + 32 eps (|c|+r)/r) / mg^2: one rounding per stored affine "
    "boundary point is all that a route which translates a point to the origin "
    "before solving (the documented one) can lose; centres given in spherical "
    "coordinates are exempt (not determined to that accuracy by their input)",
    "homogeneous representatives and matrices are rescaled by |lambda| in "
    "[1e-12, 1e12] only (no claim about underflow / overflow ranges)",
    "utils.cp1.fs_ctr_to_aff_ctr / aff_ctr_to_fs_ctr (public helpers of an anchored "
    "file, not called by the library) are read as: affine centre of the boundary "
    "circle of the Fubini-Study ball (w0, rho), resp. modulus of the Fubini-Study "
    "centre of the bounded disk |w - c| < r; judged for 0 < rho < pi/2 with "
    "|arctan|w0| + rho - pi/2| >= 1e-3 (circle not through infinity), tolerance "
    "1e-10 / margin; w0 = 0 exactly is not driven (finding C20-fs-helper-origin)",
    "a disk is in-domain when its three boundary points are finite, pairwise "
    "distinct and not collinear (|sin| >= 1e-3) and its interior point is at "
    "relative distance >= 1e-6 from the circle",
    "Fubini-Study radii in (0, pi/2); FS diameter of a disk = angular radius of "
    "its spherical cap = twice its Fubini-Study radius",
    "elementwise relations need equal composite shapes; Moebius images are "
    "judged elementwise (unit transformation or equal shapes); the pairwise "
    "action is C03/C04's subject",
    "double complement is compared as a set (same circle, same side)",
    "sampled membership: 12 interior / exterior sample points per unit, points "
    "within relative 1e-6 of a circle are not judged",
]
_CP = "geometry_tools/complex_projective.py"
ANCHORS = [(_CP, q) for q in (
    "CP1Point.__init__", "CP1Point.spherical_coords", "CP1Object.real_affine_coords",
    "CP1Disk.__init__", "CP1Disk._compute_proj_data", "CP1Disk.circle_parameters",
    "CP1Disk.center_inside", "CP1Disk.fs_diameter", "CP1Disk.fs_center", "CP1Disk.inversion",
    "CP1Disk.complement", "CP1Disk.contains", "CP1Disk.intersects",
    "projective_to_spherical", "spherical_to_projective", "to_standard_triple", "inversion")] + [
    ("geometry_tools/utils/core.py", "disk_interactions"),
    ("geometry_tools/utils/core.py", "circle_through"),
    ("geometry_tools/utils/core.py", "r_to_c"),
    ("geometry_tools/utils/core.py", "c_to_r"),
    ("geometry_tools/projective.py", "affine_coords"),
    ("geometry_tools/utils/cp1.py", "fs_ctr_to_aff_ctr"),
    ("geometry_tools/utils/cp1.py", "aff_ctr_to_fs_ctr")]
REQUIRED = [
    (_CP, "CP1Disk._compute_proj_data", "normed_ctr[utils.normsq(center_coords) == 0] = np.array([1.0, 0.0])"),
    (_CP, "CP1Disk._compute_proj_data", "q, r = np.linalg.qr(np.expand_dims(center_coords, axis=-1),"),
    (_CP, "CP1Disk.contains", "res[~s_aff & ~o_aff] = contained[~s_aff & ~o_aff]"),
    (_CP, "CP1Disk.contains", "np.putmask(res, naffnaffmask, contained)"),
    (_CP, "CP1Disk.intersects", "res[~s_aff & o_aff] = ~contain[~s_aff & o_aff]"),
    (_CP, "CP1Disk.intersects", "np.putmask(res, affnaffmask, ~contained)"),
    (_CP, "CP1Disk.fs_center", "fs_center[inverted] = inverted_pts"),
    (_CP, "spherical_to_projective", "res[chart2] = np.stack("),
    ("geometry_tools/utils/core.py", "disk_interactions", "return (pairwise_dists < radial_diff,"),
]

MAX_UNITS = 48
DISK_MARGIN = 1e-6
REL_MARGIN = 1e-3
EPS = 2.220446049250313e-16
COND_K = 32.0


def radius_scale_tol(c, r, mg=1.0):
    """tolerance for a reported (centre, radius), RELATIVE TO THE RADIUS.

    Conditioning argument (not fitted to the pinned tree): the library's
    documented route stores the three boundary points as affine numbers
    p_i = c + r u_i -- each carries one rounding error of size eps (|c| + r) --
    and circle_through translates one of them to the origin before solving, so
    the data of the solve are the differences p_i - p_0 (size r, absolute error
    <= 2 eps (|c| + r)), the solve amplifies an absolute perturbation of the
    vertices by at most ~1/mg^2 (mg = |sin| of the triangle's angle, 1 for the
    library's own right-angled triple), and adding p_0 back costs one more
    eps |c|.  First-order total <= ~6 eps (|c| + r) / mg^2 absolute, the
    reference circumcircle (same shape of computation) may lose as much again;
    COND_K = 32 leaves a factor > 2 on the sum.  Relative to r this is
    K eps (|c| + r) / r: 7e-15 for an ordinary disk, 7e-7 for |c| / r = 1e8;
    the bulk floor 1e-9 keeps any reasonable formula quiet on ordinary disks.
    A formula in absolute coordinates (|p|^2 terms) loses eps (|c| / r)^2
    instead and is told apart from |c| / r ~ 1e4 on.  (seeded change C20-r3-1)"""
    return (1e-9 + COND_K * EPS * (abs(c) + r) / r) / mg ** 2
_state = {"run": None, "CP1Disk": None}

HOOKED = {"__init__", "circle_parameters", "center_inside", "fs_center", "fs_diameter",
          "complement", "inversion", "contains", "intersects", "apply",
          "projective_to_spherical", "spherical_to_projective",
          "fs_ctr_to_aff_ctr", "aff_ctr_to_fs_ctr"}


def exc_key(name, exc, extra=None):
    """mechanism key of an exception seen at the monitored function `name`:
    the innermost library frame names the mechanism; the input class is added
    only when the function itself raised."""
    from .. import core
    where = core.lib_frame_of(exc.__traceback__)
    key = "%s/exception:%s@%s" % (name, type(exc).__name__, where)
    if extra and where is not None and where.split(".")[-1] == name.split(".")[-1]:
        key += "/" + extra
    return key


def first_sight(exc):
    """an exception propagating through nested monitored calls is judged once,
    by the innermost monitored function."""
    if getattr(exc, "_gtmon_seen", False):
        return False
    try:
        exc._gtmon_seen = True
    except Exception:
        pass
    return True


def _tb(exc):
    return "".join(traceback.format_exception(type(exc), exc, exc.__traceback__))[-3000:]


def _units(batch):
    idxs = list(np.ndindex(*batch)) if len(batch) else [()]
    if len(idxs) <= MAX_UNITS:
        return idxs
    step = len(idxs) / float(MAX_UNITS)
    return [idxs[int(i * step)] for i in range(MAX_UNITS)]


def _cnum(x):
    try:
        a = np.asarray(x)
    except Exception:
        return None
    if a.dtype.kind not in "biufc":
        return None
    return a


def disk_data(obj):
    d = _cnum(getattr(obj, "proj_data", None))
    if d is None or d.ndim < 2 or d.shape[-2:] != (4, 2):
        return None
    return d.astype(complex)


_cache = {}


def ref_disk(unit_data):
    """reference disk of one (4,2) unit, memoised on the raw bytes (the same
    disk is queried by many nested library calls)."""
    key = unit_data.tobytes()
    dk = _cache.get(key)
    if dk is None:
        if len(_cache) > 20000:
            _cache.clear()
        dk = _cache[key] = cp1.disk_from_data(unit_data)
    return dk


_mg_cache = {}


def circ_margin(unit_data):
    """collinearity margin of the three boundary points of one unit (memoised
    like ref_disk: circle_parameters is called by every other query)."""
    key = unit_data[:3].tobytes()
    mg = _mg_cache.get(key)
    if mg is None:
        if len(_mg_cache) > 20000:
            _mg_cache.clear()
        mg = _mg_cache[key] = cp1.circumcircle(*(unit_data[:3, 1] / unit_data[:3, 0]))[2]
    return mg


def ref_disks(data, units):
    return {ix: ref_disk(data[ix]) for ix in units}


def describe(dk):
    if dk.aff is not None:
        return {"centre": repr(dk.aff[0]), "radius": dk.aff[1], "bounded": dk.aff[2], "margin": dk.margin}
    return {"H": dk.H, "margin": dk.margin}


def side_cls(dk):
    return "bounded" if dk.bounded else "contains-infinity"


def shape_cls(batch):
    return "composite" if len(batch) else "unit"


# ---------------------------------------------------------------------------
# points

def hook_projective_to_spherical(call):
    run = _state["run"]
    mon = run.monitor("projective_to_spherical")
    b = call.bound()
    if b.get("column_vectors"):
        return mon.skip("column layout (not quantified by C20)")
    P = _cnum(b.get("points"))
    if P is None or P.ndim < 1 or P.shape[-1] != 2:
        return mon.skip("not (...,2) numeric data")
    P = P.astype(complex)
    batch = P.shape[:-1]
    flat_ok = np.all(np.isfinite(P)) and np.all(np.sum(np.abs(P) ** 2, axis=-1) > 0)
    if not flat_ok:
        return mon.skip("zero or non-finite homogeneous coordinates")
    case = {"function": "projective_to_spherical", "points": P if P.size <= 100 else P.shape}
    if call.exc is not None:
        if not first_sight(call.exc):
            return mon.skip("exception already judged at an inner monitored call")
        return mon.fail(exc_key("projective_to_spherical", call.exc),
                        "raised %s: %s" % (type(call.exc).__name__, str(call.exc)[:160]), case, tb=_tb(call.exc))
    S = _cnum(call.result)
    if S is None or S.shape != batch + (3,):
        return mon.fail("projective_to_spherical/shape", "result shape %r for points of shape %r"
                        % (getattr(S, "shape", None), P.shape), case)
    for ix in _units(batch):
        v = P[ix]
        want = cp1.sphere_of_hom(v)
        cls = "infinity" if v[0] == 0 else ("zero" if v[1] == 0 else "generic")
        mon.judge(float(np.max(np.abs(np.asarray(S[ix], dtype=float) - want))), 1e-12,
                  "projective_to_spherical/not-stereographic/%s" % cls,
                  "spherical coordinates differ from the stereographic projection",
                  dict(case, unit=list(ix), point=v, result=S[ix], expected=want))


def hook_spherical_to_projective(call):
    run = _state["run"]
    mon = run.monitor("spherical_to_projective")
    b = call.bound()
    if b.get("column_vectors"):
        return mon.skip("column layout (not quantified by C20)")
    S = _cnum(b.get("points"))
    if S is None or S.ndim < 1 or S.shape[-1] != 3 or np.iscomplexobj(S):
        return mon.skip("not (...,3) real data")
    S = S.astype(float)
    batch = S.shape[:-1]
    if not np.all(np.isfinite(S)) or np.any(np.abs(np.linalg.norm(S, axis=-1) - 1.0) > 1e-9):
        return mon.skip("not unit vectors")
    case = {"function": "spherical_to_projective", "points": S if S.size <= 100 else S.shape}
    if call.exc is not None:
        if not first_sight(call.exc):
            return mon.skip("exception already judged at an inner monitored call")
        return mon.fail(exc_key("spherical_to_projective", call.exc),
                        "raised %s: %s" % (type(call.exc).__name__, str(call.exc)[:160]), case, tb=_tb(call.exc))
    P = _cnum(call.result)
    if P is None or P.shape != batch + (2,):
        return mon.fail("spherical_to_projective/shape", "result shape %r for points of shape %r"
                        % (getattr(P, "shape", None), S.shape), case)
    for ix in _units(batch):
        v = np.asarray(P[ix], dtype=complex)
        s = S[ix]
        cls = "north-pole" if s[2] == 1 else ("south-pole" if s[2] == -1 else ("upper" if s[2] > 0 else "lower"))
        c = dict(case, unit=list(ix), spherical=s, result=v)
        if not mon.require(np.all(np.isfinite(v)) and np.sum(np.abs(v) ** 2) > 0,
                           "spherical_to_projective/degenerate/%s" % cls,
                           "zero or non-finite homogeneous coordinates", c):
            continue
        mon.judge(float(np.max(np.abs(cp1.sphere_of_hom(v) - s))), 1e-12,
                  "spherical_to_projective/not-inverse-stereographic/%s" % cls,
                  "the returned point does not project stereographically to the given sphere point", c)


# ---------------------------------------------------------------------------
# disk construction and parameters

def _centre_ext(center, coords, ix, batch):
    """extended complex number of the requested centre of unit ix."""
    c = np.asarray(center)
    if coords == "cx_affine":
        return complex(np.broadcast_to(c, batch)[ix])
    if coords == "real_affine":
        v = np.broadcast_to(c, batch + (2,))[ix]
        return complex(v[0], v[1])
    if coords == "spherical":
        return cp1.inverse_stereographic(np.broadcast_to(c, batch + (3,))[ix])
    v = np.broadcast_to(c, batch + (2,))[ix]
    return cp1.ext_of(v)


def hook_init(call):
    run = _state["run"]
    mon = run.monitor("CP1Disk.__init__")
    b = call.bound()
    rad = b.get("rad")
    if rad is None:
        return                      # raw data / copy constructor: nothing promised
    obj = b.get("self")
    metric = b.get("radius_metric")
    coords = b.get("center_coords")
    center = _cnum(b.get("center"))
    R = _cnum(rad)
    if center is None or R is None or np.iscomplexobj(R):
        return mon.skip("centre / radius not numeric")
    if metric not in ("affine", "fs") or coords not in ("cx_affine", "real_affine", "spherical", "projective"):
        return mon.skip("unknown metric / coordinate system")
    unit_nd = {"cx_affine": 0, "real_affine": 1, "spherical": 1, "projective": 1}[coords]
    cb = center.shape[:center.ndim - unit_nd] if center.ndim >= unit_nd else None
    if cb is None or cb != R.shape:
        return mon.skip("centre and radius shapes differ")
    batch = cb
    R = R.astype(float)
    if not (np.all(np.isfinite(R)) and np.all(R > 0) and np.all(np.isfinite(center))):
        return mon.skip("non-positive radius / non-finite data")
    if metric == "fs" and np.any(R >= np.pi / 2):
        return mon.skip("Fubini-Study radius >= pi/2")
    cls = metric
    case = {"function": "CP1Disk.__init__", "center": center if center.size <= 100 else center.shape,
            "rad": R if R.size <= 100 else R.shape, "radius_metric": metric, "center_coords": coords}
    if call.exc is not None:
        if not first_sight(call.exc):
            return mon.skip("exception already judged at an inner monitored call")
        return mon.fail(exc_key("CP1Disk.__init__", call.exc, cls),
                        "CP1Disk(centre, radius) raised %s: %s" % (type(call.exc).__name__, str(call.exc)[:160]),
                        case, tb=_tb(call.exc))
    data = disk_data(obj)
    if data is None or data.shape[:-2] != batch:
        return mon.fail("CP1Disk.__init__/shape/%s" % cls,
                        "disk data of shape %r for %r centres" % (getattr(data, "shape", None), batch), case)
    for ix in _units(batch):
        try:
            cz = _centre_ext(center, coords, ix, batch)
        except Exception:
            mon.skip("centre not interpretable")
            continue
        r = float(R[ix])
        d = data[ix]
        c = dict(case, unit=list(ix), centre=repr(cz), radius=r, proj_data=d)
        if metric == "affine":
            if np.isinf(cz):
                mon.skip("affine disk centred at infinity")
                continue
            if np.any(np.abs(d[:, 0]) == 0):
                mon.fail("CP1Disk.__init__/point-at-infinity/%s" % cls,
                         "a stored point of a bounded affine disk is at infinity", c)
                continue
            z = d[:, 1] / d[:, 0]
            sc = r + abs(cz)
            # a centre given on the sphere near the north pole is an
            # ill-conditioned affine number (relative error ~ eps (1+|c|^2))
            tol_c = 1e-9 + (4e-15 * (1.0 + abs(cz) ** 2) if coords == "spherical" else 0.0)
            if not mon.judge(float(np.max(np.abs(np.abs(z[:3] - cz) - r)) / sc), tol_c,
                             "CP1Disk.__init__/boundary-not-on-circle/%s" % cls,
                             "a stored boundary point is not at distance `rad` from `center`", c):
                continue
            # ... and at the scale of the radius (a disk that is small compared
            # with its distance from the origin is still a disk of that radius):
            # one rounding of c + r u per point, see radius_scale_tol.  A centre
            # given on the sphere is itself only known to eps (1 + |c|^2) |c|,
            # so that coordinate system is judged at the scale above only.
            if coords != "spherical":
                tol_r = radius_scale_tol(cz, r)
                if not mon.judge(float(np.max(np.abs(np.abs(z[:3] - cz) - r)) / r), tol_r,
                                 "CP1Disk.__init__/boundary-not-on-circle-at-radius-scale/%s" % cls,
                                 "a stored boundary point is not at distance `rad` from `center` "
                                 "(error measured in radii)", c, suspicious=0.5 * tol_r):
                    continue
            sep = min(abs(z[i] - z[j]) for i in range(3) for j in range(i))
            if not mon.require(sep > 0.1 * r, "CP1Disk.__init__/boundary-degenerate/%s" % cls,
                               "two stored boundary points (nearly) coincide", c):
                continue
            mon.require(abs(z[3] - cz) < r * (1 - 1e-6), "CP1Disk.__init__/interior-not-inside/%s" % cls,
                        "the stored interior point is not inside the disk", c)
        else:
            sc_ = cp1.stereographic(cz)
            sp = [cp1.sphere_of_hom(d[i]) for i in range(4)]
            dist = [cp1.fs_distance_sphere(sc_, s) for s in sp]
            if not mon.judge(max(abs(x - r) for x in dist[:3]), 1e-9,
                             "CP1Disk.__init__/boundary-not-on-circle/%s" % cls,
                             "a stored boundary point is not at Fubini-Study distance `rad` from `center`", c):
                continue
            sep = min(cp1.fs_distance_sphere(sp[i], sp[j]) for i in range(3) for j in range(i))
            if not mon.require(sep > 0.1 * min(r, np.pi / 2 - r),
                               "CP1Disk.__init__/boundary-degenerate/%s" % cls,
                               "two stored boundary points (nearly) coincide", c):
                continue
            mon.require(dist[3] < r * (1 - 1e-6), "CP1Disk.__init__/interior-not-inside/%s" % cls,
                        "the stored interior point is not inside the disk", c)


def _self_disks(call, mon):
    """(obj, data, batch, units, refs) or None after recording a skip."""
    obj = call.bound().get("self")
    data = disk_data(obj)
    if data is None:
        mon.skip("no (...,4,2) disk data")
        return None
    batch = data.shape[:-2]
    units = _units(batch)
    return obj, data, batch, units, ref_disks(data, units)


def hook_circle_parameters(call):
    run = _state["run"]
    mon = run.monitor("circle_parameters")
    got = _self_disks(call, mon)
    if got is None:
        return
    obj, data, batch, units, refs = got
    good = [ix for ix in units if refs[ix].aff is not None and refs[ix].margin > 0
            and circ_margin(data[ix]) >= REL_MARGIN]
    if not good:
        return mon.skip("boundary points at infinity / collinear")
    cls = shape_cls(batch)
    case = {"function": "CP1Disk.circle_parameters", "proj_data": data if data.size <= 200 else data.shape}
    if call.exc is not None:
        if not first_sight(call.exc):
            return mon.skip("exception already judged at an inner monitored call")
        if len(good) == len(units):
            mon.fail(exc_key("circle_parameters", call.exc, cls),
                     "circle_parameters raised %s: %s" % (type(call.exc).__name__, str(call.exc)[:160]),
                     case, tb=_tb(call.exc))
        return
    res = call.result
    try:
        C, R = np.asarray(res[0], dtype=float), np.asarray(res[1], dtype=float)
    except Exception:
        return mon.fail("circle_parameters/return-type/%s" % cls, "expected (centre, radius)", case)
    if C.shape != batch + (2,) or R.shape != batch:
        return mon.fail("circle_parameters/shape/%s" % cls,
                        "centre shape %r radius shape %r for disks of shape %r" % (C.shape, R.shape, batch), case)
    for ix in good:
        c0, r0, _ = refs[ix].aff
        mg = circ_margin(data[ix])
        err = max(abs(complex(C[ix][0], C[ix][1]) - c0), abs(float(R[ix]) - r0)) / (r0 + abs(c0))
        cc = dict(case, unit=list(ix), proj_data=data[ix], result=[C[ix], R[ix]], expected=describe(refs[ix]))
        if not mon.judge(err, 1e-10 / mg ** 2, "circle_parameters/not-the-boundary-circle/%s" % cls,
                         "reported (centre, radius) is not the circle through the boundary points", cc):
            continue
        # the same error measured in radii: a circle that is small compared with
        # its distance from the origin must still be reported to the accuracy its
        # stored points determine it (seeded change C20-r3-1: circumcentre
        # formula in absolute coordinates, error eps (|c|/r)^2 radii)
        tol_r = radius_scale_tol(c0, r0, mg)
        far = "small-far" if abs(c0) > 1e3 * r0 else "ordinary"
        mon.judge(err * (r0 + abs(c0)) / r0, tol_r,
                  "circle_parameters/not-the-boundary-circle-at-radius-scale/%s/%s" % (far, cls),
                  "reported (centre, radius) differs from the circle through the boundary points by more "
                  "than the conditioning of the stored points allows (error measured in radii, |c|/r = %.3g)"
                  % (abs(c0) / r0), cc, suspicious=0.5 * tol_r)


def _bool_result(mon, name, call, batch, units, refs, want_fn, case, dom_fn=None):
    cls0 = shape_cls(batch)
    ok_units = [ix for ix in units if refs[ix].margin >= DISK_MARGIN and (dom_fn is None or dom_fn(refs[ix]))]
    if not ok_units:
        mon.skip("disk degenerate / interior point on the circle")
        return None
    if call.exc is not None:
        if not first_sight(call.exc):
            mon.skip("exception already judged at an inner monitored call")
            return None
        if len(ok_units) == len(units):
            mon.fail(exc_key(name, call.exc, cls0),
                     "%s raised %s: %s" % (name, type(call.exc).__name__, str(call.exc)[:160]),
                     case, tb=_tb(call.exc))
        return None
    return ok_units


def hook_center_inside(call):
    run = _state["run"]
    mon = run.monitor("center_inside")
    got = _self_disks(call, mon)
    if got is None:
        return
    obj, data, batch, units, refs = got
    case = {"function": "CP1Disk.center_inside", "proj_data": data if data.size <= 200 else data.shape}
    ok_units = _bool_result(mon, "center_inside", call, batch, units, refs, None, case,
                            dom_fn=lambda dk: dk.aff is not None)
    if ok_units is None:
        return
    res = np.asarray(call.result)
    cls0 = shape_cls(batch)
    if res.shape != batch:
        return mon.fail("center_inside/shape/%s" % cls0, "result shape %r for disks of shape %r" % (res.shape, batch), case)
    for ix in ok_units:
        dk = refs[ix]
        mon.require(bool(res[ix]) == dk.bounded, "center_inside/wrong-side/%s/%s" % (side_cls(dk), cls0),
                    "center_inside() = %r for a disk that %s" % (bool(res[ix]), "is bounded" if dk.bounded
                                                                 else "contains infinity"),
                    dict(case, unit=list(ix), proj_data=data[ix], disk=describe(dk)))


def hook_fs_diameter(call):
    run = _state["run"]
    mon = run.monitor("fs_diameter")
    got = _self_disks(call, mon)
    if got is None:
        return
    obj, data, batch, units, refs = got
    case = {"function": "CP1Disk.fs_diameter", "proj_data": data if data.size <= 200 else data.shape}
    ok_units = _bool_result(mon, "fs_diameter", call, batch, units, refs, None, case,
                            dom_fn=lambda dk: dk.aff is not None)
    if ok_units is None:
        return
    res = np.asarray(call.result, dtype=float)
    cls0 = shape_cls(batch)
    if res.shape != batch:
        return mon.fail("fs_diameter/shape/%s" % cls0, "result shape %r for disks of shape %r" % (res.shape, batch), case)
    for ix in ok_units:
        dk = refs[ix]
        n, th = dk.cap()
        mon.judge(abs(float(res[ix]) - th), 1e-9, "fs_diameter/wrong/%s/%s" % (side_cls(dk), cls0),
                  "fs_diameter differs from the angular radius of the disk's spherical cap "
                  "(= twice its Fubini-Study radius)",
                  dict(case, unit=list(ix), proj_data=data[ix], disk=describe(dk), result=float(res[ix]), expected=th))


def hook_fs_center(call):
    run = _state["run"]
    mon = run.monitor("fs_center")
    got = _self_disks(call, mon)
    if got is None:
        return
    obj, data, batch, units, refs = got
    case = {"function": "CP1Disk.fs_center", "proj_data": data if data.size <= 200 else data.shape}
    ok_units = _bool_result(mon, "fs_center", call, batch, units, refs, None, case,
                            dom_fn=lambda dk: dk.aff is not None)
    if ok_units is None:
        return
    P = _cnum(getattr(call.result, "proj_data", None))
    cls0 = shape_cls(batch)
    if P is None or P.shape != batch + (2,):
        return mon.fail("fs_center/shape/%s" % cls0, "centre data of shape %r for disks of shape %r"
                        % (getattr(P, "shape", None), batch), case)
    for ix in ok_units:
        dk = refs[ix]
        n, th = dk.cap()
        v = np.asarray(P[ix], dtype=complex)
        c = dict(case, unit=list(ix), proj_data=data[ix], disk=describe(dk), result=v, expected_sphere_point=n)
        if not mon.require(np.all(np.isfinite(v)) and np.sum(np.abs(v) ** 2) > 0,
                           "fs_center/degenerate/%s/%s" % (side_cls(dk), cls0), "zero / non-finite centre", c):
            continue
        mon.judge(float(np.linalg.norm(cp1.sphere_of_hom(v) - n)), 1e-8,
                  "fs_center/wrong/%s/%s" % (side_cls(dk), cls0),
                  "fs_center is not the centre of the disk's spherical cap", c)


def hook_complement(call):
    run = _state["run"]
    mon = run.monitor("complement")
    got = _self_disks(call, mon)
    if got is None:
        return
    obj, data, batch, units, refs = got
    case = {"function": "CP1Disk.complement", "proj_data": data if data.size <= 200 else data.shape}
    ok_units = _bool_result(mon, "complement", call, batch, units, refs, None, case)
    if ok_units is None:
        return
    out = disk_data(call.result)
    cls0 = shape_cls(batch)
    if out is None or out.shape != data.shape:
        return mon.fail("complement/shape/%s" % cls0, "complement data of shape %r for disks of shape %r"
                        % (getattr(out, "shape", None), data.shape), case)
    for ix in ok_units:
        dk = refs[ix]
        c = dict(case, unit=list(ix), proj_data=data[ix], result=out[ix], disk=describe(dk))
        cls = "%s/%s" % (side_cls(dk), cls0)
        # same circle: the three boundary points of the result lie on the source circle
        onc = [dk.contains_hom(out[ix][i], margin=1e-7) for i in range(3)]
        if not mon.require(all(x is None for x in onc), "complement/circle-changed/%s" % cls,
                           "a boundary point of the complement is not on the original circle", c):
            continue
        if not mon.require(np.all(np.isfinite(out[ix][3])) and np.sum(np.abs(out[ix][3]) ** 2) > 0,
                           "complement/interior-degenerate/%s" % cls, "interior point of the complement is 0/NaN", c):
            continue
        side = dk.contains_hom(out[ix][3], margin=DISK_MARGIN)
        mon.require(side is False, "complement/interior-on-wrong-side/%s" % cls,
                    "the interior point of the complement is %s the original disk"
                    % ("inside" if side else "on the boundary of"), c)


def hook_inversion(call):
    run = _state["run"]
    mon = run.monitor("inversion")
    got = _self_disks(call, mon)
    if got is None:
        return
    obj, data, batch, units, refs = got
    case = {"function": "CP1Disk.inversion", "proj_data": data if data.size <= 200 else data.shape}
    ok_units = _bool_result(mon, "inversion", call, batch, units, refs, None, case)
    if ok_units is None:
        return
    R = _cnum(getattr(call.result, "proj_data", None))
    cls0 = shape_cls(batch)
    if R is None or R.shape != batch + (2, 2):
        return mon.fail("inversion/shape/%s" % cls0, "inversion data of shape %r for disks of shape %r"
                        % (getattr(R, "shape", None), batch), case)
    for ix in ok_units:
        dk = refs[ix]
        N = np.asarray(R[ix], dtype=complex).T          # column matrix
        c = dict(case, unit=list(ix), proj_data=data[ix], matrix=N, disk=describe(dk))
        cls = "%s/%s" % (side_cls(dk), cls0)
        if not mon.require(bool(np.all(np.isfinite(N))) and np.max(np.abs(N)) > 0,
                           "inversion/non-finite/%s" % cls, "the inversion has non-finite / zero entries", c):
            continue
        # the involution of a small far-away disk is an ill-conditioned matrix
        # (cond ~ (1+|c|^2)^2 / r^2): judged up to cond 1e8, pinned-tree
        # residuals are ~1e-16 * cond
        sv = np.linalg.svd(N, compute_uv=False)
        cond = sv[0] / sv[-1] if sv[-1] > 0 else np.inf
        if cond > 1e8:
            mon.skip("inversion matrix with condition number > 1e8 (small far-away disk)")
            continue
        N2 = N @ N
        lam = 0.5 * (N2[0, 0] + N2[1, 1])
        off = max(abs(N2[0, 1]), abs(N2[1, 0]), abs(N2[0, 0] - N2[1, 1])) / max(abs(lam), 1e-300)
        if not mon.judge(float(off), 1e-13 * max(cond, 1e3), "inversion/not-an-involution/%s" % cls,
                         "the square of the inversion is not a scalar matrix", c):
            continue
        imgs = [N @ data[ix][i] for i in range(4)]
        onc = [dk.contains_hom(imgs[i], margin=1e-7) for i in range(3)]
        if not mon.require(all(x is None for x in onc), "inversion/circle-not-preserved/%s" % cls,
                           "the image of a boundary point is not on the circle", c):
            continue
        side = dk.contains_hom(imgs[3], margin=DISK_MARGIN)
        mon.require(side is False, "inversion/sides-not-swapped/%s" % cls,
                    "the image of the interior point is not outside the disk", c)


# ---------------------------------------------------------------------------
# relations

def _relation_hook(name, truth):
    def hook(call):
        run = _state["run"]
        mon = run.monitor(name)
        b = call.bound()
        bc = b.get("broadcast")
        d1 = disk_data(b.get("self"))
        d2 = disk_data(b.get("other"))
        if d1 is None or d2 is None or bc not in ("elementwise", "pairwise"):
            return mon.skip("operands are not two disks / unknown broadcast rule")
        b1, b2 = d1.shape[:-2], d2.shape[:-2]
        if bc == "elementwise":
            if b1 != b2:
                return mon.skip("elementwise relation between composites of different shape")
            want_shape = b1
            pairs = [(ix, ix, ix) for ix in (np.ndindex(*b1) if b1 else [()])]
        else:
            n1 = int(np.prod(b1)) if b1 else 1
            n2 = int(np.prod(b2)) if b2 else 1
            want_shape = (n1, n2)
            l1 = list(np.ndindex(*b1)) if b1 else [()]
            l2 = list(np.ndindex(*b2)) if b2 else [()]
            pairs = [((i, j), l1[i], l2[j]) for i in range(n1) for j in range(n2)]
        if len(pairs) > 4 * MAX_UNITS:
            step = len(pairs) / float(4 * MAX_UNITS)
            pairs = [pairs[int(i * step)] for i in range(4 * MAX_UNITS)]
        r1 = {i: ref_disk(d1[i]) for i in {p[1] for p in pairs}}
        r2 = {j: ref_disk(d2[j]) for j in {p[2] for p in pairs}}
        judged = []
        combos = set()
        for o, i, j in pairs:
            A, B = r1[i], r2[j]
            if A.aff is None or B.aff is None or A.margin < DISK_MARGIN or B.margin < DISK_MARGIN:
                mon.skip("a disk is degenerate / passes through infinity")
                continue
            if cp1.relation_margin(A.aff[0], A.aff[1], B.aff[0], B.aff[1]) < REL_MARGIN:
                # the margin above is measured against max(1, ...), an absolute
                # unit: pairs of SMALL disks (radii << 1) were never judged.
                # General position has no unit: judge as well when the gap is
                # >= 1e-3 of the configuration's own size and far above what
                # rounding of the stored affine points can move a circle
                # (100 x COND_K x eps x (|c| + r), see radius_scale_tol).
                gap, sc_, noise = cp1.relation_gap(A.aff[0], A.aff[1], B.aff[0], B.aff[1])
                if not (gap >= REL_MARGIN * sc_ and gap >= 100.0 * COND_K * noise):
                    mon.skip("pair (nearly) tangent: general-position margin < 1e-3")
                    continue
            judged.append((o, i, j))
            combos.add("%s-vs-%s" % (side_cls(A), side_cls(B)))
        if not judged:
            return
        cls = "%s/%s" % (bc, "composite" if (b1 or b2) else "unit")
        case = {"function": "CP1Disk.%s" % name, "self": d1 if d1.size <= 160 else d1.shape,
                "other": d2 if d2.size <= 160 else d2.shape, "broadcast": bc}
        if call.exc is not None:
            if not first_sight(call.exc):
                return mon.skip("exception already judged at an inner monitored call")
            if len(judged) == len(pairs):
                mon.fail(exc_key(name, call.exc, bc),
                         "%s raised %s: %s on disks in general position"
                         % (name, type(call.exc).__name__, str(call.exc)[:160]), case, tb=_tb(call.exc))
            return
        res = np.asarray(call.result)
        if res.shape != tuple(want_shape):
            return mon.fail("%s/shape/%s" % (name, cls), "result shape %r, expected %r" % (res.shape, tuple(want_shape)), case)
        for o, i, j in judged:
            A, B = r1[i], r2[j]
            want = bool(truth(A.aff[0], A.aff[1], A.aff[2], B.aff[0], B.aff[1], B.aff[2]))
            combo = "%s-vs-%s" % (side_cls(A), side_cls(B))
            run.note_class(name, combo, bc, "composite" if (b1 or b2) else "unit", want)
            mon.require(bool(res[o]) == want, "%s/wrong-answer/%s/%s" % (name, combo, cls),
                        "%s() = %r but the set-theoretic answer is %r" % (name, bool(res[o]), want),
                        dict(case, unit=[list(i), list(j)], self=describe(A), other=describe(B)))
    return hook


# ---------------------------------------------------------------------------
# Moebius images

_SAMPLE_RHO_IN = (0.0, 0.35, 0.8, 0.97)
_SAMPLE_RHO_OUT = (1.03, 1.4, 3.0, 30.0)
_SAMPLE_PHI = (0.3, 2.1, 4.4)


def _samples(dk):
    """extended complex numbers with their side of the reference disk."""
    pts = []
    if dk.aff is not None:
        c, r, bounded = dk.aff
        for k, rho in enumerate(_SAMPLE_RHO_IN + _SAMPLE_RHO_OUT):
            pts.append(c + r * rho * np.exp(1j * _SAMPLE_PHI[k % 3]))
        pts += [cp1.INF, 0.0, 1.0 + 1.0j]
    else:
        n, th = dk.cap()
        e = np.cross(n, [0.3, -0.5, 0.8])
        e = e / np.linalg.norm(e)
        for f in (0.0, 0.4, 0.9, 1.1, 1.6):
            a = min(f * th, np.pi)
            pts.append(cp1.inverse_stereographic(np.cos(a) * n + np.sin(a) * e))
        pts += [cp1.INF, 0.0]
    out = []
    for z in pts:
        s = dk.contains_ext(z, margin=1e-6)
        if s is not None:
            out.append((z, s))
    return out


def hook_apply(call):
    CP1Disk = _state["CP1Disk"]
    args = call.args
    operand = args[1] if len(args) > 1 else call.kwargs.get("proj_obj")
    if not isinstance(operand, CP1Disk):
        return
    run = _state["run"]
    mon = run.monitor("mobius-image")
    bc = args[2] if len(args) > 2 else call.kwargs.get("broadcast", "elementwise")
    T = _cnum(getattr(args[0], "proj_data", None))
    src = disk_data(operand)
    if T is None or src is None or T.ndim < 2 or T.shape[-2:] != (2, 2):
        return mon.skip("not a 2x2 transformation acting on disk data")
    if bc != "elementwise":
        return mon.skip("pairwise action (C03/C04)")
    tb_, db = T.shape[:-2], src.shape[:-2]
    if not (tb_ == () or db == () or tb_ == db):
        return mon.skip("shapes broadcast in a non-trivial way")
    batch = tb_ if len(tb_) >= len(db) else db
    if not (np.all(np.isfinite(T)) and np.all(np.isfinite(src))):
        return mon.skip("non-finite data")
    cls0 = shape_cls(batch)
    case = {"function": "Transformation.apply(CP1Disk)", "matrix(row convention)": T if T.size <= 64 else T.shape,
            "disk": src if src.size <= 160 else src.shape}
    units = _units(batch)
    for ix in units:
        N = T[ix if tb_ else ()].T
        sv = np.linalg.svd(N, compute_uv=False)
        if sv[-1] < 1e-3 * sv[0]:
            return mon.skip("transformation (nearly) singular: condition number > 1e3")
    if call.exc is not None:
        if not first_sight(call.exc):
            return mon.skip("exception already judged at an inner monitored call")
        return mon.fail(exc_key("mobius-image", call.exc),
                        "T @ disk raised %s: %s" % (type(call.exc).__name__, str(call.exc)[:160]), case, tb=_tb(call.exc))
    res = call.result
    dst = disk_data(res)
    if not isinstance(res, CP1Disk) or dst is None or dst.shape[:-2] != batch:
        return mon.fail("mobius-image/type-or-shape/%s" % cls0,
                        "T @ disk is %s with data of shape %r, expected a CP1Disk of shape %r"
                        % (type(res).__name__, getattr(dst, "shape", None), batch), case)
    for ix in units:
        N = T[ix if tb_ else ()].T
        S = ref_disk(src[ix if db else ()])
        if S.margin < DISK_MARGIN:
            mon.skip("source disk degenerate")
            continue
        D = ref_disk(dst[ix])
        c = dict(case, unit=list(ix), column_matrix=N, source=describe(S), source_data=src[ix if db else ()],
                 image_data=dst[ix])
        cls = "%s/%s" % (side_cls(S), cls0)
        if D.margin < DISK_MARGIN:
            # the image circle may legitimately pass near infinity: retry with the Hermitian fit
            D = cp1.disk_from_points(dst[ix][:3], dst[ix][3])
            if D.margin < 1e-9:
                mon.skip("image disk degenerate / through infinity")
                continue
        bad = None
        n_j = 0
        for z, inside in _samples(S):
            w = cp1.mobius(N, z)
            got = D.contains_ext(w, margin=1e-6)
            if got is None:
                continue
            n_j += 1
            if got != inside:
                bad = (z, w, inside)
                break
        if n_j == 0:
            mon.skip("no sample point away from the circles")
            continue
        if bad is None:
            mon.ok()
        else:
            z, w, inside = bad
            mon.fail("mobius-image/%s/%s" % ("interior-point-mapped-outside" if inside else
                                             "exterior-point-mapped-inside", cls),
                     "z = %r is %s the disk but its image %r is %s the image disk"
                     % (z, "inside" if inside else "outside", w, "outside" if inside else "inside"),
                     dict(c, image=describe(D)))


# ---------------------------------------------------------------------------
# utils/cp1.py: Fubini-Study <-> affine helpers (seeded change C20-r6-2)

HELPER_MARGIN = 1e-3
# the centre w0 = 0 makes fs_ctr_to_aff_ctr return NaN (0/0 for the direction)
# on the unchanged tree: finding C20-fs-helper-origin, reported with a repair;
# the class is driven only once that is fixed in /repo.
HELPERS_DRIVE_ORIGIN = True      # F52 (def15c5) repaired the 0/0 at the origin


def _helper_args(call, names):
    b = call.bound()
    a = _cnum(b.get(names[0]))
    r = _cnum(b.get(names[1]))
    if a is None or r is None or np.iscomplexobj(r):
        return None
    try:
        a, r = np.broadcast_arrays(a.astype(complex), r.astype(float))
    except Exception:
        return None
    return a, r


def hook_fs_ctr_to_aff_ctr(call):
    """Every caller of the helper gets the affine centre of the circle bounding
    the Fubini-Study ball -- also when the ball contains infinity (far
    intersection with the ray on the other side of the origin: negative
    denominator in the closed form).  C20-r6-2 clamped the far angle to pi/2."""
    run = _state["run"]
    mon = run.monitor("fs_ctr_to_aff_ctr")
    got = _helper_args(call, ("fs_center", "fs_radius"))
    if got is None:
        return mon.skip("centre / radius not numeric or not broadcastable")
    w0, rho = got
    if not (np.all(np.isfinite(w0)) and np.all(np.isfinite(rho))):
        return mon.skip("non-finite input")
    want, mg = cp1.fs_ball_affine_centre(w0, rho)
    dom = (rho > 0) & (rho < np.pi / 2) & (mg >= HELPER_MARGIN)
    if not np.any(dom):
        return mon.skip("radius outside (0, pi/2) / boundary circle through infinity")
    case = {"function": "utils.cp1.fs_ctr_to_aff_ctr", "fs_center": w0 if w0.size <= 100 else w0.shape,
            "fs_radius": rho if rho.size <= 100 else rho.shape}
    if call.exc is not None:
        if not first_sight(call.exc):
            return mon.skip("exception already judged at an inner monitored call")
        if np.all(dom):
            mon.fail(exc_key("fs_ctr_to_aff_ctr", call.exc),
                     "raised %s: %s" % (type(call.exc).__name__, str(call.exc)[:160]), case, tb=_tb(call.exc))
        return
    res = _cnum(call.result)
    if res is None or res.shape != w0.shape:
        return mon.fail("fs_ctr_to_aff_ctr/shape", "result of shape %r for input of shape %r"
                        % (getattr(res, "shape", None), w0.shape), case)
    res = res.astype(complex)
    inf_side = (np.arctan(np.abs(w0)) + rho) > np.pi / 2
    at0 = w0 == 0
    for cls, sel in (("bounded", dom & ~inf_side & ~at0), ("contains-infinity", dom & inf_side),
                     ("origin-centre", dom & at0)):
        if not np.any(sel):
            continue
        # |centre| ~ 1 / margin near the pole of tan, derivative ~ 1 / margin^2
        err = np.abs(res[sel] - want[sel]) / np.maximum(np.abs(want[sel]), 1e-300) * mg[sel]
        err = np.where(np.abs(want[sel]) == 0, np.abs(res[sel]), err)
        k = int(np.argmax(np.where(np.isfinite(err), err, np.inf)))
        mon.judge(float(err[k]) if np.isfinite(err[k]) else float("nan"), 1e-10,
                  "fs_ctr_to_aff_ctr/not-the-circle-centre/%s" % cls,
                  "the returned centre is not the affine centre of the circle bounding the "
                  "Fubini-Study ball, w0 / (1 - sin(rho)^2 (1 + |w0|^2))",
                  dict(case, w0=w0[sel][k], rho=float(rho[sel][k]), result=res[sel][k], expected=want[sel][k]))


def hook_aff_ctr_to_fs_ctr(call):
    run = _state["run"]
    mon = run.monitor("aff_ctr_to_fs_ctr")
    got = _helper_args(call, ("aff_center", "aff_radius"))
    if got is None:
        return mon.skip("centre / radius not numeric or not broadcastable")
    c, r = got
    if not (np.all(np.isfinite(c)) and np.all(np.isfinite(r)) and np.all(r > 0)):
        return mon.skip("non-finite input / non-positive radius")
    case = {"function": "utils.cp1.aff_ctr_to_fs_ctr", "aff_center": c if c.size <= 100 else c.shape,
            "aff_radius": r if r.size <= 100 else r.shape}
    if call.exc is not None:
        if not first_sight(call.exc):
            return mon.skip("exception already judged at an inner monitored call")
        return mon.fail(exc_key("aff_ctr_to_fs_ctr", call.exc),
                        "raised %s: %s" % (type(call.exc).__name__, str(call.exc)[:160]), case, tb=_tb(call.exc))
    res = _cnum(call.result)
    if res is None or res.shape != c.shape:
        return mon.fail("aff_ctr_to_fs_ctr/shape", "result of shape %r for input of shape %r"
                        % (getattr(res, "shape", None), c.shape), case)
    # judged as an angle (Fubini-Study distance of the centre from 0): the
    # modulus itself is ill-conditioned for centres near infinity
    want = cp1.affine_disk_fs_centre_angle(c, r)
    err = np.abs(np.arctan(np.abs(res)) - want)
    k = int(np.argmax(np.where(np.isfinite(err), err, np.inf))) if err.size else 0
    e = float(np.ravel(err)[k]) if err.size else 0.0
    mon.judge(e if np.isfinite(e) else float("nan"), 1e-10, "aff_ctr_to_fs_ctr/not-the-fs-centre",
              "the returned value is not the modulus of the Fubini-Study centre of the disk |w - c| < r",
              dict(case, c=np.ravel(c)[k] if c.size else None, r=float(np.ravel(r)[k]) if r.size else None,
                   result=np.ravel(res)[k] if res.size else None, expected_angle=float(np.ravel(want)[k]) if want.size else None))


def setup(run):
    from geometry_tools import complex_projective as cpm, projective
    _state["run"] = run
    _state["CP1Disk"] = cpm.CP1Disk
    mins = {"projective_to_spherical": 100, "spherical_to_projective": 100, "CP1Disk.__init__": 100,
            "circle_parameters": 200, "center_inside": 200, "fs_diameter": 100, "fs_center": 100,
            "complement": 100, "inversion": 100, "contains": 200, "intersects": 200,
            "mobius-image": 200, "point-roundtrip": 100, "disk-roundtrip": 100,
            "scale-invariance": 100, "large-collections": 40, "fs_ctr_to_aff_ctr": 20,
            "aff_ctr_to_fs_ctr": 20, "fs-affine-helpers": 40}
    for k, v in mins.items():
        run.monitor(k, min_events=v)
    attach.wrap_everywhere(run, cpm.projective_to_spherical, hook_projective_to_spherical)
    attach.wrap_everywhere(run, cpm.spherical_to_projective, hook_spherical_to_projective)
    D = cpm.CP1Disk
    attach.wrap_attr(run, D, "__init__", hook_init)
    attach.wrap_attr(run, D, "circle_parameters", hook_circle_parameters)
    attach.wrap_attr(run, D, "center_inside", hook_center_inside)
    attach.wrap_attr(run, D, "fs_diameter", hook_fs_diameter)
    attach.wrap_attr(run, D, "fs_center", hook_fs_center)
    attach.wrap_attr(run, D, "complement", hook_complement)
    attach.wrap_attr(run, D, "inversion", hook_inversion)
    attach.wrap_attr(run, D, "contains", _relation_hook("contains", cp1.contains_truth))
    attach.wrap_attr(run, D, "intersects", _relation_hook("intersects", cp1.intersects_truth))
    attach.wrap_attr(run, projective.Transformation, "apply", hook_apply)
    from geometry_tools.utils import cp1 as lib_cp1
    attach.wrap_everywhere(run, lib_cp1.fs_ctr_to_aff_ctr, hook_fs_ctr_to_aff_ctr)
    attach.wrap_everywhere(run, lib_cp1.aff_ctr_to_fs_ctr, hook_aff_ctr_to_fs_ctr)


# ---------------------------------------------------------------------------
# workloads

SHAPES = [(), (5,), (2, 3), (1,)]


def guard(thunk):
    """Run a library call.  An exception that passed through a monitored
    function has been judged by its postcondition (violation if in-domain), so
    the case goes on; anything else propagates to the runner."""
    try:
        return thunk()
    except Exception as e:
        names = {fs.name for fs in traceback.extract_tb(e.__traceback__)
                 if "geometry_tools" in fs.filename}
        if names & HOOKED:
            return None
        raise


def rand_complex(rng, shape, lo=-1.0, hi=1.0):
    """complex numbers with |z| = 10^U(lo,hi) and uniform argument."""
    return 10 ** rng.uniform(lo, hi, size=shape) * np.exp(1j * rng.uniform(0, 2 * np.pi, size=shape))


def rand_phase_scale(rng, shape):
    return rand_complex(rng, shape, -1.0, 1.0)


def wl_points(run, rng, idx):
    from geometry_tools import complex_projective as cpm
    mon = run.monitor("point-roundtrip")
    shape = SHAPES[idx % 4]
    cls = ["generic", "huge-and-tiny", "special"][(idx // 4) % 3]
    if cls == "generic":
        z = rand_complex(rng, shape, -1, 1)
    elif cls == "huge-and-tiny":
        z = rand_complex(rng, shape, -6, 6)
    else:
        z = np.asarray(rng.choice(np.array([0, 1, -1, 1j, -1j, 1e-300, 1e150]), size=shape)).astype(complex)
    case = {"workload": "points", "class": cls, "shape": list(shape), "z": z}
    run.current_case = case
    run.note_class("points", cls, shape)
    want_s = np.array([cp1.stereographic(w) for w in np.ravel(z)]).reshape(shape + (3,))

    def judge(what, got, want, tol=1e-12):
        if got is None:
            return
        got = np.asarray(got)
        if got.shape != np.shape(want):
            return mon.fail("point-roundtrip/shape/%s" % what, "%s: shape %r, expected %r"
                            % (what, got.shape, np.shape(want)), case)
        mon.judge(float(np.max(np.abs(got - want))) if got.size else 0.0, tol,
                  "point-roundtrip/%s/%s" % (what, cls), "%s differs from the reference" % what, case)
    # every coordinate system -> spherical
    P1 = guard(lambda: cpm.CP1Point(z.copy(), coords="cx_affine"))
    if P1 is not None:
        judge("cx_affine->spherical", guard(P1.spherical_coords), want_s)
    P2 = guard(lambda: cpm.CP1Point(np.stack([z.real, z.imag], axis=-1), coords="real_affine"))
    if P2 is not None:
        judge("real_affine->spherical", guard(P2.spherical_coords), want_s)
    lam = rand_phase_scale(rng, shape + (1,))
    H = np.stack([np.ones_like(z), z], axis=-1) * lam
    P3 = guard(lambda: cpm.CP1Point(H.copy()))
    if P3 is not None:
        judge("projective->spherical", guard(P3.spherical_coords), want_s)
    # spherical -> projective -> spherical, and -> affine where finite
    P4 = guard(lambda: cpm.CP1Point(want_s.copy(), coords="spherical"))
    if P4 is not None:
        judge("spherical->spherical", guard(P4.spherical_coords), want_s)
        hp = np.asarray(P4.proj_data)
        back = np.array([cp1.sphere_of_hom(v) for v in hp.reshape((-1, 2))]).reshape(shape + (3,))
        judge("spherical->projective", back, want_s)
    # random sphere points incl. the poles
    s = rng.normal(size=shape + (3,))
    s = s / np.linalg.norm(s, axis=-1, keepdims=True)
    if idx % 3 == 0:
        s = np.where(rng.random(size=shape + (1,)) < 0.5,
                     np.array([0, 0, 1.0]) * rng.choice([-1.0, 1.0], size=shape + (1,)), s)
    case2 = dict(case, sphere_points=s)
    run.current_case = case2
    P5 = guard(lambda: cpm.CP1Point(s.copy(), coords="spherical"))
    if P5 is not None:
        judge("sphere-point-roundtrip", guard(P5.spherical_coords), s)
        # setter form: spherical_coords(data) replaces the point
        s2 = s[..., ::-1] * np.array([1.0, -1.0, 1.0])
        judge("spherical_coords-setter", guard(lambda: P5.spherical_coords(s2.copy())), s2)
    # the point at infinity in homogeneous coordinates
    inf = guard(lambda: cpm.CP1Point(np.array([0, 1.0 + 0j]) * complex(lam.flat[0])))
    if inf is not None:
        judge("infinity->spherical", guard(inf.spherical_coords), np.array([0, 0, 1.0]))
    if idx < 2:
        run.sample({"class": cls, "shape": list(shape), "z": z})


CENTER_COORDS = ["cx_affine", "real_affine", "spherical", "projective"]


def pack_centre(rng, c, coords):
    """centre array in the requested coordinate system (c: complex array)."""
    c = np.asarray(c, dtype=complex)
    if coords == "cx_affine":
        return c.copy()
    if coords == "real_affine":
        return np.stack([c.real, c.imag], axis=-1)
    if coords == "spherical":
        return np.array([cp1.stereographic(w) for w in np.ravel(c)]).reshape(c.shape + (3,))
    lam = rand_phase_scale(rng, c.shape + (1,))
    return np.stack([np.ones_like(c), c], axis=-1) * lam


def rand_disk_params(rng, shape, cls):
    """centres / radii over 4 decades; classes: generic, origin-centred,
    contains-origin, far, small."""
    r = 10 ** rng.uniform(-2, 2, size=shape)
    if cls == "origin-centred":
        c = np.zeros(shape, dtype=complex)
    elif cls == "contains-origin":
        c = r * rng.uniform(0, 0.9, size=shape) * np.exp(1j * rng.uniform(0, 2 * np.pi, size=shape))
    elif cls == "far":
        c = r * 10 ** rng.uniform(0.3, 2, size=shape) * np.exp(1j * rng.uniform(0, 2 * np.pi, size=shape))
    elif cls == "unit-modulus-centre":
        c = np.exp(1j * rng.uniform(0, 2 * np.pi, size=shape))
    else:
        c = rand_complex(rng, shape, -2, 2)
    return c, r


DISK_CLASSES = ["generic", "origin-centred", "contains-origin", "far", "unit-modulus-centre"]


def data_disk(rng, c, r, bounded):
    """raw (…,4,2) data of the disk |z-c|<r (or its complement): three boundary
    points at well-separated random angles, an arbitrary interior point
    (infinity itself for some unbounded disks), random homogeneous scalings."""
    c = np.asarray(c, dtype=complex)
    r = np.asarray(r, dtype=float)
    shape = c.shape
    a0 = rng.uniform(0, 2 * np.pi, size=shape)
    gaps = rng.uniform(0.8, 2.4, size=shape + (2,))
    ang = np.stack([a0, a0 + gaps[..., 0], a0 + gaps[..., 0] + gaps[..., 1]], axis=-1)
    bd = c[..., None] + r[..., None] * np.exp(1j * ang)
    rho = rng.uniform(0, 0.9, size=shape) if bounded else 10 ** rng.uniform(0.1, 2, size=shape)
    ip = c + r * rho * np.exp(1j * rng.uniform(0, 2 * np.pi, size=shape))
    z = np.concatenate([bd, ip[..., None]], axis=-1)
    data = np.stack([np.ones_like(z), z], axis=-1)
    if not bounded:
        at_inf = rng.random(size=shape) < 0.3
        data[..., 3, :] = np.where(at_inf[..., None], np.array([0, 1.0 + 0j]), data[..., 3, :])
    return data * rand_phase_scale(rng, shape + (4, 1))


def wl_disks(run, rng, idx):
    from geometry_tools import complex_projective as cpm
    mon = run.monitor("disk-roundtrip")
    shape = SHAPES[idx % 4]
    dcls = DISK_CLASSES[(idx // 4) % 5]
    coords = CENTER_COORDS[(idx // 20) % 4]
    c, r = rand_disk_params(rng, shape, dcls)
    case = {"workload": "disks", "class": dcls, "shape": list(shape), "center_coords": coords,
            "centre": c, "radius": r}
    run.current_case = case
    run.note_class("disks", "affine", dcls, coords, shape)
    sc = np.abs(c) + r

    def all_queries(D, label):
        guard(D.center_inside)
        guard(D.fs_diameter)
        guard(D.fs_center)
        guard(D.inversion)
        guard(D.circle_parameters)
        C = guard(D.complement)
        if C is None:
            return None
        guard(C.center_inside)
        guard(C.fs_diameter)
        guard(C.fs_center)
        guard(C.circle_parameters)
        guard(C.inversion)
        CC = guard(C.complement)
        if CC is not None:
            # double complement = the original disk (as a set)
            src, dd = np.asarray(D.proj_data), np.asarray(CC.proj_data)
            for ix in (np.ndindex(*D.shape) if D.shape else [()]):
                dk = cp1.disk_from_data(src[ix])
                if dk.margin < DISK_MARGIN:
                    mon.skip("degenerate disk")
                    continue
                onc = [dk.contains_hom(dd[ix][i], margin=1e-7) for i in range(3)]
                side = dk.contains_hom(dd[ix][3], margin=DISK_MARGIN)
                mon.require(all(x is None for x in onc) and side is True,
                            "disk-roundtrip/double-complement/%s" % label,
                            "complement().complement() is not the original disk (circle kept: %r, "
                            "interior point inside: %r)" % (all(x is None for x in onc), side),
                            dict(case, unit=list(ix), original=src[ix], double_complement=dd[ix]))
        return C
    # route 1: (centre, radius), affine metric
    D = guard(lambda: cpm.CP1Disk(pack_centre(rng, c, coords), r.copy(), center_coords=coords))
    if D is not None:
        cp_ = guard(D.circle_parameters)
        if cp_ is not None:
            C_, R_ = np.asarray(cp_[0]), np.asarray(cp_[1])
            if C_.shape == shape + (2,) and R_.shape == shape:
                err = np.maximum(np.abs(C_[..., 0] + 1j * C_[..., 1] - c), np.abs(R_ - r)) / sc
                tol_c = 1e-9 + (4e-15 * float(np.max(1.0 + np.abs(c) ** 2)) if coords == "spherical" and c.size
                                else 0.0)
                mon.judge(float(np.max(err)) if err.size else 0.0, tol_c,
                          "disk-roundtrip/circle_parameters-differs/affine",
                          "CP1Disk(c, r).circle_parameters() != (c, r)", dict(case, reported=[C_, R_]))
            else:
                mon.fail("disk-roundtrip/shape/affine", "circle_parameters shapes %r %r for disks of shape %r"
                         % (C_.shape, R_.shape, shape), case)
        ci = guard(D.center_inside)
        if ci is not None:
            mon.require(bool(np.all(ci)), "disk-roundtrip/center_inside/affine",
                        "CP1Disk(c, r).center_inside() is not True", case)
        all_queries(D, "affine-route")
    # route 2: raw data, bounded and unbounded
    for bounded in (True, False):
        data = data_disk(rng, c, r, bounded)
        run.current_case = dict(case, route="data", bounded=bounded, proj_data=data)
        run.note_class("disks", "data", dcls, bounded, shape)
        D2 = guard(lambda: cpm.CP1Disk(data.copy()))
        if D2 is not None:
            all_queries(D2, "data-route")
    # route 3: Fubini-Study metric
    rho = rng.uniform(0.01, 1.5, size=shape)
    if idx % 5 == 0:
        rho = 10 ** rng.uniform(-3, -1, size=shape)
    fc = rand_complex(rng, shape, -2, 2)
    if dcls == "origin-centred":
        fc = np.zeros(shape, dtype=complex)
    case3 = {"workload": "disks", "route": "fs", "center_coords": coords, "centre": fc, "fs_radius": rho}
    run.current_case = case3
    run.note_class("disks", "fs", dcls, coords, shape)
    Df = guard(lambda: cpm.CP1Disk(pack_centre(rng, fc, coords), rho.copy(), radius_metric="fs",
                                   center_coords=coords))
    if Df is not None:
        fd = guard(Df.fs_diameter)
        if fd is not None and np.shape(fd) == shape:
            mon.judge(float(np.max(np.abs(np.asarray(fd) - 2 * rho))) if rho.size else 0.0, 1e-8,
                      "disk-roundtrip/fs_diameter-differs/fs", "FS disk does not report 2 * radius", case3)
        fcn = guard(Df.fs_center)
        if fcn is not None:
            pd = np.asarray(fcn.proj_data)
            if pd.shape == shape + (2,):
                err = [np.linalg.norm(cp1.sphere_of_hom(pd[ix]) - cp1.stereographic(fc[ix]))
                       for ix in (np.ndindex(*shape) if shape else [()])]
                mon.judge(float(max(err)) if err else 0.0, 1e-8, "disk-roundtrip/fs_center-differs/fs",
                          "FS disk does not report its centre", case3)
        all_queries(Df, "fs-route")
    if coords == "spherical" and idx % 2 == 0:
        # FS disk centred at infinity / at 0
        for pole in (1.0, -1.0):
            sc_ = np.broadcast_to(np.array([0, 0, pole]), shape + (3,)).copy()
            run.current_case = {"workload": "disks", "route": "fs", "centre": "pole %g" % pole, "fs_radius": rho}
            Dp = guard(lambda: cpm.CP1Disk(sc_, rho.copy(), radius_metric="fs", center_coords="spherical"))
            if Dp is not None:
                guard(Dp.fs_diameter)
                guard(Dp.fs_center)
                guard(Dp.center_inside)
    if idx < 2:
        run.sample(case)


def rand_mobius(rng, cls):
    if cls == "generic":
        while True:
            M = rng.normal(size=(2, 2)) + 1j * rng.normal(size=(2, 2))
            if np.linalg.cond(M) <= 50:
                return M
    if cls == "real":
        while True:
            M = rng.normal(size=(2, 2))
            if np.linalg.cond(M) <= 50:
                return M.astype(complex)
    if cls == "affine":          # z -> a z + b : column matrix [[1,0],[b,a]]
        a = rand_complex(rng, (), -1, 1)
        b = rand_complex(rng, (), -1, 1)
        return np.array([[1, 0], [b, a]], dtype=complex)
    if cls == "inversion":       # z -> 1/z up to scalar
        return np.array([[0, 1], [1, 0]], dtype=complex) * rand_complex(rng, (), -1, 1)
    if cls == "identity":
        return np.eye(2, dtype=complex) * rand_complex(rng, (), -1, 1)
    # send a chosen finite point to infinity
    p = rand_complex(rng, (), -1, 1)
    return np.array([[-p, 1], [1, 0]], dtype=complex)


MOBIUS_CLASSES = ["generic", "real", "affine", "inversion", "identity", "pole"]


def wl_mobius(run, rng, idx):
    from geometry_tools import complex_projective as cpm, projective
    shape = SHAPES[idx % 4]
    mcls = MOBIUS_CLASSES[(idx // 4) % 6]
    dcls = DISK_CLASSES[(idx // 24) % 5]
    c, r = rand_disk_params(rng, shape, dcls)
    for bounded in (True, False):
        data = data_disk(rng, c, r, bounded)
        D = guard(lambda: cpm.CP1Disk(data.copy()))
        if D is None:
            continue
        for tshape in ((), shape):
            if tshape:
                M = np.empty(tshape + (2, 2), dtype=complex)
                for ix in np.ndindex(*tshape):
                    M[ix] = rand_mobius(rng, mcls)
            else:
                M = rand_mobius(rng, mcls)
            run.current_case = {"workload": "mobius", "matrix(column)": M, "class": mcls, "bounded": bounded,
                                "centre": c, "radius": r, "proj_data": data}
            run.note_class("mobius", mcls, dcls, bounded, shape, bool(tshape))
            T = projective.Transformation(M.copy(), column_vectors=True)
            TD = guard(lambda: T @ D)
            if TD is not None and idx % 3 == 0:
                # queries on the image (their postconditions judge them)
                guard(TD.circle_parameters)
                guard(TD.center_inside)
                guard(TD.complement)
            if not tshape and not shape:
                break
    # a disk built by the constructor and by complement() as operands as well
    D1 = guard(lambda: cpm.CP1Disk(c.copy(), r.copy()))
    if D1 is not None:
        T = projective.Transformation(rand_mobius(rng, mcls), column_vectors=True)
        run.current_case = {"workload": "mobius", "class": mcls, "route": "constructor", "centre": c, "radius": r}
        guard(lambda: T @ D1)
        C1 = guard(D1.complement)
        if C1 is not None:
            guard(lambda: T @ C1)
    if idx < 2:
        run.sample({"class": mcls, "disk-class": dcls, "shape": list(shape)})


CONFIGS = ["nested", "disjoint", "overlapping", "near-tangent", "random"]


def rand_pair(rng, shape, cfg):
    """(c1, r1, c2, r2) in the requested configuration, in general position
    (margin >= 3e-3) except for the near-tangent class."""
    c1, r1 = rand_disk_params(rng, shape, "generic")
    r1 = 10 ** rng.uniform(-1, 1, size=shape)
    c1 = rand_complex(rng, shape, -1, 1)
    phi = np.exp(1j * rng.uniform(0, 2 * np.pi, size=shape))
    if cfg == "nested":
        r2 = r1 * rng.uniform(0.05, 0.8, size=shape)
        d = (r1 - r2) * rng.uniform(0.0, 0.9, size=shape)
        swap = rng.random(size=shape) < 0.5
    elif cfg == "disjoint":
        r2 = r1 * 10 ** rng.uniform(-1, 1, size=shape)
        d = (r1 + r2) * rng.uniform(1.1, 4.0, size=shape)
        swap = np.zeros(shape, dtype=bool)
    elif cfg == "overlapping":
        r2 = r1 * 10 ** rng.uniform(-0.7, 0.7, size=shape)
        lo, hi = np.abs(r1 - r2), r1 + r2
        d = lo + (hi - lo) * rng.uniform(0.1, 0.9, size=shape)
        swap = np.zeros(shape, dtype=bool)
    elif cfg == "near-tangent":
        r2 = r1 * 10 ** rng.uniform(-0.7, 0.7, size=shape)
        base = np.where(rng.random(size=shape) < 0.5, r1 + r2, np.abs(r1 - r2))
        d = np.abs(base + rng.normal(size=shape) * 10 ** rng.uniform(-9, -4, size=shape))
        swap = np.zeros(shape, dtype=bool)
    else:
        r2 = 10 ** rng.uniform(-1, 1, size=shape)
        d = 10 ** rng.uniform(-1, 1, size=shape)
        swap = np.zeros(shape, dtype=bool)
    c2 = c1 + d * phi
    # swap roles in half of the nested pairs
    c1s = np.where(swap, c2, c1)
    c2s = np.where(swap, c1, c2)
    r1s = np.where(swap, r2, r1)
    r2s = np.where(swap, r1, r2)
    return c1s, r1s, c2s, r2s


def wl_relations(run, rng, idx):
    from geometry_tools import complex_projective as cpm
    cfg = CONFIGS[idx % 5]
    shape = SHAPES[(idx // 5) % 4]
    route = ["data", "constructor+complement"][(idx // 20) % 2]
    c1, r1, c2, r2 = rand_pair(rng, shape, cfg)
    case = {"workload": "relations", "configuration": cfg, "shape": list(shape), "route": route,
            "c1": c1, "r1": r1, "c2": c2, "r2": r2}
    run.current_case = case
    disks = {}
    for name, (c, r) in (("A", (c1, r1)), ("B", (c2, r2))):
        if route == "data":
            disks[name, True] = guard(lambda: cpm.CP1Disk(data_disk(rng, c, r, True)))
            disks[name, False] = guard(lambda: cpm.CP1Disk(data_disk(rng, c, r, False)))
        else:
            Dn = guard(lambda: cpm.CP1Disk(c.copy(), r.copy()))
            disks[name, True] = Dn
            disks[name, False] = guard(Dn.complement) if Dn is not None else None
    for b1 in (True, False):
        for b2 in (True, False):
            A, B = disks["A", b1], disks["B", b2]
            if A is None or B is None:
                continue
            run.current_case = dict(case, bounded=[b1, b2])
            run.note_class("relations", cfg, b1, b2, shape, route)
            for bc in ("elementwise", "pairwise"):
                guard(lambda: A.contains(B, broadcast=bc))
                guard(lambda: A.intersects(B, broadcast=bc))
                guard(lambda: B.contains(A, broadcast=bc))
    # pairwise between composites of different shape
    if shape and idx % 4 == 0:
        c3, r3 = rand_disk_params(rng, (3,), "generic")
        E = guard(lambda: cpm.CP1Disk(data_disk(rng, c3, r3, bool(idx % 8))))
        A = disks["A", True]
        if E is not None and A is not None:
            run.current_case = dict(case, other_centres=c3, other_radii=r3)
            guard(lambda: A.contains(E, broadcast="pairwise"))
            guard(lambda: E.intersects(A, broadcast="pairwise"))
    # arrays that MIX bounded disks and disks containing infinity, of different
    # lengths (seeded change C20-r2-1: transposed case masks in pairwise mode are
    # invisible for homogeneous arrays and for square shapes)
    if idx % 2 == 0:
        k1, k2 = [(3, 2), (2, 4), (4, 3), (1, 3)][(idx // 2) % 4]

        def mixed(k):
            c, r = rand_disk_params(rng, (k,), "generic")
            mask = rng.random(k) < 0.5
            if k > 1 and mask.all() or not mask.any():
                mask[0] = not mask[0]
            data = np.where(mask[:, None, None], data_disk(rng, c, r, True),
                            data_disk(rng, c, r, False))
            return guard(lambda: cpm.CP1Disk(data)), mask
        (A, ma), (B, mb) = mixed(k1), mixed(k2)
        if A is not None and B is not None:
            run.current_case = dict(case, mixed_arrays=True, bounded_A=ma, bounded_B=mb)
            run.note_class("relations-mixed", k1, k2, int(ma.sum()), int(mb.sum()))
            guard(lambda: A.contains(B, broadcast="pairwise"))
            guard(lambda: A.intersects(B, broadcast="pairwise"))
            guard(lambda: B.contains(A, broadcast="pairwise"))
            guard(lambda: B.intersects(A, broadcast="pairwise"))
            if k1 == k2:
                guard(lambda: A.contains(B))
                guard(lambda: A.intersects(B))
    if idx < 2:
        run.sample(case)

# ---------------------------------------------------------------------------
# small disks far from the origin (seeded change C20-r3-1)

SMALL_FAR_COORDS = ["cx_affine", "real_affine", "projective"]


def relation_queries(run, rng, cpm, case, shape, c1, r1, c2, r2, route, label):
    """all four bounded / unbounded combinations of the pair, both broadcast
    modes; the postconditions on contains / intersects judge the answers."""
    disks = {}
    for name, (c, r) in (("A", (c1, r1)), ("B", (c2, r2))):
        if route == "data":
            disks[name, True] = guard(lambda: cpm.CP1Disk(data_disk(rng, c, r, True)))
            disks[name, False] = guard(lambda: cpm.CP1Disk(data_disk(rng, c, r, False)))
        elif route == "constructor+data":
            disks[name, True] = guard(lambda: cpm.CP1Disk(c.copy(), r.copy()))
            disks[name, False] = guard(lambda: cpm.CP1Disk(data_disk(rng, c, r, False)))
        else:
            Dn = guard(lambda: cpm.CP1Disk(c.copy(), r.copy()))
            disks[name, True] = Dn
            disks[name, False] = guard(Dn.complement) if Dn is not None else None
    for b1 in (True, False):
        for b2 in (True, False):
            A, B = disks["A", b1], disks["B", b2]
            if A is None or B is None:
                continue
            run.current_case = dict(case, bounded=[b1, b2])
            run.note_class(label, case.get("configuration"), b1, b2, shape, route)
            for bc in ("elementwise", "pairwise"):
                guard(lambda: A.contains(B, broadcast=bc))
                guard(lambda: A.intersects(B, broadcast=bc))
                guard(lambda: B.contains(A, broadcast=bc))
                guard(lambda: B.intersects(A, broadcast=bc))
    return disks


def wl_small_far(run, rng, idx):
    """Disks that are small compared with their distance from the origin:
    |centre| / radius from 1e3 to 1e8 (one decade per case class), |centre| up
    to 4e5.  "A disk built from a centre and radius reports that centre and
    radius" and the containment / intersection tests are statements about the
    disk, whose natural unit is its radius -- a reported centre that is off by
    a third of a radius gives wrong set-theoretic answers although it is
    accurate to 1e-8 relative to |centre|.  (seeded change C20-r3-1: closed-form
    circumcentre in absolute coordinates; the ordinary classes have
    |centre| / radius <= 100 and judged relative to |centre| + radius)"""
    from geometry_tools import complex_projective as cpm, projective
    mon = run.monitor("disk-roundtrip")
    shape = SHAPES[idx % 4]
    coords = SMALL_FAR_COORDS[idx % 3]
    decade = 3 + (idx // 4) % 5
    ratio = 10 ** rng.uniform(decade, decade + 1, size=shape)
    c = rand_complex(rng, shape, 0.0, 5.6)
    r = np.abs(c) / ratio
    case = {"workload": "small-far", "shape": list(shape), "center_coords": coords, "decade": decade,
            "centre": c, "radius": r}
    run.current_case = case
    run.note_class("small-far", coords, decade, shape)
    # (centre, radius) -> circle_parameters, measured in radii
    D = guard(lambda: cpm.CP1Disk(pack_centre(rng, c, coords), r.copy(), center_coords=coords))
    if D is not None:
        cp_ = guard(D.circle_parameters)
        if cp_ is not None:
            C_, R_ = np.asarray(cp_[0]), np.asarray(cp_[1])
            if C_.shape == shape + (2,) and R_.shape == shape:
                err = np.maximum(np.abs(C_[..., 0] + 1j * C_[..., 1] - c), np.abs(R_ - r)) / r
                tol = np.vectorize(radius_scale_tol)(c, r)
                q = err / tol
                mon.judge(float(np.max(q)) if q.size else 0.0, 1.0,
                          "disk-roundtrip/circle_parameters-differs-at-radius-scale/small-far",
                          "CP1Disk(c, r).circle_parameters() != (c, r): error in radii / (K eps (|c|+r)/r)",
                          dict(case, reported=[C_, R_], error_in_radii=err), suspicious=0.5)
            else:
                mon.fail("disk-roundtrip/shape/affine", "circle_parameters shapes %r %r for disks of shape %r"
                         % (C_.shape, R_.shape, shape), case)
        ci = guard(D.center_inside)
        if ci is not None:
            mon.require(bool(np.all(ci)), "disk-roundtrip/center_inside/small-far",
                        "CP1Disk(c, r).center_inside() is not True", case)
        guard(D.fs_diameter)
        guard(D.fs_center)
        # complement() / inversion() are NOT driven here: the library builds the
        # involution as a matrix through to_standard_triple, whose condition
        # number is ~ (1 + |c|^2)^2 / r^2 -- far beyond the 1e8 up to which the
        # inversion postcondition judges (level note of this check) for every
        # disk of this class.  Disks containing infinity come from raw data.
    # the same disks as images of ordinary disks under the similarity
    # z -> c + s z (a Moebius map fixing infinity), and as raw data
    c0, r0 = rand_disk_params(rng, shape, "generic")
    sim = np.zeros(shape + (2, 2), dtype=complex)
    sim[..., 0, 0] = 1.0
    sim[..., 1, 1] = r / r0
    sim[..., 1, 0] = c - (r / r0) * c0
    for bounded in (True, False):
        D0 = guard(lambda: cpm.CP1Disk(data_disk(rng, c0, r0, bounded)))
        run.current_case = dict(case, route="similarity-image", bounded=bounded, source_centre=c0,
                                source_radius=r0, column_matrix=sim)
        if D0 is not None:
            T = projective.Transformation(sim.copy(), column_vectors=True)
            TD = guard(lambda: T @ D0)
            if TD is not None:
                guard(TD.circle_parameters)
                guard(TD.center_inside)
        Dd = guard(lambda: cpm.CP1Disk(data_disk(rng, c, r, bounded)))
        run.current_case = dict(case, route="data", bounded=bounded)
        if Dd is not None:
            guard(Dd.circle_parameters)
            guard(Dd.center_inside)
            guard(Dd.fs_diameter)
    # relations: an ordinary pair in the requested configuration, carried to
    # the small-far position by the similarity z -> c + s z
    cfg = CONFIGS[idx % 5]
    route = ["data", "constructor+data"][(idx // 5) % 2]
    p1, q1, p2, q2 = rand_pair(rng, shape, cfg)
    s_ = r / np.maximum(q1, q2)
    c1, r1, c2, r2 = c, s_ * q1, c + s_ * (p2 - p1), s_ * q2
    rcase = dict(case, configuration=cfg, route=route, c1=c1, r1=r1, c2=c2, r2=r2)
    run.current_case = rcase
    relation_queries(run, rng, cpm, rcase, shape, c1, r1, c2, r2, route, "relations-small-far")
    if idx < 2:
        run.sample(case)


# ---------------------------------------------------------------------------
# overall scale of homogeneous data (seeded change C20-r3-2)

SCALE_SHAPES = [(), (3,), (2, 2), (1,)]
LAMBDA_CLASSES = ["tiny-positive", "huge-positive", "tiny-negative", "huge-negative",
                  "tiny-complex", "huge-complex", "moderate-complex"]


def rand_lambda(rng, shape, lcls):
    """non-zero scalars: |lambda| = 10^-U(6,12) (tiny), 10^+U(6,12) (huge) or
    10^U(-1,1); positive, negative or of arbitrary argument."""
    kind, arg = lcls.split("-")
    e = rng.uniform(6, 12, size=shape)
    mod = 10 ** {"tiny": -e, "huge": e, "moderate": rng.uniform(-1, 1, size=shape)}[kind]
    if arg == "positive":
        return mod.astype(complex)
    if arg == "negative":
        return (-mod).astype(complex)
    return mod * np.exp(1j * rng.uniform(0, 2 * np.pi, size=shape))


def _pairs_in_domain(d1, d2, ix1, ix2):
    """is the pair of units in general position for the reference model?"""
    A, B = ref_disk(d1[ix1]), ref_disk(d2[ix2])
    if A.aff is None or B.aff is None or A.margin < DISK_MARGIN or B.margin < DISK_MARGIN:
        return False
    gap, sc_, noise = cp1.relation_gap(A.aff[0], A.aff[1], B.aff[0], B.aff[1])
    return bool(gap >= REL_MARGIN * sc_ and gap >= 100.0 * COND_K * noise)


def wl_scales(run, rng, idx):
    """A point of CP^1 is a homogeneous pair up to a non-zero scalar and a
    Moebius map is a matrix up to a non-zero scalar: nothing -- bounded /
    unbounded classification (center_inside), circle parameters, contains /
    intersects in both broadcast modes -- may depend on the overall scale of
    the representatives.  Every other workload uses representatives of modulus
    0.1 .. 10; here lambda * v and lambda * M with |lambda| from 1e-12 to 1e+12
    (positive, negative, complex), rows of disk data scaled independently,
    Fubini-Study centres given in small / huge homogeneous coordinates
    (center_coords='projective' or a CP1Point).  The ambient postconditions
    judge every call against the reference model (which only uses ratios);
    the 'scale-invariance' monitor compares the answers for lambda * data with
    those for the data themselves.  (seeded change C20-r3-2: in_affine_chart by
    np.isclose(x, 0), an absolute 1e-8 threshold on a homogeneous coordinate)"""
    from geometry_tools import complex_projective as cpm, projective
    mon = run.monitor("scale-invariance")
    pmon = run.monitor("point-roundtrip")
    shape = SCALE_SHAPES[idx % 4]
    lcls = LAMBDA_CLASSES[(idx // 4) % 7]
    lk = lcls.split("-")[0]            # key class: tiny / huge / moderate
    case = {"workload": "scales", "shape": list(shape), "lambda-class": lcls}
    run.note_class("scales", lcls, shape)

    def units(sh):
        return list(np.ndindex(*sh)) if sh else [()]

    # -- points ---------------------------------------------------------------
    z = rand_complex(rng, shape, -3, 3)
    lam = rand_lambda(rng, shape + (1,), lcls)
    H = np.stack([np.ones_like(z), z], axis=-1) * lam
    if shape and idx % 2 == 0:
        H[(0,) * len(shape)] = np.array([0, 1.0]) * lam[(0,) * len(shape)]      # infinity
        z = z.copy()
        z[(0,) * len(shape)] = np.inf
    want_s = np.array([cp1.stereographic(w) for w in np.ravel(z)]).reshape(shape + (3,))
    run.current_case = dict(case, part="points", z=z, homogeneous=H)
    P = guard(lambda: cpm.CP1Point(H.copy()))
    if P is not None:
        got = guard(P.spherical_coords)
        if got is not None:
            got = np.asarray(got)
            if got.shape != want_s.shape:
                pmon.fail("point-roundtrip/shape/projective->spherical", "shape %r, expected %r"
                          % (got.shape, want_s.shape), run.current_case)
            else:
                pmon.judge(float(np.max(np.abs(got - want_s))), 1e-12,
                           "point-roundtrip/projective->spherical/scaled-%s" % lk,
                           "spherical coordinates of lambda * (1, z) differ from the stereographic "
                           "projection of z", run.current_case)

    # -- disks from raw data, rows scaled independently ---------------------------
    cfg = CONFIGS[idx % 5]
    c1, r1, c2, r2 = rand_pair(rng, shape, cfg)
    raw = {}
    for name, (c, r) in (("A", (c1, r1)), ("B", (c2, r2))):
        for bounded in (True, False):
            raw[name, bounded] = data_disk(rng, c, r, bounded)
    row_lam = {k: rand_lambda(rng, shape + (4, 1), lcls) for k in raw}
    if idx % 3 == 0:
        # one scalar per disk instead of one per row
        row_lam = {k: np.broadcast_to(v[..., :1, :], v.shape) for k, v in row_lam.items()}

    def build(dat):
        return guard(lambda: cpm.CP1Disk(dat.copy()))

    def compare_queries(D0, D1, what, c_):
        """center_inside and circle_parameters of the rescaled object against
        those of the original representatives (units in the model's domain)."""
        if D0 is None or D1 is None:
            return
        d0 = np.asarray(D0.proj_data, dtype=complex)
        ok = [ix for ix in units(d0.shape[:-2])
              if ref_disk(d0[ix]).aff is not None and ref_disk(d0[ix]).margin >= DISK_MARGIN]
        if not ok:
            return mon.skip("no unit in the model's domain")
        a0, a1 = guard(D0.center_inside), guard(D1.center_inside)
        if a0 is not None and a1 is not None and np.shape(a0) == np.shape(a1):
            a0, a1 = np.asarray(a0), np.asarray(a1)
            mon.require(all(bool(a0[ix]) == bool(a1[ix]) for ix in ok),
                        "scale-invariance/center_inside/%s/%s" % (what, lk),
                        "center_inside() changes when the homogeneous data are rescaled", c_)
        p0, p1 = guard(D0.circle_parameters), guard(D1.circle_parameters)
        if p0 is not None and p1 is not None and np.shape(p0[1]) == np.shape(p1[1]):
            e = 0.0
            for ix in ok:
                cz, rr, _ = ref_disk(d0[ix]).aff
                e = max(e, (abs(p0[0][ix][0] - p1[0][ix][0]) + abs(p0[0][ix][1] - p1[0][ix][1])
                            + abs(p0[1][ix] - p1[1][ix])) / (rr + abs(cz)))
            mon.judge(e, 1e-9, "scale-invariance/circle_parameters/%s/%s" % (what, lk),
                      "circle_parameters() changes when the homogeneous data are rescaled", c_)

    def compare_relations(A0, B0, A1, B1, what, c_):
        if None in (A0, B0, A1, B1):
            return
        dA, dB = np.asarray(A0.proj_data, dtype=complex), np.asarray(B0.proj_data, dtype=complex)
        ua, ub = units(dA.shape[:-2]), units(dB.shape[:-2])
        for bc in ("elementwise", "pairwise"):
            if bc == "elementwise":
                if dA.shape != dB.shape:
                    continue
                sel = [(ix, ix, ix) for ix in ua]
            else:
                sel = [((i, j), ua[i], ub[j]) for i in range(len(ua)) for j in range(len(ub))]
            sel = [t for t in sel if _pairs_in_domain(dA, dB, t[1], t[2])]
            for rel in ("contains", "intersects"):
                g0 = guard(lambda: getattr(A0, rel)(B0, broadcast=bc))
                g1 = guard(lambda: getattr(A1, rel)(B1, broadcast=bc))
                if g0 is None or g1 is None:
                    continue
                g0, g1 = np.asarray(g0), np.asarray(g1)
                if g0.shape != g1.shape:
                    mon.fail("scale-invariance/%s/shape/%s/%s" % (rel, what, bc),
                             "%s(): result shape changes with the scale of the data" % rel, c_)
                    continue
                if not sel:
                    mon.skip("no pair in general position")
                    continue
                mon.require(all(bool(g0[t[0]]) == bool(g1[t[0]]) for t in sel),
                            "scale-invariance/%s/%s/%s/%s" % (rel, what, bc, lk),
                            "%s() changes when the homogeneous data are rescaled" % rel, c_)

    D0 = {k: build(v) for k, v in raw.items()}
    D1 = {k: build(raw[k] * row_lam[k]) for k in raw}
    for b1 in (True, False):
        for b2 in (True, False):
            c_ = dict(case, part="raw-data", configuration=cfg, bounded=[b1, b2], c1=c1, r1=r1, c2=c2, r2=r2,
                      self=raw["A", b1] * row_lam["A", b1], other=raw["B", b2] * row_lam["B", b2])
            run.current_case = c_
            run.note_class("scales-relations", lcls, cfg, b1, b2, shape)
            compare_relations(D0["A", b1], D0["B", b2], D1["A", b1], D1["B", b2], "raw-data", c_)
    for k in raw:
        c_ = dict(case, part="raw-data", bounded=k[1], proj_data=raw[k] * row_lam[k])
        run.current_case = c_
        compare_queries(D0[k], D1[k], "raw-data", c_)
        if D1[k] is not None and idx % 2 == 0:
            guard(D1[k].fs_diameter)
            guard(D1[k].fs_center)
            guard(D1[k].complement)

    # -- Moebius images under lambda * M -------------------------------------------
    mcls = MOBIUS_CLASSES[(idx + idx // 12) % 6]
    M = rand_mobius(rng, mcls)
    lamM = complex(rand_lambda(rng, (), lcls))
    colv = bool((idx // 2) % 2)
    Mu = M if colv else M.T
    T0 = projective.Transformation(Mu.copy(), column_vectors=colv)
    T1 = projective.Transformation(lamM * Mu, column_vectors=colv)
    img0, img1 = {}, {}
    for k in raw:
        run.current_case = dict(case, part="mobius", matrix_class=mcls, column_matrix=M, scale=lamM,
                                bounded=k[1], source=raw[k])
        if D0[k] is None:
            img0[k] = img1[k] = None
            continue
        img0[k] = guard(lambda: T0 @ D0[k])
        img1[k] = guard(lambda: T1 @ D0[k])
        compare_queries(img0[k], img1[k], "mobius-image", run.current_case)
    for b1 in (True, False):
        for b2 in (True, False):
            c_ = dict(case, part="mobius", matrix_class=mcls, column_matrix=M, scale=lamM, configuration=cfg,
                      bounded=[b1, b2], self=raw["A", b1], other=raw["B", b2])
            run.current_case = c_
            run.note_class("scales-mobius", lcls, mcls, b1, b2, shape)
            compare_relations(img0["A", b1], img0["B", b2], img1["A", b1], img1["B", b2], "mobius-image", c_)

    # -- Fubini-Study disks about a centre in small / huge homogeneous coordinates ------
    fc = rand_complex(rng, shape, -1.5, 1.5)
    room = np.minimum(np.arctan(np.abs(fc)), np.pi / 2 - np.arctan(np.abs(fc)))   # FS distance to 0 / infinity
    rho_out = rng.uniform(0.05, 1.2, size=shape)
    if idx % 2:
        rho_out = np.minimum(rho_out, 0.9 * room)        # misses 0 and infinity: bounded, ordinary
    rho_in = rho_out * rng.uniform(0.1, 0.8, size=shape)
    lamF = rand_lambda(rng, shape + (1,), lcls)
    ctr0 = np.stack([np.ones_like(fc), fc], axis=-1)
    as_point = bool((idx // 4) % 2)
    c_ = dict(case, part="fs", centre=fc, fs_radius_outer=rho_out, fs_radius_inner=rho_in,
              homogeneous_centre=ctr0 * lamF, centre_given_as="CP1Point" if as_point else "projective")
    run.current_case = c_
    run.note_class("scales-fs", lcls, shape, as_point)

    def fs_disk(ctr, rho):
        if as_point:
            return guard(lambda: cpm.CP1Disk(cpm.CP1Point(ctr.copy()), rho.copy(), radius_metric="fs"))
        return guard(lambda: cpm.CP1Disk(ctr.copy(), rho.copy(), radius_metric="fs", center_coords="projective"))
    O0, I0 = fs_disk(ctr0, rho_out), fs_disk(ctr0, rho_in)
    O1, I1 = fs_disk(ctr0 * lamF, rho_out), fs_disk(ctr0 * lamF, rho_in)
    compare_queries(O0, O1, "fs-disk", c_)
    compare_queries(I0, I1, "fs-disk", c_)
    compare_relations(O0, I0, O1, I1, "fs-disk", c_)
    compare_relations(I0, O0, I1, O1, "fs-disk", c_)
    for Dq in (O1, I1):
        if Dq is not None:
            guard(Dq.fs_center)
    if O1 is not None:
        fd = guard(O1.fs_diameter)
        if fd is not None and np.shape(fd) == shape:
            mon.judge(float(np.max(np.abs(np.asarray(fd) - 2 * rho_out))) if rho_out.size else 0.0, 1e-8,
                      "scale-invariance/fs_diameter-differs/fs-disk/%s" % lk,
                      "FS disk about a rescaled homogeneous centre does not report 2 * radius", c_)
    if idx < 2:
        run.sample(case)


# ---------------------------------------------------------------------------
# large collections (seeded change C20-r6-3)

# sizes just below / at / above 256, 512, 1024, 2048 (where blocked or chunked
# code paths switch), on the self side, on the other side, on both
LARGE_SIZES = [(257, 3), (300, 7), (513, 2), (1000, 5), (4, 300), (6, 513), (300, 257), (1025, 1),
               (256, 4), (512, 3), (255, 6), (2049, 2)]


def wl_large(run, rng, idx):
    """contains / intersects on LARGE collections.  Every other workload uses
    at most 6 disks per operand and the ambient postcondition samples 192
    pairs; a code path that only exists for big arrays (C20-r6-3: the pairwise
    distance matrix filled in blocks of 256 rows, the last N % 256 rows left
    at 0) is invisible there.  Here every entry of the N x M table is compared
    with the set-theoretic answer from the generating (centre, radius, side),
    computed on whole arrays (cp1.relation_tables)."""
    from geometry_tools import complex_projective as cpm
    mon = run.monitor("large-collections")
    n, m = LARGE_SIZES[idx % 12]
    if idx >= 12:
        # thorough tier: wander around the thresholds
        if n >= m:
            n = max(1, n + int(rng.integers(-3, 130)))
        else:
            m = max(1, m + int(rng.integers(-3, 130)))
    shape_a = (n,) if idx % 4 != 1 else (3, n // 3 + 1)
    shape_b = (m,) if idx % 4 != 2 else (2, m // 2 + 1)
    mixed = bool(idx % 2)

    def params(shape):
        c = rand_complex(rng, shape, -1.0, 0.5)
        r = 10 ** rng.uniform(-1.3, 0.5, size=shape)
        b = rng.random(size=shape) < 0.65 if mixed else np.full(shape, bool((idx // 2) % 3))
        return c, r, b

    def build(c, r, b):
        data = np.where(b[..., None, None], data_disk(rng, c, r, True), data_disk(rng, c, r, False))
        return guard(lambda: cpm.CP1Disk(data))
    pa, pb = params(shape_a), params(shape_b)
    # a second collection of A's shape for the elementwise mode: A's disks
    # moved by 0.03 .. 5 radii and resized
    ca, ra, ba = pa
    pa2 = (ca + ra * 10 ** rng.uniform(-1.5, 0.7, size=shape_a) * np.exp(1j * rng.uniform(0, 2 * np.pi, size=shape_a)),
           ra * 10 ** rng.uniform(-0.7, 0.7, size=shape_a),
           rng.random(size=shape_a) < 0.65 if mixed else ba)
    A, B, A2 = build(*pa), build(*pb), build(*pa2)
    case = {"workload": "large", "shape_self": list(shape_a), "shape_other": list(shape_b), "mixed": mixed}
    run.note_class("large", shape_a, shape_b, mixed)

    def judge(rel, mode, X, Y, pX, pY, tag):
        if X is None or Y is None:
            return
        run.current_case = dict(case, relation=rel, broadcast=mode, operands=tag)
        got = guard(lambda: getattr(X, rel)(Y, broadcast=mode))
        if got is None:
            return
        got = np.asarray(got)
        cont, inter, ok = cp1.relation_tables(pX[0], pX[1], pX[2], pY[0], pY[1], pY[2], mode == "pairwise")
        want = cont if rel == "contains" else inter
        key_cls = "%s/%s/%s" % (mode, tag, "mixed" if mixed else "homogeneous")
        if got.shape != want.shape:
            return mon.fail("large-collections/%s/shape/%s" % (rel, key_cls),
                            "result shape %r, expected %r" % (got.shape, want.shape), run.current_case)
        bad = ok & (got.astype(bool) != want)
        if not bad.any():
            return mon.ok()
        first = tuple(int(x) for x in np.argwhere(bad)[0])
        i1 = first[0] if mode == "pairwise" else first
        i2 = first[1] if mode == "pairwise" else first
        f = lambda P, i: {"centre": repr(complex(P[0].reshape(-1)[i] if mode == "pairwise" else P[0][i])),
                          "radius": float(P[1].reshape(-1)[i] if mode == "pairwise" else P[1][i]),
                          "bounded": bool(P[2].reshape(-1)[i] if mode == "pairwise" else P[2][i])}
        mon.fail("large-collections/%s/wrong-answer/%s" % (rel, key_cls),
                 "%s(): %d of %d entries in general position differ from the set-theoretic answer; "
                 "first at %r (rows affected: %d .. %d): got %r, expected %r"
                 % (rel, int(bad.sum()), int(ok.sum()), first, int(np.argwhere(bad)[:, 0].min()),
                    int(np.argwhere(bad)[:, 0].max()), bool(got[first]), bool(want[first])),
                 dict(run.current_case, first_bad=list(first), self_disk=f(pX, i1), other_disk=f(pY, i2),
                      self_centres=pX[0], self_radii=pX[1], self_bounded=pX[2],
                      other_centres=pY[0], other_radii=pY[1], other_bounded=pY[2]))
    for rel in ("contains", "intersects"):
        judge(rel, "pairwise", A, B, pa, pb, "N-vs-M")
        judge(rel, "pairwise", B, A, pb, pa, "M-vs-N")
        judge(rel, "elementwise", A, A2, pa, pa2, "N-vs-N")
    if idx % 6 == 0 and int(np.prod(shape_a)) * int(np.prod(shape_a)) <= 120000:
        judge("intersects", "pairwise", A, A2, pa, pa2, "N-vs-N")
    if idx < 2:
        run.sample(case)


# ---------------------------------------------------------------------------
# utils/cp1.py helpers (seeded change C20-r6-2)

HELPER_CLASSES = ["generic", "contains-infinity", "bounded", "small-radius", "contains-origin"]


def wl_helpers(run, rng, idx):
    """utils.cp1.fs_ctr_to_aff_ctr / aff_ctr_to_fs_ctr: public helpers of an
    anchored file that state the conversion the property is about ("a disk
    built from a spherical centre and Fubini-Study radius reports that centre
    and radius": here, which affine circle that disk is).  The library never
    calls them, so only direct calls see them (C20-r6-2).  Their
    postconditions judge the closed forms; here they are also compared with
    CP1Disk(w0, rho, radius_metric='fs') and with each other."""
    from geometry_tools import complex_projective as cpm
    from geometry_tools.utils import cp1 as lib
    mon = run.monitor("fs-affine-helpers")
    shape = [(), (5,), (2, 3), (1,)][idx % 4]
    hcls = HELPER_CLASSES[(idx // 4) % 5]
    w0 = rand_complex(rng, shape, -2, 2)
    if idx % 7 == 3:
        w0 = (np.abs(w0) * rng.choice([-1.0, 1.0], size=shape)).astype(complex)     # real centres
    if HELPERS_DRIVE_ORIGIN and idx % 5 == 4 and shape:
        w0[(0,) * len(shape)] = 0.0
    th0 = np.arctan(np.abs(w0))
    room = np.pi / 2 - th0                        # Fubini-Study distance of w0 from infinity
    if hcls == "contains-infinity":
        rho = room + (np.pi / 2 - room) * rng.uniform(0.05, 0.95, size=shape)
    elif hcls == "bounded":
        rho = room * rng.uniform(0.05, 0.95, size=shape)
    elif hcls == "small-radius":
        rho = 10 ** rng.uniform(-4, -1.5, size=shape)
    elif hcls == "contains-origin":
        rho = th0 + (np.pi / 2 - th0) * rng.uniform(0.05, 0.9, size=shape)
    else:
        rho = rng.uniform(0.01, 1.55, size=shape)
    rho = np.clip(rho, 1e-6, np.pi / 2 - 1e-6)
    mg = np.abs(th0 + rho - np.pi / 2)
    case = {"workload": "helpers", "class": hcls, "shape": list(shape), "fs_center": w0, "fs_radius": rho}
    run.current_case = case
    run.note_class("helpers", hcls, shape)
    scalar = not shape
    arg_c = complex(w0) if scalar and idx % 8 < 4 else w0.copy()
    arg_r = float(rho) if scalar and idx % 8 < 4 else rho.copy()
    got = guard(lambda: lib.fs_ctr_to_aff_ctr(arg_c, arg_r))
    D = guard(lambda: cpm.CP1Disk(w0.copy(), rho.copy(), radius_metric="fs"))
    cp_ = guard(D.circle_parameters) if D is not None else None
    if got is not None and cp_ is not None:
        got = np.asarray(got, dtype=complex)
        C_, R_ = np.asarray(cp_[0]), np.asarray(cp_[1])
        if got.shape == shape and C_.shape == shape + (2,):
            dom = mg >= HELPER_MARGIN
            if np.any(dom):
                cd = C_[..., 0] + 1j * C_[..., 1]
                err = np.abs(got - cd) / (np.abs(cd) + R_) * mg
                inf_side = (th0 + rho) > np.pi / 2
                at0 = w0 == 0
                for cls, sel in (("bounded", dom & ~inf_side & ~at0), ("contains-infinity", dom & inf_side),
                                 ("origin-centre", dom & at0)):
                    if np.any(sel):
                        e = err[sel]
                        mon.judge(float(np.max(e)) if np.all(np.isfinite(e)) else float("nan"), 1e-9,
                                  "fs-affine-helpers/fs_ctr_to_aff_ctr-vs-CP1Disk/%s" % cls,
                                  "fs_ctr_to_aff_ctr(w0, rho) is not the centre reported by "
                                  "CP1Disk(w0, rho, radius_metric='fs').circle_parameters()",
                                  dict(case, helper=got, disk_centre=cd, disk_radius=R_))
            else:
                mon.skip("boundary circle through infinity")
        else:
            mon.fail("fs-affine-helpers/shape", "helper result shape %r, disk centres %r, input %r"
                     % (got.shape, C_.shape, shape), case)
    # the other direction on bounded affine disks, against the disk class and
    # as the inverse of the first helper
    c, r = rand_disk_params(rng, shape, DISK_CLASSES[idx % 5])
    if not HELPERS_DRIVE_ORIGIN:
        c = np.where(c == 0, 0.5 * r, c)          # see HELPERS_DRIVE_ORIGIN
    case2 = {"workload": "helpers", "shape": list(shape), "aff_center": c, "aff_radius": r}
    run.current_case = case2
    run.note_class("helpers-affine", DISK_CLASSES[idx % 5], shape)
    s_ = guard(lambda: lib.aff_ctr_to_fs_ctr(complex(c) if scalar else c.copy(), float(r) if scalar else r.copy()))
    Da = guard(lambda: cpm.CP1Disk(c.copy(), r.copy()))
    fc = guard(Da.fs_center) if Da is not None else None
    if s_ is not None and fc is not None:
        s_ = np.asarray(s_)
        pd = np.asarray(fc.proj_data)
        if s_.shape == shape and pd.shape == shape + (2,):
            with np.errstate(divide="ignore", invalid="ignore"):
                ang_disk = np.arctan2(np.abs(pd[..., 1]), np.abs(pd[..., 0]))
            mon.judge(float(np.max(np.abs(np.arctan(np.abs(s_)) - ang_disk))) if s_.size else 0.0, 1e-8,
                      "fs-affine-helpers/aff_ctr_to_fs_ctr-vs-CP1Disk",
                      "aff_ctr_to_fs_ctr(c, r) is not the modulus of CP1Disk(c, r).fs_center()",
                      dict(case2, helper=s_, fs_center=pd))
            # round trip: the Fubini-Study ball about that centre with the disk's
            # Fubini-Study radius has affine centre c again
            t = np.abs(c)
            rho2 = 0.5 * (np.arctan(t + r) - np.arctan(t - r))
            direction = c / np.where(t == 0, 1.0, t)
            ok = (np.abs(s_) > 0) & (rho2 > 1e-6)
            if np.any(ok):
                back = guard(lambda: lib.fs_ctr_to_aff_ctr(np.abs(s_) * direction, rho2))
                if back is not None and np.shape(back) == shape:
                    e = np.abs(np.asarray(back) - c) / (t + r)
                    mon.judge(float(np.max(e[ok])) if np.all(np.isfinite(e[ok])) else float("nan"), 1e-9,
                              "fs-affine-helpers/round-trip",
                              "fs_ctr_to_aff_ctr(aff_ctr_to_fs_ctr(c, r) c/|c|, rho(c, r)) != c",
                              dict(case2, fs_centre_modulus=s_, fs_radius=rho2, back=back))
    if idx < 2:
        run.sample(case)


WORKLOADS = [
    Workload("points", wl_points, quick=96, thorough=1920),
    Workload("disks", wl_disks, quick=80, thorough=1600),
    Workload("mobius", wl_mobius, quick=120, thorough=2400),
    Workload("relations", wl_relations, quick=80, thorough=1600),
    Workload("small-far", wl_small_far, quick=40, thorough=960),
    Workload("scales", wl_scales, quick=42, thorough=1008),
    Workload("large", wl_large, quick=12, thorough=96),
    Workload("helpers", wl_helpers, quick=40, thorough=800),
]
