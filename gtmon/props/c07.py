"""C07 -- Coxeter automata accept exactly the geodesic / shortlex normal forms.

Monitors
  geodesic-language  (P) on coxeter_automaton.generate_automaton_coxeter_matrix
                     and CoxeterGroup.automaton: the language of every automaton
                     any workload builds with shortlex=False, read off its
                     transition table up to a budgeted length, is the set of
                     reduced words (Tits' braid-closure oracle).
  shortlex-language  (P) same with shortlex=True: exactly the lexicographically
                     least reduced word of each element.
  even-language      (P+W) even_length=True: label sequences spell exactly the
                     even-length words of the oracle language (P) and of the
                     library's own plain automaton (W).
  growth-count       (P+W) number of accepted shortlex words of each length =
                     coefficient of the closed-form growth series (degrees /
                     Steinberg recursion -- not the word oracle).
  deep-equivalence   (P) beyond the budgeted length: product search of the library's
                     automaton against an independently written reference
                     automaton (witness finder only); a word on which the two
                     differ -- of any length -- is judged by the exact numeric
                     root oracles (reduced: every prefix root positive; least:
                     no smaller generator is a left descent of a suffix).
  public-api         (W) FSA.accepts on every word up to L, FSA.enumerate_words,
                     random long words (numeric root oracle for reducedness).
  distinct-images    (W) accepted shortlex words have pairwise distinct images
                     under an independently built Tits representation and under
                     the library's canonical_representation.
  oracle-selfcheck   harness validation (not deciding): braid-closure oracle =
                     root oracle = closed-form growth series.
"""
import itertools
import math
import signal

import numpy as np

from ..run import Workload
from .. import attach
from ..ref import coxeter_tits as ct
from ..ref import fsa_model

ID = "C07"
RULE = ("cases = Coxeter matrix x (shortlex, even_length) x constructor route "
        "(matrix in 5 packagings / diagram with shuffled edges) x generator "
        "names x encoding of infinity (0, -1, other negative); rank 2: all 7 "
        "labels in {2..7,inf}; rank 3: the 84 label multisets (quick) / all 343 "
        "ordered triples (thorough); rank 4/5: curated spherical, affine, "
        "compact and cusped hyperbolic, reducible and free-product matrices "
        "plus random ones; thorough: every rank-4 matrix over {2..7,inf} up to "
        "relabelling (5831 orbits); every word up to the budgeted length is judged "
        "(language set equality per length + FSA.accepts on each word), and beyond "
        "it the shortest word on which the automaton differs from a reference "
        "automaton (any length) is judged by exact numeric root oracles; "
        "non-trivial = rank >= 2 and at least one accepted word of length >= 2; "
        "distinct = distinct (rank, cosine-form type, reducible, has-infinity, "
        "shortlex, even, route, names, packaging) signatures")
ASSUMPTIONS = [
    "a diagram lists every pair of generators (the constructor raises KeyError "
    "for an omitted pair; commuting pairs are written with label 2)",
    "the order of the generators is CoxeterGroup.ordered_gens (row order of "
    "coxeter_matrix; first appearance in a diagram)",
    "labels of the even-length automaton are concatenated generator names; "
    "they are decoded with a prefix-free name table (ambiguous name sets are "
    "out of domain)",
    "FSA.accepts is fed a string for one-character names and a list of names "
    "for multi-character names (it iterates its argument)",
    "library constructions that exceed a wall-clock guard (3 s quick, 150 s "
    "thorough; large compact/affine parabolic subgroups) are dropped as a "
    "diagnostic and never judged; the even-length variant is only built for "
    "automata with <= 260 (quick) / 500 (thorough) states (automaton_multiple "
    "revisits states); both are budgets, not domain restrictions",
    "the reference automaton of deep-equivalence only proposes witness words; "
    "the verdict on a witness comes from the numeric root oracles, which are "
    "validated against the braid-closure oracle in the oracle-selfcheck workload",
    "distinct images means max-entry distance > 1e-6 (observed minimum "
    "separation is reported as extra.image_separation)",
]
ANCHORS = [("geometry_tools/automata/coxeter_automaton.py", q) for q in (
    "form_gen_root", "apply_gen_to_root", "find_word_to_negative",
    "find_root_from_vector", "find_small_roots", "apply_gen_to_node",
    "generate_automaton", "generate_automaton_coxeter_matrix")] + [
    ("geometry_tools/coxeter.py", "CoxeterGroup.automaton"),
    ("geometry_tools/coxeter.py", "CoxeterGroup.from_diagram"),
    ("geometry_tools/coxeter.py", "CoxeterGroup.from_coxeter_matrix"),
    ("geometry_tools/coxeter.py", "CoxeterGroup.canonical_representation"),
    ("geometry_tools/automata/fsa.py", "FSA.rename_generators"),
    ("geometry_tools/automata/fsa.py", "FSA.automaton_multiple"),
    ("geometry_tools/automata/fsa.py", "FSA.even_automaton"),
    ("geometry_tools/automata/fsa.py", "FSA.accepts"),
    ("geometry_tools/automata/fsa.py", "FSA.enumerate_words"),
    ("geometry_tools/automata/fsa.py", "FSA.enumerate_fixed_length_paths"),
]
_CA = "geometry_tools/automata/coxeter_automaton.py"
REQUIRED = [
    (_CA, "find_small_roots", "rootobj = Root(len(small_roots), rank, root.depth+1, newroot)"),
    (_CA, "find_small_roots", "root.neighbors[k] = rootobj"),
    (_CA, "apply_gen_to_node", "for j in range(k):"),
    (_CA, "apply_gen_to_node", "return node[swappos]"),
    (_CA, "apply_gen_to_node", "return 0"),
    (_CA, "generate_automaton", "todo.appendleft(newnode)"),
    (_CA, "generate_automaton_coxeter_matrix", "form = [[-math.cos(math.pi/m) if m > 0 else -1"),
    ("geometry_tools/coxeter.py", "CoxeterGroup.automaton", "return aut.even_automaton()"),
    ("geometry_tools/coxeter.py", "CoxeterGroup.automaton", "aut.rename_generators(self.ordered_gens)"),
    ("geometry_tools/coxeter.py", "CoxeterGroup.from_diagram", "self.coxeter_matrix = np.array(["),
    ("geometry_tools/automata/fsa.py", "FSA.automaton_multiple", "new_automaton.add_edges([(v, neighbor, word)],"),
]

SEP_TOL = 1e-6

_oracles = {}
_state = {"min_sep": float("inf"), "words_judged": 0}


class _Budget(BaseException):
    """raised by the wall-clock guard around a library build (BaseException so
    that no `except Exception` in between swallows it)."""


class time_budget:
    def __init__(self, seconds):
        self.seconds = seconds

    def __enter__(self):
        def handler(signum, frame):
            raise _Budget()
        self.old = signal.signal(signal.SIGALRM, handler)
        signal.setitimer(signal.ITIMER_REAL, self.seconds)

    def __exit__(self, *a):
        signal.setitimer(signal.ITIMER_REAL, 0)
        signal.signal(signal.SIGALRM, self.old)
        return False


def build_automaton(run, G, **kw):
    """G.automaton(**kw) under a generous wall-clock guard: a few Coxeter
    matrices (large compact/affine parabolic subgroups) make the library's
    construction take minutes; those cases are dropped (diagnostic), never
    judged."""
    limit = 150.0 if run.tier == "thorough" else 3.0
    try:
        with time_budget(limit):
            return G.automaton(**kw)
    except _Budget:
        run.monitor("public-api").diag("library automaton construction exceeded %.0f s; case dropped" % limit)
        return None


def oracle_for(M):
    o = _oracles.get(M)
    if o is None:
        if len(_oracles) > 48:
            _oracles.clear()
        o = _oracles[M] = ct.WordOracle(M)
    return o


def hook_L(n):
    return {1: 4, 2: 10, 3: 8, 4: 6, 5: 5}.get(n, 4 if n <= 7 else 3)


def input_class(M):
    return "inf-labels" if any(x == 0 for r in M for x in r) else "finite-labels"


def bump(mon, k):
    """count k in-domain word judgements on a monitor."""
    if k > 0:
        mon.evals += int(k)
        _state["words_judged"] += int(k)


# ---------------------------------------------------------------------------
# reading an automaton (attribute reading only: the transition table)

class TooManyWords(Exception):
    pass


def table_words(fsa, L, alphabet=None):
    """[set of label tuples accepted with exactly l labels, l = 0..L], read from
    the label view by a plain DFS from every start vertex.  With `alphabet`
    (number of labels a correct automaton can use) the walk stops with
    TooManyWords as soon as it has seen more paths than there are words over
    that alphabet -- an automaton polluted with foreign states must not make
    the monitor run for hours (seeded change C07-3)."""
    g = fsa.graph_dict
    starts = list(fsa.start_vertices)
    out = [set() for _ in range(L + 1)]
    stack = [(v, ()) for v in starts if v in g]
    cap = None if alphabet is None else sum(alphabet ** l for l in range(L + 1)) + 1
    seen = 0
    while stack:
        v, w = stack.pop()
        seen += 1
        if cap is not None and seen > cap:
            raise TooManyWords("more than %d paths of length <= %d" % (cap - 1, L))
        out[len(w)].add(w)
        if len(w) == L:
            continue
        for lab, nxt in g[v].items():
            if nxt in g:
                stack.append((nxt, w + (lab,)))
            else:
                out[len(w) + 1].add(w + (lab,))
    return out


def name_table(names):
    """prefix-free decoding table for generator names, or None."""
    names = list(names)
    if not names or not all(isinstance(x, str) and x for x in names):
        return None
    if len(set(names)) != len(names):
        return None
    for a in names:
        for b in names:
            if a != b and b.startswith(a):
                return None
    return {nm: i for i, nm in enumerate(names)}


def decode(s, table):
    """string of concatenated names -> index tuple, or None."""
    out = []
    pos = 0
    maxlen = max(len(k) for k in table)
    while pos < len(s):
        for ln in range(1, maxlen + 1):
            i = table.get(s[pos:pos + ln])
            if i is not None:
                out.append(i)
                pos += ln
                break
        else:
            return None
    return tuple(out)


def fmt(word, names=None):
    if names is None:
        return "".join(map(str, word)) if word else "<empty>"
    return "*".join(names[i] for i in word) if word else "<empty>"


# ---------------------------------------------------------------------------
# judging a language against the oracle

def judge_language(run, M, shortlex, got, L, via, case, names=None, step=1,
                   monitor=None):
    """got[l] = set of index tuples of length l*step claimed accepted.
    Every word of each judged length counts as one evaluation."""
    n = len(M)
    orc = oracle_for(M)
    mon = run.monitor(monitor or ("shortlex-language" if shortlex else "geodesic-language"))
    cls = input_class(M)
    for l in range(0, L + 1):
        wl = l * step
        want = orc.shortlex(wl) if shortlex else orc.reduced(wl)
        have = got[l]
        if have == want:
            bump(mon, n ** wl)
            continue
        extra = sorted(have - want)
        missing = sorted(want - have)
        if extra:
            w = extra[0]
            if len(w) != wl or any((not isinstance(x, int)) or x < 0 or x >= n for x in w):
                key, what = "malformed-word", "accepted label sequence %r is not a word of length %d" % (w, wl)
            elif not orc.is_reduced(w):
                red = ct.reduce_word(w, M)
                key = "accepts-non-reduced-word"
                what = ("accepts %s, which is not reduced (same element as the "
                        "shorter word %s)" % (fmt(w, names), fmt(red, names)))
            else:
                key = "accepts-non-least-word"
                what = ("accepts %s, but the least reduced word of that element is %s"
                        % (fmt(w, names), fmt(orc.element_of(w), names)))
        else:
            w = missing[0]
            key = "rejects-least-word" if shortlex else "rejects-reduced-word"
            what = "rejects %s, which is %s" % (
                fmt(w, names), "the shortlex-least word of its element" if shortlex
                else "a reduced word")
        mon.fail("%s/%s/%s/%s" % (mon.name, key, via, cls),
                 "%s automaton of %r %s [%d extra, %d missing at length %d]"
                 % ("shortlex" if shortlex else "geodesic", M, what,
                    len(extra), len(missing), wl), case)
        return False
    return True


def judge_growth(run, M, counts, via, case, step=1):
    mon = run.monitor("growth-count")
    L = (len(counts) - 1) * step
    gs = ct.growth_series(M, L)
    for l, c in enumerate(counts):
        if c != gs[l * step]:
            mon.fail("growth-count/%s/%s" % (via, input_class(M)),
                     "shortlex automaton of %r accepts %d words of length %d; the "
                     "group has %d elements of that length (growth series %r)"
                     % (M, c, l * step, gs[l * step], gs[::step]), case)
            return False
        mon.ok()
    return True


_refs = {}


def reference_for(M, shortlex):
    k = (M, bool(shortlex))
    r = _refs.get(k)
    if r is None:
        if len(_refs) > 24:
            _refs.clear()
        r = _refs[k] = ct.ReferenceAutomaton(M, bool(shortlex))
    return r


def deep_equivalence(run, fsa, M, shortlex, decode_label, width, via, case, names=None):
    """shortest word (any length) on which the library automaton and the
    reference automaton differ, judged by the numeric oracles.  `decode_label`
    maps a library label to a tuple of `width` generator indices."""
    from collections import deque
    mon = run.monitor("deep-equivalence")
    n = len(M)
    g = fsa.graph_dict
    deep = run.tier == "thorough"
    if len(g) > (20000 if deep else 3000):
        return mon.diag("automaton larger than the deep-equivalence budget")
    try:
        ref = reference_for(M, shortlex)
    except OverflowError:
        return mon.diag("reference automaton too large")
    starts = list(fsa.start_vertices)
    if not starts or starts[0] not in g:
        return
    letters = list(itertools.product(range(n), repeat=width))
    start = (starts[0], ref.start)
    seen = {start: ()}
    queue = deque([start])
    compared = 0
    cap = 150000 if deep else 20000
    witness = None
    while queue and witness is None:
        ls, rs = queue.popleft()
        acc = seen[(ls, rs)]
        trans = {}
        for lab, nxt in g[ls].items():
            w = decode_label(lab)
            if w is None or len(w) != width:
                return            # malformed labels are reported by the language monitors
            trans[w] = nxt
        for w in letters:
            r2 = rs
            for x in w:
                r2 = ref.step(r2, x)
                if r2 is None:
                    break
            l2 = trans.get(w)
            compared += 1
            if (l2 is None) != (r2 is None):
                witness = (acc + w, l2 is not None)
                break
            if l2 is not None and l2 in g and (l2, r2) not in seen:
                if len(seen) >= cap:
                    continue
                seen[(l2, r2)] = acc + w
                queue.append((l2, r2))
    if witness is None:
        bump(mon, compared)
        return True
    word, lib_accepts = witness
    try:
        truth = (ct.is_shortlex_numeric(M, word) if shortlex
                 else ct.is_reduced_numeric(M, word))
    except ArithmeticError:
        return mon.skip("witness beyond the precision of the numeric oracle")
    kind = "shortlex" if shortlex else "geodesic"
    if lib_accepts == truth:
        raise RuntimeError("reference automaton (%s) of %r is wrong on %r: library %s, "
                           "numeric oracle says %s" % (kind, M, word, lib_accepts, truth))
    if lib_accepts:
        reduced = ct.is_reduced_numeric(M, word)
        what = ("accepts %s (length %d), which is %s" % (
            fmt(word, names), len(word),
            "not reduced" if not reduced else "not the least reduced word of its element"))
        key = "accepts-non-reduced-word" if not reduced else "accepts-non-least-word"
    else:
        what = "rejects %s (length %d), which is %s" % (
            fmt(word, names), len(word),
            "the shortlex-least word of its element" if shortlex else "a reduced word")
        key = "rejects-least-word" if shortlex else "rejects-reduced-word"
    mon.fail("deep-equivalence/%s/%s/%s/%s" % (kind, key, via, input_class(M)),
             "%s automaton of %r %s" % (kind, M, what),
             dict(case, witness=list(word)))
    return False


def fsa_views_diag(run, fsa):
    """C09's invariant rides along as a diagnostic (verdict is C09's)."""
    mon = run.monitor("fsa-views(diagnostic)", deciding=False)
    try:
        ge, oe, ie, gv, ov, iv = fsa_model.lib_views(fsa)
    except Exception as e:
        mon.diag("views unreadable: %s" % type(e).__name__)
        return
    if set(ge) == set(oe) == set(ie) and len(ge) == len(oe) == len(ie):
        mon.ok()
    else:
        mon.diag("label/outgoing/incoming views differ")


# ---------------------------------------------------------------------------
# monitors attached to the real functions

def setup(run):
    from geometry_tools import coxeter
    from geometry_tools.automata import coxeter_automaton
    run.monitor("geodesic-language", min_events=1000)
    run.monitor("shortlex-language", min_events=1000)
    run.monitor("even-language", min_events=200)
    run.monitor("growth-count", min_events=50)
    run.monitor("deep-equivalence", min_events=1000)
    run.monitor("public-api", min_events=1000)
    run.monitor("distinct-images", min_events=10)
    run.monitor("oracle-selfcheck", deciding=False)

    def hook_matrix_fn(call):
        if call.exc is not None:
            return
        b = call.bound()
        raw = b.get("coxeter_matrix")
        lex = bool(b.get("lex_reduced"))
        mon = run.monitor("shortlex-language" if lex else "geodesic-language")
        M = ct.normalize(raw)
        if M is None:
            return mon.skip("argument is not a Coxeter matrix")
        n = len(M)
        L = _state.get("force_L") or hook_L(n)
        case = {"via": "generate_automaton_coxeter_matrix", "coxeter_matrix": M,
                "lex_reduced": lex, "L": L, "workload_case": run.current_case}
        try:
            got = table_words(call.result, L, alphabet=n)
        except Exception as e:
            return mon.fail("%s/unreadable-automaton/matrix-fn" % mon.name,
                            "result has no readable transition table: %r" % (e,), case)
        fsa_views_diag(run, call.result)
        ok = judge_language(run, M, lex, got, L, "matrix-fn", case)
        if ok and lex:
            ok = judge_growth(run, M, [len(s) for s in got], "matrix-fn", case)
        if ok:
            deep_equivalence(run, call.result, M, lex,
                             lambda lab: (lab,) if isinstance(lab, int) and 0 <= lab < n else None,
                             1, "matrix-fn", case)

    def hook_method(call):
        if call.exc is not None:
            return
        b = call.bound()
        G = b.get("self")
        lex = bool(b.get("shortlex"))
        even = bool(b.get("even_length"))
        mon = run.monitor("even-language" if even else
                          ("shortlex-language" if lex else "geodesic-language"))
        M = ct.normalize(getattr(G, "coxeter_matrix", None))
        if M is None:
            return mon.skip("group has no valid Coxeter matrix")
        names = list(getattr(G, "ordered_gens", []))
        tab = name_table(names)
        if tab is None or len(names) != len(M):
            return mon.skip("generator names are not a prefix-free set of strings")
        n = len(M)
        L = _state.get("force_L") or hook_L(n)
        case = {"via": "CoxeterGroup.automaton", "coxeter_matrix": M,
                "generators": names, "shortlex": lex, "even_length": even, "L": L,
                "workload_case": run.current_case}
        fsa_views_diag(run, call.result)
        if not even:
            try:
                raw = table_words(call.result, L, alphabet=n)
                got = [set(tuple(tab.get(x, x) for x in w) for w in s) for s in raw]
            except Exception as e:
                return mon.fail("%s/unreadable-automaton/method" % mon.name,
                                "result has no readable transition table: %r" % (e,), case)
            ok = judge_language(run, M, lex, got, L, "method", case, names)
            if ok and lex:
                judge_growth(run, M, [len(s) for s in got], "method", case)
            return
        # even-length automaton: labels are two concatenated names
        K = L // 2
        try:
            raw = table_words(call.result, K, alphabet=n * n)
        except Exception as e:
            return mon.fail("even-language/unreadable-automaton/method",
                            "result has no readable transition table: %r" % (e,), case)
        got = []
        for s in raw:
            dec = set()
            for w in s:
                parts = [decode(x, tab) if isinstance(x, str) else None for x in w]
                if any(p is None or len(p) != 2 for p in parts):
                    mon.fail("even-language/label-not-two-generators/method/%s" % input_class(M),
                             "even-length automaton of %r has a label sequence %r whose "
                             "labels are not products of two generators" % (M, w), case)
                    return
                dec.add(tuple(x for p in parts for x in p))
            got.append(dec)
        ok = judge_language(run, M, lex, got, K, "method", case, names, step=2,
                            monitor="even-language")
        if ok and lex:
            ok = judge_growth(run, M, [len(s) for s in got], "method-even", case, step=2)
        if ok and n <= 4:
            deep_equivalence(run, call.result, M, lex,
                             lambda lab: decode(lab, tab) if isinstance(lab, str) else None,
                             2, "method-even", case, names)

    attach.wrap_everywhere(run, coxeter_automaton.generate_automaton_coxeter_matrix,
                           hook_matrix_fn)
    attach.wrap_attr(run, coxeter.CoxeterGroup, "automaton", hook_method)


# ---------------------------------------------------------------------------
# building groups through both routes

INF_ENC = [0, -1, -3]
PACKAGINGS = ["int-ndarray", "nested-list", "float-ndarray", "int32-ndarray",
              "tuple-of-tuples"]
NAME_STYLES = ["alpha", "alphanum"]
DIAGRAM_NAMES = [list("abcde"), list("xyzuv"), ["s0", "s1", "s2", "s3", "s4"],
                 ["r", "g", "b", "k", "w"], ["p1", "p2", "p3", "p4", "p5"],
                 ["ga", "gb", "gc", "gd", "ge"]]


def raw_matrix(M, inf):
    return [[(inf if (x == 0) else x) for x in row] for row in M]


def package(raw, how):
    if how == "int-ndarray":
        return np.array(raw)
    if how == "nested-list":
        return [list(r) for r in raw]
    if how == "float-ndarray":
        return np.array(raw, dtype=float)
    if how == "int32-ndarray":
        return np.array(raw, dtype=np.int32)
    if how == "tuple-of-tuples":
        return tuple(tuple(r) for r in raw)
    raise ValueError(how)


def build_group(M, route, rng, inf=None, packaging=None, style=None, names=None,
                shuffle=True):
    """-> (CoxeterGroup, description dict, names in the library's generator order,
    matrix in that order)."""
    from geometry_tools import coxeter
    n = len(M)
    inf = INF_ENC[int(rng.integers(0, len(INF_ENC)))] if inf is None else inf
    raw = raw_matrix(M, inf)
    if route == "matrix":
        packaging = packaging or PACKAGINGS[int(rng.integers(0, len(PACKAGINGS)))]
        style = style or NAME_STYLES[int(rng.integers(0, 2))]
        G = coxeter.CoxeterGroup(matrix=package(raw, packaging), generator_style=style)
        exp_names = [("abcdefghijklmnopqrstuvwxyz"[i] if style == "alpha" else "s%d" % i)
                     for i in range(n)]
        desc = {"route": "matrix", "packaging": packaging, "generator_style": style,
                "matrix": raw}
        return G, desc, exp_names, M
    names = names or DIAGRAM_NAMES[int(rng.integers(0, len(DIAGRAM_NAMES)))][:n]
    edges = [(i, j) for i in range(n) for j in range(i + 1, n)]
    if shuffle:
        edges = [edges[k] for k in rng.permutation(len(edges))]
        edges = [(j, i) if rng.random() < 0.5 else (i, j) for (i, j) in edges]
    kind = int(rng.integers(0, 3))
    diagram = []
    for (i, j) in edges:
        lab = raw[i][j]
        lab = [int(lab), np.int64(lab), int(lab)][kind]
        diagram.append((names[i], names[j], lab) if kind != 2 else [names[i], names[j], lab])
    # order of first appearance (what 'the order of the generators' is for a diagram)
    order = []
    for (i, j) in edges:
        for k in (i, j):
            if k not in order:
                order.append(k)
    G = coxeter.CoxeterGroup(diagram=diagram)
    Mo = tuple(tuple(M[a][b] for b in order) for a in order)
    desc = {"route": "diagram", "names": "multi-char" if len(names[0]) > 1 else "one-char",
            "diagram": [[str(a), str(b), int(c)] for (a, b, c) in diagram]}
    return G, desc, [names[k] for k in order], Mo


def check_group_data(run, G, names, M, case):
    """the library's generator order and matrix are what the route defines."""
    mon = run.monitor("public-api")
    got_names = list(G.ordered_gens)
    if got_names != names:
        return mon.fail("public-api/generator-order/%s" % case["route"],
                        "ordered_gens %r, expected %r" % (got_names, names), case)
    gm = ct.normalize(G.coxeter_matrix)
    if gm != M:
        return mon.fail("public-api/coxeter-matrix/%s" % case["route"],
                        "coxeter_matrix %r differs from the input %r in generator order %r"
                        % (np.asarray(G.coxeter_matrix).tolist(), M, names), case)
    mon.ok()
    return True


def as_input(word, names, onechar):
    """argument for FSA.accepts."""
    if onechar:
        return "".join(names[i] for i in word)
    return [names[i] for i in word]


def study_matrix(run, rng, M, L_exh, L_set, L_img, sample=False, routes=("matrix", "diagram"),
                 primary=None):
    """the full W-level study of one Coxeter matrix."""
    n = len(M)
    ctype = ct.coxeter_type(M)
    reducible = len(ct.components(M)) > 1
    has_inf = input_class(M)
    primary = primary or routes[int(rng.integers(0, len(routes)))]
    api = run.monitor("public-api")
    evn = run.monitor("even-language")
    for route in routes:
        G, desc, names, Mo = build_group(M, route, rng)
        case = dict(desc, coxeter_matrix=Mo, type=ctype, rank=n)
        run.current_case = case
        if not check_group_data(run, G, names, Mo, case):
            continue
        orc = oracle_for(Mo)
        tab = name_table(names)
        onechar = all(len(x) == 1 for x in names)
        full = (route == primary)
        base_even = {}
        for shortlex in (True, False):
            case = dict(case, shortlex=shortlex)
            run.current_case = case
            aut = build_automaton(run, G, shortlex=shortlex)   # P hooks judge it
            if aut is None:
                continue
            sig = (n, ctype, "reducible" if reducible else "irreducible", has_inf,
                   "shortlex" if shortlex else "geodesic")
            run.note_class(*sig, "plain", route, desc.get("packaging", desc.get("names")),
                           desc.get("generator_style", "-"))
            kind = "shortlex" if shortlex else "geodesic"
            # -- enumerate_words: the documented way to list the language
            Lw = L_set if full else min(L_set, hook_L(n))
            words = list(aut.enumerate_words(Lw))
            dec = [decode(w, tab) if isinstance(w, str) else None for w in words]
            if any(d is None for d in dec):
                api.fail("public-api/enumerate_words/undecodable/%s" % kind,
                         "enumerate_words yields %r, not a product of generator names"
                         % (words[dec.index(None)],), case)
                continue
            if len(set(dec)) != len(dec):
                api.fail("public-api/enumerate_words/duplicate-word/%s" % kind,
                         "enumerate_words(%d) lists a word twice" % Lw, case)
                continue
            by_len = [set() for _ in range(Lw + 1)]
            bad_len = [d for d in dec if len(d) > Lw]
            if bad_len:
                api.fail("public-api/enumerate_words/too-long/%s" % kind,
                         "enumerate_words(%d) yields the longer word %s"
                         % (Lw, fmt(bad_len[0], names)), case)
                continue
            for d in dec:
                by_len[len(d)].add(d)
            if not judge_language(run, Mo, shortlex, by_len, Lw, "enumerate_words", case,
                                  names, monitor="public-api"):
                continue
            if len(aut.graph_dict) <= (500 if run.tier == "thorough" else 260):
                base_even[shortlex] = [by_len[l] for l in range(0, Lw + 1, 2)]
            else:
                # automaton_multiple revisits states; budget, not domain
                evn.diag("even variant not built for an automaton with > %d states"
                         % (500 if run.tier == "thorough" else 260))
            if shortlex:
                judge_growth(run, Mo, [len(s) for s in by_len], "enumerate_words", case)
            # -- FSA.accepts on every word up to L_exh
            if full:
                for l in range(L_exh + 1):
                    want = orc.shortlex(l) if shortlex else orc.reduced(l)
                    wrong = None
                    for w in itertools.product(range(n), repeat=l):
                        if bool(aut.accepts(as_input(w, names, onechar))) != (w in want):
                            wrong = w
                            break
                    if wrong is not None:
                        api.fail("public-api/accepts/%s/%s"
                                 % ("accepts-wrong-word" if wrong not in want else "rejects-normal-form", kind),
                                 "%s automaton of %r: accepts(%s) is %s" % (
                                     kind, Mo, fmt(wrong, names), wrong not in want), case)
                        break
                    bump(api, n ** l)
            # -- distinct images of the accepted shortlex words
            if shortlex and full and L_img:
                distinct_images(run, G, Mo, names, [d for d in dec if len(d) <= L_img], case)
        # -- a standard subgroup is a third constructor route (P hooks judge it)
        if full and n >= 3 and rng.random() < 0.35:
            keep = sorted(int(k) for k in rng.choice(n, size=n - 1, replace=False))
            sub = G.standard_subgroup([names[k] for k in keep])
            subnames = list(sub.ordered_gens)
            scase = dict(case, standard_subgroup=[names[k] for k in keep])
            run.current_case = scase
            if sorted(subnames) == sorted(names[k] for k in keep):
                ix = [names.index(x) for x in subnames]
                Ms = tuple(tuple(Mo[a][b] for b in ix) for a in ix)
                if ct.normalize(sub.coxeter_matrix) != Ms:
                    api.fail("public-api/coxeter-matrix/standard_subgroup",
                             "standard_subgroup(%r).coxeter_matrix is %r, the parent's labels "
                             "give %r" % (subnames, np.asarray(sub.coxeter_matrix).tolist(), Ms),
                             scase)
                else:
                    api.ok()
                    run.note_class(n - 1, ct.coxeter_type(Ms), "standard-subgroup", route)
                    for sl in (True, False):
                        build_automaton(run, sub, shortlex=sl)
                    build_automaton(run, sub, shortlex=True, even_length=True)
            else:
                api.fail("public-api/generator-order/standard_subgroup",
                         "standard_subgroup(%r) has generators %r"
                         % ([names[k] for k in keep], subnames), scase)
            run.current_case = case
        # -- even-length variants against the library's own plain automata
        for shortlex in (True, False):
            if shortlex not in base_even:
                continue
            case = dict(case, shortlex=shortlex, even_length=True)
            run.current_case = case
            E = build_automaton(run, G, shortlex=shortlex, even_length=True)   # P hook judges vs oracle
            if E is None:
                continue
            run.note_class(n, ctype, "reducible" if reducible else "irreducible", has_inf,
                           "shortlex" if shortlex else "geodesic", "even", route,
                           desc.get("packaging", desc.get("names")))
            K = len(base_even[shortlex]) - 1
            # bounded enumeration: an even automaton polluted with foreign states
            # (seeded change C07-3: automata sharing one default dictionary) has
            # an exploding language; more words than elements is already the verdict
            n_want = sum(len(s) for s in base_even[shortlex])
            ewords = list(itertools.islice(E.enumerate_words(K), n_want + 2))
            if len(ewords) > n_want:
                evn.fail("even-language/differs-from-plain-automaton/extra/%s"
                         % ("shortlex" if shortlex else "geodesic"),
                         "even-length automaton of %r lists more than the %d words of even "
                         "length <= %d that the plain automaton accepts" % (Mo, n_want, 2 * K), case)
                continue
            edec = [decode(w, tab) if isinstance(w, str) else None for w in ewords]
            kind = "shortlex" if shortlex else "geodesic"
            if any(d is None for d in edec):
                evn.fail("even-language/enumerate_words/undecodable/%s" % kind,
                         "even automaton yields %r" % (ewords[edec.index(None)],), case)
                continue
            if len(set(edec)) != len(edec):
                evn.fail("even-language/enumerate_words/duplicate-word/%s" % kind,
                         "even automaton lists a word twice up to %d labels" % K, case)
                continue
            got = set(edec)
            want = set().union(*base_even[shortlex]) if base_even[shortlex] else set()
            if got != want:
                extra = sorted(got - want)
                missing = sorted(want - got)
                w = (extra or missing)[0]
                evn.fail("even-language/differs-from-plain-automaton/%s/%s"
                         % ("extra" if extra else "missing", kind),
                         "even-length %s automaton of %r %s %s; the plain automaton %s it "
                         "(%d extra, %d missing up to length %d)"
                         % (kind, Mo, "accepts" if extra else "does not accept",
                            fmt(w, names), "does not accept" if extra else "accepts",
                            len(extra), len(missing), 2 * K), case)
                continue
            bump(evn, sum(n ** (2 * k) for k in range(K + 1)))
            if full:
                # accepts() with label lists (labels are two-letter words)
                ok = True
                for w in sorted(want)[:200]:
                    labs = [names[w[i]] + names[w[i + 1]] for i in range(0, len(w), 2)]
                    if not E.accepts(labs):
                        evn.fail("even-language/accepts/rejects-even-word/%s" % kind,
                                 "even automaton rejects the label list %r of an accepted "
                                 "even-length word" % (labs,), case)
                        ok = False
                        break
                if ok:
                    evn.ok()
    if sample:
        run.sample({"coxeter_matrix": M, "type": ctype, "growth": ct.growth_series(M, L_set)})


def distinct_images(run, G, M, names, words, case):
    mon = run.monitor("distinct-images")
    if len(words) < 2:
        return mon.skip("fewer than two words")
    words = sorted(set(words), key=lambda w: (len(w), w))[:900]
    # independent Tits (contragredient) representation
    gens = ct.dual_reflections(M)
    imgs = np.array([ct.word_matrix(gens, w) for w in words])
    sep, arg = ct.min_pairwise_separation(imgs)
    _state["min_sep"] = min(_state["min_sep"], sep)
    if not sep > SEP_TOL:
        mon.fail("distinct-images/independent-tits-representation/%s" % input_class(M),
                 "accepted shortlex words %s and %s of %r have the same image under the "
                 "independent Tits representation (distance %.3g)"
                 % (fmt(words[arg[0]], names), fmt(words[arg[1]], names), M, sep), case)
    else:
        mon.ok(0.0)
    # the library's canonical representation: products of its generator matrices
    rep = G.canonical_representation()
    lib = []
    for nm in names:
        A = np.asarray(rep.generators[nm], dtype=float)
        lib.append(A)
    lib = np.array(lib)
    if lib.shape != (len(names), len(names), len(names)) or not np.all(np.isfinite(lib)):
        return mon.fail("distinct-images/canonical-representation/bad-generators",
                        "canonical_representation() generator matrices have shape %r"
                        % (lib.shape,), case)
    imgs2 = np.array([ct.word_matrix(lib, w) for w in words])
    sep2, arg2 = ct.min_pairwise_separation(imgs2)
    _state["min_sep"] = min(_state["min_sep"], sep2)
    if not sep2 > SEP_TOL:
        mon.fail("distinct-images/canonical-representation/%s" % input_class(M),
                 "accepted shortlex words %s and %s of %r have the same image under "
                 "canonical_representation() (distance %.3g)"
                 % (fmt(words[arg2[0]], names), fmt(words[arg2[1]], names), M, sep2), case)
    else:
        mon.ok(0.0)
    # the same through the public word-evaluation API
    sub = words[:120]
    if all(len(x) == 1 for x in names):
        arr = np.asarray(rep.elements(["".join(names[i] for i in w) for w in sub]), dtype=float)
    else:
        arr = np.array([np.asarray(rep.element("*".join(names[i] for i in w), parse_simple=False)
                                   if w else np.eye(len(names)), dtype=float) for w in sub])
    sep3, arg3 = ct.min_pairwise_separation(arr)
    if not sep3 > SEP_TOL:
        mon.fail("distinct-images/canonical-representation-word-api/%s" % input_class(M),
                 "rep[...] images of accepted shortlex words %s and %s coincide (distance %.3g)"
                 % (fmt(sub[arg3[0]], names), fmt(sub[arg3[1]], names), sep3), case)
    else:
        mon.ok(0.0)


# ---------------------------------------------------------------------------
# matrices

LAB7 = [2, 3, 4, 5, 6, 7, 0]


def tri(p, q, r):
    return ((1, p, r), (p, 1, q), (r, q, 1))


def from_pairs(n, pairs, default=2):
    M = [[1 if i == j else default for j in range(n)] for i in range(n)]
    for (i, j), m in pairs.items():
        M[i][j] = M[j][i] = m
    return tuple(tuple(r) for r in M)


def linear(*labels):
    n = len(labels) + 1
    return from_pairs(n, {(i, i + 1): m for i, m in enumerate(labels)})


def cyclic(*labels):
    n = len(labels)
    return from_pairs(n, {(min(i, (i + 1) % n), max(i, (i + 1) % n)): m
                          for i, m in enumerate(labels)})


def star(*labels):
    """vertex 0 joined to 1..k with the given labels."""
    return from_pairs(len(labels) + 1, {(0, i + 1): m for i, m in enumerate(labels)})


RANK4 = [
    ("A4", linear(3, 3, 3)), ("B4", linear(3, 3, 4)), ("D4", star(3, 3, 3)),
    ("F4", linear(3, 4, 3)), ("A1xA3", from_pairs(4, {(1, 2): 3, (2, 3): 3})),
    ("I2(5)xI2(7)", from_pairs(4, {(0, 1): 5, (2, 3): 7})),
    ("A1^4", from_pairs(4, {})), ("H3xA1", from_pairs(4, {(0, 1): 5, (1, 2): 3})),
    ("affine-A3", cyclic(3, 3, 3, 3)), ("affine-B3", star(3, 3, 4)),
    ("affine-C3", linear(4, 3, 4)), ("affine-A2xA1", from_pairs(4, {(0, 1): 3, (1, 2): 3, (0, 2): 3})),
    ("affine-A1xaffine-A1", from_pairs(4, {(0, 1): 0, (2, 3): 0})),
    ("affine-G2xA1", from_pairs(4, {(0, 1): 6, (1, 2): 3})),
    ("compact-[3,5,3]", linear(3, 5, 3)), ("compact-[5,3,4]", linear(5, 3, 4)),
    ("compact-[5,3,5]", linear(5, 3, 5)), ("compact-cyc-3334", cyclic(3, 3, 3, 4)),
    ("compact-cyc-3335", cyclic(3, 3, 3, 5)), ("compact-cyc-3434", cyclic(3, 4, 3, 4)),
    ("compact-cyc-3535", cyclic(3, 5, 3, 5)), ("compact-star-533", star(5, 3, 3)),
    ("cusped-[3,3,6]", linear(3, 3, 6)), ("cusped-[4,4,3]", linear(4, 4, 3)),
    ("cusped-[3,6,3]", linear(3, 6, 3)), ("cusped-[6,3,6]", linear(6, 3, 6)),
    ("cusped-cyc-3336", cyclic(3, 3, 3, 6)), ("cusped-tetra-333333",
                                              from_pairs(4, {}, default=3)),
    ("free-product", from_pairs(4, {}, default=0)),
    ("triangle-237xA1", from_pairs(4, {(0, 1): 2, (1, 2): 3, (0, 2): 7})),
    ("triangle-inf-inf-3 + 1", from_pairs(4, {(0, 1): 0, (1, 2): 0, (0, 2): 3, (2, 3): 4})),
    ("all-7", from_pairs(4, {}, default=7)), ("mixed-inf", from_pairs(4, {(0, 1): 0, (1, 2): 3, (2, 3): 0, (0, 3): 5})),
    ("H4", linear(5, 3, 3)),
]
SLOW = {"H4", "affine-C4", "compact-[5,3,3,4]", "affine-F4"}   # library build 2..30 s: thorough only

RANK5 = [
    ("A5", linear(3, 3, 3, 3)), ("B5", linear(3, 3, 3, 4)), ("D5", from_pairs(5, {(0, 1): 3, (1, 2): 3, (2, 3): 3, (2, 4): 3})),
    ("A1^5", from_pairs(5, {})), ("free-product", from_pairs(5, {}, default=0)),
    ("affine-A4", cyclic(3, 3, 3, 3, 3)), ("affine-C4", linear(4, 3, 3, 4)),
    ("affine-D4", star(3, 3, 3, 3)), ("A2xB3", from_pairs(5, {(0, 1): 3, (2, 3): 3, (3, 4): 4})),
    ("compact-[5,3,3,4]", linear(5, 3, 3, 4)),
    ("cusped-[3,4,3,4]", linear(3, 4, 3, 4)), ("I2(inf)xH3", from_pairs(5, {(0, 1): 0, (2, 3): 5, (3, 4): 3})),
    ("all-3", from_pairs(5, {}, default=3)), ("affine-F4", linear(3, 3, 4, 3)),
    ("pentagon-right-angled", cyclic(0, 0, 0, 0, 0)),
    # more than 64 small (elementary) roots but automata small enough for the
    # quick deep-equivalence budget (73 / 68 / 75 roots, 1191 / 1747 / 1070
    # states): where a state code packed into 64 bits runs out (seeded change
    # C07-r6-2; its shortest witnesses are 15 letters long, far beyond the
    # exhaustive lengths -- the product search of deep-equivalence finds them)
    ("many-small-roots-73", ((1, 3, 3, 2, 5), (3, 1, 2, 6, 2), (3, 2, 1, 5, 2), (2, 6, 5, 1, 3), (5, 2, 2, 3, 1))),
    ("many-small-roots-68", ((1, 3, 2, 5, 2), (3, 1, 5, 2, 2), (2, 5, 1, 2, 5), (5, 2, 2, 1, 3), (2, 2, 5, 3, 1))),
    ("many-small-roots-75", ((1, 2, 3, 5, 3), (2, 1, 5, 3, 5), (3, 5, 1, 2, 4), (5, 3, 2, 1, 2), (3, 5, 4, 2, 1))),
]


def random_matrix(rng, n, labels=None, weights=None):
    labels = labels or [2, 3, 4, 5, 6, 7, 0]
    weights = weights or [0.34, 0.26, 0.1, 0.08, 0.06, 0.06, 0.10]
    M = [[1] * n for _ in range(n)]
    for i in range(n):
        for j in range(i + 1, n):
            M[i][j] = M[j][i] = int(rng.choice(labels, p=weights))
    return tuple(tuple(r) for r in M)


def permuted(M, perm):
    return tuple(tuple(M[a][b] for b in perm) for a in perm)


# ---------------------------------------------------------------------------
# workloads

def wl_rank2(run, rng, idx):
    m = LAB7[idx % 7]
    M = ((1, m), (m, 1))
    deep = run.tier == "thorough"
    study_matrix(run, rng, M, L_exh=10 if not deep else 12, L_set=12 if not deep else 16,
                 L_img=12, sample=idx < 2)


def wl_rank3(run, rng, idx):
    if run.tier == "thorough":
        p, q, r = LAB7[idx % 7], LAB7[(idx // 7) % 7], LAB7[(idx // 49) % 7]
        M = tri(p, q, r)
        study_matrix(run, rng, M, L_exh=8, L_set=10, L_img=8, sample=idx < 2)
    else:
        combos = list(itertools.combinations_with_replacement(LAB7, 3))
        p, q, r = combos[idx % len(combos)]
        labs = [p, q, r]
        perm = rng.permutation(3)
        M = tri(*[labs[k] for k in perm])
        study_matrix(run, rng, M, L_exh=6, L_set=8, L_img=7, sample=idx < 2)
    run.extra.setdefault("rank3_label_triples", {})["%d,%d,%d" % (M[0][1], M[1][2], M[0][2])] = 1


def wl_rank4(run, rng, idx):
    deep = run.tier == "thorough"
    if idx < len(RANK4):
        name, M = RANK4[idx]
        slow = name in SLOW
        if slow and not deep:
            name, M = "random", random_matrix(rng, 4)
        elif rng.random() < 0.5:
            M = permuted(M, [int(k) for k in rng.permutation(4)])
    else:
        slow = False
        name, M = "random", random_matrix(rng, 4)
    run.note_class("rank4-source", name)
    study_matrix(run, rng, M, L_exh=5 if not deep else 6, L_set=6 if not deep else 7,
                 L_img=5 if not deep else 6, sample=idx < 1,
                 routes=("matrix",) if slow else ("matrix", "diagram"))


def wl_rank5(run, rng, idx):
    deep = run.tier == "thorough"
    if idx < len(RANK5):
        name, M = RANK5[idx]
        slow = name in SLOW
        if slow and not deep:
            name, M = "random", random_matrix(rng, 5)
        elif rng.random() < 0.5:
            M = permuted(M, [int(k) for k in rng.permutation(5)])
    else:
        slow = False
        name, M = "random", random_matrix(rng, 5)
    run.note_class("rank5-source", name)
    if name.startswith("many-small-roots") and not deep:
        # quick tier: these are here for the deep-equivalence postcondition on the
        # constructed automata; short exhaustive lengths only
        study_matrix(run, rng, M, L_exh=3, L_set=3, L_img=3, sample=False, routes=("matrix",))
        return
    study_matrix(run, rng, M, L_exh=4 if not deep else 5, L_set=5 if not deep else 6,
                 L_img=4 if not deep else 5, sample=idx < 1,
                 routes=("matrix", "diagram") if (deep or idx % 2 == 0) and not slow
                 else ("matrix",))


PAIRS4 = [(0, 1), (0, 2), (0, 3), (1, 2), (1, 3), (2, 3)]
PERMS4 = list(itertools.permutations(range(4)))
BLOCK4 = 512


def _canonical4(labels):
    """is this assignment of labels to the 6 pairs the least in its S4 orbit?"""
    lab = {}
    for (i, j), m in zip(PAIRS4, labels):
        lab[(i, j)] = lab[(j, i)] = m
    for perm in PERMS4[1:]:
        img = tuple(lab[(perm[i], perm[j])] for (i, j) in PAIRS4)
        if img < labels:
            return False
    return True


def wl_rank4_orbits(run, rng, idx):
    """thorough: every rank-4 Coxeter matrix over {2..7, inf} up to relabelling
    (5831 orbits), one block of 512 label codes per case; geodesic and shortlex
    automata judged by the attached postconditions up to length 6."""
    from geometry_tools import coxeter
    done = 0
    for code in range(idx * BLOCK4, min((idx + 1) * BLOCK4, 7 ** 6)):
        c = code
        labels = []
        for _ in range(6):
            labels.append(LAB7[c % 7])
            c //= 7
        labels = tuple(labels)
        if not _canonical4(labels):
            continue
        M = from_pairs(4, dict(zip(PAIRS4, labels)))
        run.current_case = {"coxeter_matrix": M, "workload": "rank4-all-orbits"}
        G = coxeter.CoxeterGroup(matrix=np.array(raw_matrix(M, [0, -1][code % 2])))
        ok = True
        for sl in (True, False):
            try:
                with time_budget(30.0):
                    G.automaton(shortlex=sl)
            except _Budget:
                run.monitor("public-api").diag("rank4-all-orbits: construction exceeded 30 s")
                ok = False
                break
        done += ok
        run.note_class("rank4-orbit", ct.coxeter_type(M), input_class(M),
                       "reducible" if len(ct.components(M)) > 1 else "irreducible")
    run.extra["rank4_orbits_judged"] = run.extra.get("rank4_orbits_judged", 0) + done
    run.note_class("rank4-all-orbits-block", idx % 8)


def random_walk_word(rng, M, gens, length, corrupt):
    """a reduced word grown letter by letter with the root oracle, optionally
    corrupted (one extra letter inserted) so that both outcomes occur."""
    n = len(M)
    w = ()
    for _ in range(length):
        cands = [s for s in rng.permutation(n)
                 if ct.reduced_by_roots(M, w + (int(s),), gens)]
        if not cands:
            break
        w = w + (int(cands[0]),)
    if corrupt and w:
        pos = int(rng.integers(0, len(w) + 1))
        w = w[:pos] + (int(rng.integers(0, n)),) + w[pos:]
    return w


def wl_long_words(run, rng, idx):
    """words far beyond the exhaustive length: reducedness from the numeric root
    oracle, shortlex-least from the braid closure (bounded size)."""
    n = int(rng.choice([2, 3, 3, 4, 4, 5]))
    pools = {3: None, 4: RANK4, 5: RANK5}
    if n == 2:
        m = LAB7[int(rng.integers(0, 7))]
        M = ((1, m), (m, 1))
    elif n == 3 or rng.random() < 0.5:
        M = random_matrix(rng, n)
    else:
        pool = [x for x in pools[n] if x[0] not in SLOW]
        M = pool[int(rng.integers(0, len(pool)))][1]
    G, desc, names, Mo = build_group(M, ["matrix", "diagram"][idx % 2], rng)
    case = dict(desc, coxeter_matrix=Mo, rank=n)
    run.current_case = case
    api = run.monitor("public-api")
    onechar = all(len(x) == 1 for x in names)
    gens = ct.reflections(Mo)
    geo = build_automaton(run, G, shortlex=False)
    slx = build_automaton(run, G, shortlex=True)
    if geo is None or slx is None:
        return
    maxlen = {2: 40, 3: 24, 4: 18, 5: 14}[n]
    run.note_class("long-words", n, ct.coxeter_type(Mo), input_class(Mo), desc["route"])
    for k in range(24):
        length = int(rng.integers(hook_L(n) + 1, maxlen + 1))
        w = random_walk_word(rng, Mo, gens, length, corrupt=(k % 3 == 0))
        red = (not ct.has_square(w)) and ct.reduced_by_roots(Mo, w, gens)
        arg = as_input(w, names, onechar)
        got = bool(geo.accepts(arg))
        case_w = dict(case, word=list(w), reduced=red)
        if got != red:
            api.fail("public-api/accepts/long-word/geodesic/%s"
                     % ("accepts-non-reduced" if got else "rejects-reduced"),
                     "geodesic automaton of %r: accepts(%s) is %s but the word is %sreduced"
                     % (Mo, fmt(w, names), got, "" if red else "not "), case_w)
            return
        api.ok()
        # shortlex: needs the closure; only when it stays small
        if red:
            clo = bounded_closure(w, Mo, 4000)
            if clo is None:
                api.skip("braid closure of a long word larger than 4000")
                continue
            least = (min(clo) == w)
        else:
            least = False
        got = bool(slx.accepts(arg))
        if got != least:
            api.fail("public-api/accepts/long-word/shortlex/%s"
                     % ("accepts-non-normal-form" if got else "rejects-normal-form"),
                     "shortlex automaton of %r: accepts(%s) is %s; reduced=%s, least=%s"
                     % (Mo, fmt(w, names), got, red, least), case_w)
            return
        api.ok()
        if red and not least:
            # the normal form of the same element must be accepted
            nf = min(clo)
            if not slx.accepts(as_input(nf, names, onechar)):
                api.fail("public-api/accepts/long-word/shortlex/rejects-normal-form",
                         "shortlex automaton of %r rejects %s, the least reduced word of "
                         "the element of %s" % (Mo, fmt(nf, names), fmt(w, names)), case_w)
                return
            api.ok()


def bounded_closure(word, M, cap):
    seen = {word}
    stack = [word]
    while stack:
        w = stack.pop()
        L = len(w)
        for i in range(L - 1):
            s, t = w[i], w[i + 1]
            if s == t:
                continue
            m = M[s][t]
            if m == 0 or i + m > L:
                continue
            if all(w[i + k] == (s if k % 2 == 0 else t) for k in range(2, m)):
                new = w[:i] + tuple((t if k % 2 == 0 else s) for k in range(m)) + w[i + m:]
                if new not in seen:
                    seen.add(new)
                    stack.append(new)
                    if len(seen) > cap:
                        return None
    return seen


def wl_matrix_fn(run, rng, idx):
    """generate_automaton_coxeter_matrix called directly (as a library user may):
    nested lists, arrays, any non-positive number for infinity."""
    from geometry_tools.automata import coxeter_automaton
    n = int(rng.integers(2, 6))
    M = random_matrix(rng, n) if n > 2 else ((1, LAB7[idx % 7]), (LAB7[idx % 7], 1))
    inf = [0, -1, -7][idx % 3]
    how = PACKAGINGS[idx % len(PACKAGINGS)]
    raw = package(raw_matrix(M, inf), how)
    for lex in (False, True):
        run.current_case = {"function": "generate_automaton_coxeter_matrix",
                            "matrix": raw_matrix(M, inf), "packaging": how, "lex_reduced": lex}
        try:
            with time_budget(150.0 if run.tier == "thorough" else 3.0):
                if idx % 2:
                    coxeter_automaton.generate_automaton_coxeter_matrix(raw, lex_reduced=lex)
                else:
                    coxeter_automaton.generate_automaton_coxeter_matrix(raw, lex)
        except _Budget:
            run.monitor("public-api").diag("library automaton construction exceeded the "
                                           "wall-clock guard; case dropped")
            return
        run.note_class("matrix-fn", n, ct.coxeter_type(M), input_class(M), how, inf, lex)


def wl_tutorial(run, rng, idx):
    """the front-page tutorial: (2,3,7) automaton, 5951 words up to length 30,
    even automaton both ways, automaton_accepted count; also (3,3,4), (5,3,5)-type
    docstring groups."""
    from geometry_tools import coxeter
    api = run.monitor("public-api")
    gro = run.monitor("growth-count")
    evn = run.monitor("even-language")
    triples = [(2, 3, 7), (3, 3, 4), (2, 4, 5), (2, 3, 0)]
    p, q, r = triples[idx % len(triples)]
    G = coxeter.TriangleGroup((p, q, r))
    M = ct.normalize(G.coxeter_matrix)
    case = {"tutorial": "TriangleGroup((%d,%d,%d))" % (p, q, r)}
    run.current_case = case
    if M != tri(p, q, r):
        return api.fail("public-api/coxeter-matrix/TriangleGroup",
                        "TriangleGroup(%r).coxeter_matrix is %r" % ((p, q, r), M), case)
    L = 30
    fsa_ = G.automaton()
    words = list(fsa_.enumerate_words(L))
    gs = ct.growth_series(M, L)
    run.note_class("tutorial", p, q, r)
    if len(set(words)) != len(words):
        return api.fail("public-api/enumerate_words/duplicate-word/shortlex",
                        "enumerate_words(30) lists a word twice", case)
    cnt = [0] * (L + 1)
    for w in words:
        if len(w) <= L:
            cnt[len(w)] += 1
    for l in range(L + 1):
        if cnt[l] != gs[l]:
            return gro.fail("growth-count/tutorial-enumerate_words/%s" % input_class(M),
                            "TriangleGroup(%r).automaton() lists %d words of length %d; the "
                            "group has %d such elements" % ((p, q, r), cnt[l], l, gs[l]), case)
        gro.ok()
    if (p, q, r) == (2, 3, 7):
        gro.require(len(words) == 5951, "growth-count/tutorial-5951",
                    "the tutorial's count of unique words up to length 30 is 5951, got %d"
                    % len(words), case)
    # all accepted words are shortlex normal forms (root oracle + small closures
    # would be slow at length 30: check reducedness numerically on a sample)
    gens = ct.reflections(M)
    for k in rng.permutation(len(words))[:150]:
        w = decode(words[int(k)], {"a": 0, "b": 1, "c": 2})
        if w is None or ct.has_square(w) or not ct.reduced_by_roots(M, w, gens):
            return api.fail("public-api/enumerate_words/long-word-not-reduced",
                            "accepted word %r of TriangleGroup(%r) is not reduced"
                            % (words[int(k)], (p, q, r)), case)
        api.ok()
    # even automaton: the two documented ways agree and have the even counts
    E1 = G.automaton(even_length=True)
    E2 = fsa_.even_automaton()
    K = 8
    want = sorted(w for w in words if len(w) % 2 == 0 and len(w) <= 2 * K)
    # bounded enumeration (a polluted automaton has an exploding language)
    w1 = sorted(itertools.islice(E1.enumerate_words(K), len(want) + 2))
    w2 = sorted(itertools.islice(E2.enumerate_words(K), len(want) + 2))
    if len(w1) > len(want) or len(w2) > len(want):
        return evn.fail("even-language/differs-from-plain-automaton/tutorial",
                        "even automaton lists more than the %d even-length words of the "
                        "plain automaton (up to length %d)" % (len(want), 2 * K), case)
    if w1 != w2:
        return evn.fail("even-language/two-routes-differ",
                        "automaton(even_length=True) and automaton().even_automaton() "
                        "enumerate different words", case)
    if w1 != want:
        return evn.fail("even-language/differs-from-plain-automaton/tutorial",
                        "even automaton words differ from the even-length words of the "
                        "plain automaton (up to length %d)" % (2 * K), case)
    bump(evn, len(want))
    # the tutorial's automaton_accepted call returns one isometry per even element
    if ct.coxeter_type(M) == "lorentzian":
        rep = G.hyperbolic_rep()
        iso = rep.automaton_accepted(E1, 6)
        k = np.asarray(iso.matrix).shape[0]
        want_k = sum(gs[l] for l in range(0, 13, 2))
        gro.require(k == want_k, "growth-count/tutorial-automaton_accepted",
                    "automaton_accepted(even automaton, 6) returns %d isometries; there "
                    "are %d elements of even length <= 12" % (k, want_k), case)


def wl_selfcheck(run, rng, idx):
    """validation of the oracles against each other (a mismatch is a harness
    error, not a finding)."""
    mon = run.monitor("oracle-selfcheck")
    n = 2 + idx % 4
    M = random_matrix(rng, n)
    L = {2: 10, 3: 7, 4: 5, 5: 4}[n]
    orc = ct.WordOracle(M).extend_to(L)
    gs = ct.growth_series(M, L)
    if gs != orc.counts(L):
        raise RuntimeError("growth series %r != oracle counts %r for %r" % (gs, orc.counts(L), M))
    gens = ct.reflections(M)
    for l in range(L + 1):
        red = orc.reduced(l)
        for w in itertools.product(range(n), repeat=l):
            r2 = (not ct.has_square(w)) and ct.reduced_by_roots(M, w, gens)
            if (w in red) != r2:
                raise RuntimeError("oracles disagree on %r for %r" % (w, M))
            mon.ok()
    # the any-length numeric oracles and the reference automaton of the
    # deep-equivalence monitor against the closure oracle
    B = ct.cosine_matrix(M)
    for sl in (False, True):
        ref = ct.ReferenceAutomaton(M, sl)
        for l in range(L + 1):
            want = orc.shortlex(l) if sl else orc.reduced(l)
            got = set()
            stack = [((), ref.start)]
            while stack:
                w, st = stack.pop()
                if len(w) == l:
                    got.add(w)
                    continue
                for x in range(n):
                    nx = ref.step(st, x)
                    if nx is not None:
                        stack.append((w + (x,), nx))
            if got != want:
                raise RuntimeError("reference automaton (shortlex=%s) of %r differs from the "
                                   "closure oracle at length %d" % (sl, M, l))
            mon.ok()
    for l in range(L + 1):
        slx = orc.shortlex(l)
        for w in orc.reduced(l):
            if not ct.is_reduced_numeric(M, w, B) or ct.is_shortlex_numeric(M, w, B) != (w in slx):
                raise RuntimeError("numeric oracles disagree with the closure oracle on %r for %r"
                                   % (w, M))
            mon.ok()
    keys = [k for l in range(L + 1) for k in orc.levels[l]]
    sep, _ = ct.min_pairwise_separation(np.array([ct.word_matrix(gens, k) for k in keys]))
    if not sep > 1e-3:
        raise RuntimeError("distinct closures with equal matrices for %r" % (M,))


WORKLOADS = [
    Workload("rank2", wl_rank2, quick=7, thorough=28),
    Workload("rank3", wl_rank3, quick=84, thorough=343),
    Workload("rank4", wl_rank4, quick=34, thorough=400),
    Workload("rank4-all-orbits", wl_rank4_orbits, quick=0, thorough=(7 ** 6 + BLOCK4 - 1) // BLOCK4),
    Workload("rank5", wl_rank5, quick=19, thorough=160),
    Workload("long-words", wl_long_words, quick=20, thorough=640),
    Workload("matrix-fn", wl_matrix_fn, quick=30, thorough=320),
    Workload("tutorial", wl_tutorial, quick=4, thorough=16),
    Workload("oracle-selfcheck", wl_selfcheck, quick=8, thorough=96),
]
EXHAUSTIVE = {"quick": False, "thorough": False}


def finalize(run):
    if _state["min_sep"] < float("inf"):
        run.extra["image_separation"] = {"min_per_process": [round(_state["min_sep"], 6)]}
    run.extra["words_judged"] = _state["words_judged"]
