"""Workloads of C14 (kept apart from the monitors in c14.py for readability).
Every case only *calls* the library; the attached postconditions judge."""
import math
import traceback
import numpy as np

from ..run import Workload
from ..ref import hyp as rh
from ..ref import circles as rc
from . import c14 as base

SHAPES = [(), (5,), (2, 3), (1, 4)]
DCLASS = [1e-3, 1e-2, 0.1, 1.0, 3.0, 8.0]
MODELS = ["poincare", "halfspace"]

# every accepted way of naming a model (the enum member, any alias, any case):
# the answers must not depend on the spelling (seeded change C14-r3-1: a
# dispatch table keyed on the canonical lower-case strings only)
SPELLINGS = {
    "poincare": ["poincare", "MEMBER:POINCARE", "Poincare", "POINCARE"],
    "halfspace": ["halfspace", "MEMBER:HALFSPACE", "halfplane", "HALFPLANE", "HalfSpace", "MEMBER:HALFPLANE"],
    "klein": ["klein", "MEMBER:KLEIN", "Klein", "kleinian", "AFFINE", "MEMBER:AFFINE"],
}
_spell = {"n": 0, "used": {}}


def sp(model):
    from geometry_tools import hyperbolic as H
    opts = SPELLINGS[model]
    _spell["n"] += 1
    o = opts[_spell["n"] % len(opts)]
    _spell["used"][o] = _spell["used"].get(o, 0) + 1
    if o.startswith("MEMBER:"):
        return getattr(H.Model, o[7:])
    return o


def lib():
    from geometry_tools import hyperbolic as H
    return H


def pick_dim(idx):
    return (2, 2, 3, 4)[idx % 4]


def second_point(rng, P, d):
    """Klein coordinates of points at hyperbolic distance d from P (random
    directions)."""
    v = rng.normal(size=P.shape)
    return rh.exp_map(P, rh.tangent_project(P, v), np.full(P.shape[:-1], d))


def units_check(run, obj, model, what):
    """degrees == radians * 180/pi and identical centre/radius."""
    mon = run.monitor("units")
    cd, rd, td = obj.circle_parameters(model=sp(model), degrees=True)
    cr, rr, tr = obj.circle_parameters(model=sp(model), degrees=False)
    td = np.asarray(td, dtype=float)
    tr = np.asarray(tr, dtype=float)
    if not (np.all(np.isfinite(td)) and np.all(np.isfinite(tr))):
        return mon.skip("non-finite angles (limit case)")
    err = float(np.max(np.abs(td - tr * 180.0 / math.pi))) if td.size else 0.0
    same = np.array_equal(np.asarray(cd), np.asarray(cr)) and np.array_equal(np.asarray(rd), np.asarray(rr))
    mon.judge(err, 1e-9, "units/degrees-not-radians-times-180-over-pi/%s" % what,
              "%s.circle_parameters(%s): degrees=True is not degrees=False * 180/pi" % (what, model))
    mon.require(same, "units/centre-or-radius-depends-on-degrees/%s" % what,
                "%s.circle_parameters(%s): centre/radius differ between degrees and radians"
                % (what, model))


def exercise_segment(run, seg, model_list=MODELS, ideal=True):
    for model in model_list:
        units_check(run, seg, model, "Segment")
    if ideal:
        for model in ("klein", "poincare", "halfspace"):
            seg.ideal_endpoint_coords(sp(model))


# ---------------------------------------------------------------------------

def wl_segments(run, rng, idx):
    H = lib()
    n = pick_dim(idx)
    d = DCLASS[(idx // 4) % len(DCLASS)]
    shape = SHAPES[(idx // 24) % len(SHAPES)]
    rmax = (0.9, 0.9, 0.999)[(idx // 96) % 3]
    kp = rh.rand_ball(rng, n, shape, rmax=rmax)
    P = rh.klein_to_proj(kp)
    kq = second_point(rng, P, d)
    Q = rh.klein_to_proj(kq)
    run.current_case = {"workload": "segments", "dimension": n, "distance": d,
                        "shape": list(shape), "P": P, "Q": Q}
    if idx % 2:
        seg = H.Segment(H.Point(P), H.Point(Q))
    else:
        seg = H.Segment(np.stack([P, Q], axis=-2))
    exercise_segment(run, seg)
    run.note_class("segment", n, d, shape, rmax)
    if idx < 3:
        run.sample({"workload": "segments", "dimension": n, "distance": d,
                    "P": P, "Q": Q})


def wl_origin(run, rng, idx):
    """chords through / near the origin: the straight-line limit."""
    H = lib()
    n = pick_dim(idx)
    foot = [0.0, 0.0, 1e-14, 1e-10, 1e-6, 1e-3, 1e-2][(idx // 4) % 7]
    shape = SHAPES[(idx // 28) % 2]
    u = rh.rand_sphere(rng, n, shape)
    w = rng.normal(size=shape + (n,))
    w = w - np.sum(w * u, axis=-1, keepdims=True) * u
    w = w / np.linalg.norm(w, axis=-1, keepdims=True)
    a = rng.uniform(-0.9, 0.9, size=shape + (1,))
    b = a + rng.choice([-1.0, 1.0], size=shape + (1,)) * rng.uniform(0.05, 0.9, size=shape + (1,))
    b = np.clip(b, -0.95, 0.95)
    kp = foot * w + a * u
    kq = foot * w + b * u
    P = rh.klein_to_proj(kp)
    Q = rh.klein_to_proj(kq)
    run.current_case = {"workload": "origin", "dimension": n, "foot": foot, "P": P, "Q": Q}
    seg = H.Segment(H.Point(P), H.Point(Q))
    exercise_segment(run, seg)
    if n == 2 and shape == ():
        # the geodesic through the origin as a Geodesic object
        e = rc.ideal_endpoints(kp, kq)
        g = H.Geodesic(H.IdealPoint(rh.klein_to_proj(e[0])), H.IdealPoint(rh.klein_to_proj(e[1])))
        for model in MODELS:
            if model == "halfspace" and np.min(rc.inf_distance(e)) < 0.05:
                continue
            g.circle_parameters(model=sp(model), degrees=False)
    run.note_class("origin", n, foot, shape)


def wl_ideal(run, rng, idx):
    """segments with one or two ideal endpoints, Geodesic objects."""
    H = lib()
    n = pick_dim(idx)
    variant = (idx // 4) % 4
    shape = SHAPES[(idx // 16) % len(SHAPES)]
    e1 = rh.rand_sphere(rng, n, shape)
    e2 = rh.rand_sphere(rng, n, shape)
    far = np.linalg.norm(e1 - e2, axis=-1, keepdims=True) < 0.05
    e2 = np.where(far, -e2, e2)
    kp = rh.rand_ball(rng, n, shape, rmax=0.9)
    run.current_case = {"workload": "ideal", "dimension": n, "variant": variant,
                        "e1": e1, "e2": e2, "kp": kp}
    if variant == 0:        # interior -> ideal
        seg = H.Segment(H.Point(rh.klein_to_proj(kp)), H.Point(rh.klein_to_proj(e1)))
        exercise_segment(run, seg)
    elif variant == 1:      # ideal -> interior, rescaled representatives
        lam = rng.uniform(0.2, 5, size=shape + (1,))
        seg = H.Segment(H.Point(rh.klein_to_proj(e1) * lam), H.Point(rh.klein_to_proj(kp)))
        exercise_segment(run, seg)
    elif variant == 2:      # both ideal, as a Segment
        seg = H.Segment(H.Point(rh.klein_to_proj(e1)), H.Point(rh.klein_to_proj(e2)))
        exercise_segment(run, seg)
        g = seg.geodesic()
        for model in MODELS:
            g.circle_parameters(model=sp(model), degrees=bool(idx % 2))
    else:                   # Geodesic objects
        if n == 2:
            t1 = rng.uniform(0, 2 * math.pi, size=shape)
            t2 = t1 + rng.uniform(0.1, 2 * math.pi - 0.1, size=shape)
            g = H.Geodesic(H.IdealPoint.from_angle(t1), H.IdealPoint.from_angle(t2))
        else:
            g = H.Geodesic(H.IdealPoint(rh.klein_to_proj(e1)), H.IdealPoint(rh.klein_to_proj(e2)))
        for model in MODELS:
            mon = run.monitor("units")
            cd, rd, td = g.circle_parameters(model=sp(model), degrees=True)
            cr, rr, tr = g.circle_parameters(model=sp(model), degrees=False)
            td, tr = np.asarray(td, float), np.asarray(tr, float)
            if np.all(np.isfinite(td)) and np.all(np.isfinite(tr)):
                mon.judge(float(np.max(np.abs(td - tr * 180 / math.pi))) if td.size else 0.0, 1e-9,
                          "units/degrees-not-radians-times-180-over-pi/Geodesic",
                          "Geodesic.circle_parameters(%s): degrees is not radians*180/pi" % model)
    run.note_class("ideal", n, variant, shape)


def wl_cone(run, rng, idx):
    """half-space: endpoints / ideal endpoints at distance ~delta from infinity."""
    H = lib()
    n = pick_dim(idx)
    delta = [0.3, 0.1, 0.03][(idx // 4) % 3]
    which = (idx // 12) % 3       # 0: ideal endpoint near inf, 1: endpoint near inf, 2: both far
    shape = SHAPES[(idx // 36) % 2]
    einf = np.zeros(n)
    einf[0] = 1.0
    # an ideal point at distance delta*(1..2) from infinity
    ang = rng.uniform(1.0, 2.0, size=shape + (1,)) * delta
    t = rh.rand_sphere(rng, n, shape)
    t = t - t[..., :1] * einf
    t = t / np.linalg.norm(t, axis=-1, keepdims=True)
    phi = 2 * np.arcsin(ang / 2)
    e_near = np.cos(phi) * einf + np.sin(phi) * t
    kq = rh.rand_ball(rng, n, shape, rmax=0.8)
    kq = np.where(rc.inf_distance(kq)[..., None] < 0.35, -kq, kq)
    if which == 0:
        # segment on the chord from kq towards e_near
        s1 = rng.uniform(0.0, 0.5, size=shape + (1,))
        s2 = rng.uniform(0.55, 0.9, size=shape + (1,))
        kp = kq + s2 * (e_near - kq)
        kq = kq + s1 * (e_near - kq)
    elif which == 1:
        kp = e_near * (1 - rng.uniform(0.02, 0.3, size=shape + (1,)) * delta)
    else:
        kp = rh.rand_ball(rng, n, shape, rmax=0.8)
        kp = np.where(rc.inf_distance(kp)[..., None] < 0.35, -kp, kp)
    P, Q = rh.klein_to_proj(kp), rh.klein_to_proj(kq)
    run.current_case = {"workload": "cone", "dimension": n, "delta": delta, "which": which,
                        "P": P, "Q": Q}
    seg = H.Segment(H.Point(P), H.Point(Q))
    units_check(run, seg, "halfspace", "Segment")
    seg.ideal_endpoint_coords("halfspace")
    if which == 0 and n == 2:
        e = rc.ideal_endpoints(kp, kq)
        g = H.Geodesic(H.IdealPoint(rh.klein_to_proj(e[..., 0, :])),
                       H.IdealPoint(rh.klein_to_proj(e[..., 1, :])))
        g.circle_parameters(model=sp("halfspace"), degrees=False)
    run.note_class("cone", n, delta, which, shape)


NULLS = {2: [(5, 3, 4), (5, 4, 3), (13, 5, 12), (1, 1, 0), (1, 0, -1), (17, -8, 15)],
         3: [(3, 1, 2, 2), (1, 1, 0, 0), (9, 4, 4, 7), (3, -2, 1, 2)],
         4: [(2, 1, 1, 1, 1), (1, 0, 0, 1, 0), (5, 1, 2, 2, 4)]}


def wl_representatives(run, rng, idx):
    """arbitrary non-zero rescalings of the homogeneous representatives, and
    the hostile class: representatives whose difference is lightlike."""
    H = lib()
    n = pick_dim(idx)
    mode = (idx // 4) % 4
    if mode in (0, 1):
        shape = SHAPES[(idx // 16) % len(SHAPES)]
        kp = rh.rand_ball(rng, n, shape, rmax=0.9)
        kq = second_point(rng, rh.klein_to_proj(kp), [0.1, 1.0, 3.0][idx % 3])
        lp = np.exp(rng.uniform(np.log(0.1), np.log(10), size=shape + (1,)))
        lq = np.exp(rng.uniform(np.log(0.1), np.log(10), size=shape + (1,)))
        if mode == 1:
            lp = lp * rng.choice([-1.0, 1.0], size=shape + (1,))
            lq = lq * rng.choice([-1.0, 1.0], size=shape + (1,))
        P, Q = rh.klein_to_proj(kp) * lp, rh.klein_to_proj(kq) * lq
        with np.errstate(all="ignore"):
            a_rel = np.abs(rh.mink_sq(P - Q)) / (np.sum(P * P, -1) + np.sum(Q * Q, -1))
        if np.any(a_rel < 1e-6):
            return run.monitor("ideal-endpoints").skip("random rescaling too close to a lightlike difference")
        run.current_case = {"workload": "representatives", "mode": mode, "P": P, "Q": Q}
        seg = H.Segment(H.Point(P), H.Point(Q))
        exercise_segment(run, seg)
        run.note_class("representatives", n, "rescaled" if mode == 0 else "rescaled-signed", shape)
        return
    # lightlike difference: integer vectors, exact in floating point
    for _ in range(200):
        N = np.array(NULLS[n][int(rng.integers(len(NULLS[n])))], dtype=float)
        P = np.concatenate([[float(rng.integers(4, 12))], rng.integers(-3, 4, size=n).astype(float)])
        Q = P - N
        if rh.mink_sq(P) < -0.5 and rh.mink_sq(Q) < -0.5 and Q[0] > 0 \
                and np.linalg.norm(P[1:] / P[0] - Q[1:] / Q[0]) > 1e-3:
            break
    else:
        return run.monitor("ideal-endpoints").skip("no integer pair found")
    eps = 0.0 if mode == 2 else [1e-3, 1e-5][idx % 2]
    Q = Q * (1.0 + eps)
    run.current_case = {"workload": "representatives", "mode": "lightlike-difference",
                        "relative_offset": eps, "P": P, "Q": Q}
    seg = H.Segment(H.Point(P), H.Point(Q))
    seg.ideal_endpoint_coords("klein")
    if eps > 0:
        exercise_segment(run, seg, ideal=False)
    run.note_class("representatives", n, "lightlike-difference", eps)
    if idx < 16:
        run.sample({"workload": "representatives/lightlike-difference", "P": P, "Q": Q})


def wl_horospheres(run, rng, idx):
    H = lib()
    n = pick_dim(idx)
    shape = SHAPES[(idx // 4) % len(SHAPES)]
    rmax = [0.5, 0.9, 0.999, 0.999999][(idx // 16) % 4]
    e = rh.rand_sphere(rng, n, shape)
    special = (idx // 64) % 3
    einf = np.zeros(n)
    einf[0] = 1.0
    if special == 1:
        e = np.broadcast_to(einf, shape + (n,)).copy()          # centre at infinity
    elif special == 2:
        e = -np.broadcast_to(einf, shape + (n,)).copy()         # centre at half-space 0
    kp = rh.rand_ball(rng, n, shape, rmax=rmax, rmin=0.3 * rmax)
    lam = rng.uniform(0.3, 3.0, size=shape + (1,)) * rng.choice([-1.0, 1.0], size=shape + (1,))
    P = rh.klein_to_proj(kp) * lam
    E = rh.klein_to_proj(e) * rng.uniform(0.3, 3.0, size=shape + (1,))
    run.current_case = {"workload": "horospheres", "dimension": n, "centre": E, "reference": P}
    if idx % 2:
        hs = H.Horosphere(H.IdealPoint(E), H.Point(P))
    else:
        hs = H.Horosphere(np.stack([E, P], axis=-2))
    hs.sphere_parameters("poincare")
    if special != 1:
        hs.sphere_parameters("halfspace")
    else:
        # centre exactly at infinity: horizontal plane; any non-finite / huge
        # radius is the limit marker, a finite one is wrong
        c, r = hs.sphere_parameters("halfspace")
        mon = run.monitor("horosphere")
        r = np.asarray(r, dtype=float)
        mon.require(bool(np.all(~np.isfinite(r) | (np.abs(r) > 1e12))),
                    "horosphere/finite-radius-for-centre-at-infinity/halfspace",
                    "horosphere centred at the half-space point at infinity has a finite radius")
    run.note_class("horospheres", n, shape, rmax, special)


def make_horoarc_data(rng, shape):
    """ideal centre e (Klein), reference point p1 (Klein), second endpoint p2
    on the same horocycle (built in the Poincare disk from the *reference*
    horocycle), away from the ideal centre."""
    e = rh.rand_sphere(rng, 2, shape)
    e = np.where(rc.inf_distance(e)[..., None] < 0.3, -e, e)
    k1 = rh.rand_ball(rng, 2, shape, rmax=0.85)
    k1 = np.where(rc.inf_distance(k1)[..., None] < 0.3, -k1, k1)
    c, rho = rc.horosphere_sphere(e, rh.klein_to_proj(k1), "poincare")
    a_e = np.arctan2(e[..., 1], e[..., 0])
    p1 = rc.poincare_of_proj(rh.klein_to_proj(k1))
    a_1 = np.arctan2(p1[..., 1] - c[..., 1], p1[..., 0] - c[..., 0])
    for _ in range(50):
        phi = a_e + rng.uniform(0.25, 2 * math.pi - 0.25, size=shape)
        p2 = c + rho[..., None] * np.stack([np.cos(phi), np.sin(phi)], axis=-1)
        k2 = rh.poincare_to_klein(p2)
        good = (np.abs(np.angle(np.exp(1j * (phi - a_1)))) > 0.1) & (rc.inf_distance(k2) > 0.25)
        if np.all(good):
            return e, k1, k2
    return None


def wl_horoarcs(run, rng, idx):
    H = lib()
    mon = run.monitor("horoarc")
    kind = idx % 3          # 0 unit, 1 composite of one, 2 composite of several
    shape = [(), (1,), (int(rng.integers(2, 9)),)][kind]
    if kind == 2 and (idx // 3) % 4 == 3:
        shape = (2, 3)
    data = make_horoarc_data(rng, shape)
    if data is None:
        return mon.skip("no general-position horoarc found")
    e, k1, k2 = data
    E, P1, P2 = rh.klein_to_proj(e), rh.klein_to_proj(k1), rh.klein_to_proj(k2)
    case = {"workload": "horoarcs", "shape": list(shape), "centre": E, "p1": P1, "p2": P2}
    run.current_case = case
    if idx % 2:
        ha = H.HorosphereArc(H.IdealPoint(E), H.Point(P1), H.Point(P2))
    else:
        ha = H.HorosphereArc(np.stack([E, P1, P2], axis=-2))
    results = {}
    for model in MODELS:
        for degrees in (True, False):
            try:
                results[(model, degrees)] = ha.circle_parameters(model=sp(model), degrees=degrees)
            except Exception as ex:
                cls = "unit" if shape == () else "composite"
                mon.fail("horoarc/exception:%s/%s" % (type(ex).__name__, cls),
                         "HorosphereArc.circle_parameters(model=%s) raised %s: %s for a %s "
                         "horospherical arc" % (model, type(ex).__name__, str(ex)[:120], cls),
                         case, tb=traceback.format_exc())
        if (model, True) in results and (model, False) in results:
            td = np.asarray(results[(model, True)][2], float)
            tr = np.asarray(results[(model, False)][2], float)
            run.monitor("units").judge(
                float(np.max(np.abs(td - tr * 180 / math.pi))), 1e-9,
                "units/degrees-not-radians-times-180-over-pi/HorosphereArc",
                "HorosphereArc.circle_parameters(%s): degrees is not radians*180/pi" % model)
    # a unit of the composite must give what the composite gives there
    if shape not in ((), (1,)) and len(shape) == 1 and ("poincare", False) in results:
        cc, rr, tt = results[("poincare", False)]
        i = int(rng.integers(shape[0]))
        try:
            cu, ru, tu = ha[i].circle_parameters(model=sp("poincare"), degrees=False)
            dev = float(np.max(np.abs(np.exp(1j * np.asarray(tu)) - np.exp(1j * np.asarray(tt)[i]))))
            dev = max(dev, float(np.max(np.abs(np.asarray(cu) - np.asarray(cc)[i]))))
            mon.judge(dev, 1e-9, "horoarc/unit-differs-from-composite",
                      "circle parameters of unit %d differ from the composite's entry" % i, case)
        except Exception as ex:
            mon.fail("horoarc/exception:%s/unit" % type(ex).__name__,
                     "HorosphereArc[i].circle_parameters raised %s: %s for a unit "
                     "horospherical arc" % (type(ex).__name__, str(ex)[:120]), case,
                     tb=traceback.format_exc())
    run.note_class("horoarcs", shape if len(shape) < 2 else "2d", kind)
    if idx < 2:
        run.sample(case)


def symmetric_basis(rng, n, k):
    """k unit vectors making equal angles with an axis and forming a regular
    (k-1)-simplex around it: their mean is the foot of the origin."""
    Qm = rh.rand_orth(rng, n)
    axis = Qm[0]
    # regular simplex with k vertices in the span of Qm[1:k]
    V = np.eye(k) - 1.0 / k
    Uo, s, _ = np.linalg.svd(V)
    simplex = Uo[:, :k - 1] * s[:k - 1]
    simplex = simplex / np.linalg.norm(simplex, axis=-1, keepdims=True)
    alpha = rng.uniform(0.3, 1.4)
    return math.cos(alpha) * axis + math.sin(alpha) * (simplex @ Qm[1:k])


def wl_subspaces(run, rng, idx):
    H = lib()
    n = (2, 3, 4, 3, 4, 4)[idx % 6]
    k = (2, 2, 2, 3, 3, 4)[idx % 6]
    cls = ["generic", "generic", "symmetric", "through-origin", "hyperplane-normal"][(idx // 6) % 5]
    shape = SHAPES[(idx // 30) % len(SHAPES)]
    base._ctx.pop("extra_ideal", None)
    if cls == "hyperplane-normal":
        # spacelike normals; composite normals carry a unit axis (k, 1, n+1)
        shape = shape if len(shape) <= 1 else (shape[0] * shape[1],)
        v = rh.rand_sphere(rng, n, shape)
        t = rng.uniform(-0.8, 0.8, size=shape + (1,))
        normal = np.concatenate([t, v], axis=-1)
        run.current_case = {"workload": "subspaces", "class": cls, "dimension": n, "normal": normal}
        arg = normal if shape == () else normal[..., None, :]
        hp = H.Hyperplane(arg)
        for model in MODELS:
            hp.sphere_parameters(sp(model))
        try:
            hp.boundary_sphere_parameters()
        except Exception:
            raise
        run.note_class("subspaces", cls, n, shape)
        return
    if cls == "generic":
        E = rh.rand_sphere(rng, n, shape + (k,))
    elif cls == "symmetric":
        E = np.empty(shape + (k, n))
        for ind in np.ndindex(*shape):
            E[ind] = symmetric_basis(rng, n, k)
    else:   # through the origin: k points of a (k-1)-dimensional linear subspace
        E = np.empty(shape + (k, n))
        for ind in np.ndindex(*shape):
            Qm = rh.rand_orth(rng, n)[:k - 1]
            co = rh.rand_sphere(rng, k - 1, (k,))
            if k == 2:
                co = np.array([[1.0], [-1.0]])
            E[ind] = co @ Qm
    B = rh.klein_to_proj(E) * rng.uniform(0.5, 2.0, size=shape + (k, 1))
    run.current_case = {"workload": "subspaces", "class": cls, "dimension": n,
                        "ideal_basis": B}
    S = H.Subspace(B)
    if shape == () and cls != "through-origin":
        with np.errstate(all="ignore"):
            if rc.affine_independence(E) > 1e-2:
                base._ctx["extra_ideal"] = rc.more_ideal_points(E, rng, 4)
    try:
        for model in MODELS:
            if model == "halfspace" and base._ctx.get("extra_ideal") is not None:
                if np.min(rc.inf_distance(base._ctx["extra_ideal"])) < 0.1:
                    base._ctx.pop("extra_ideal")
            S.sphere_parameters(sp(model))
        if k == n:
            S.boundary_sphere_parameters()
    finally:
        base._ctx.pop("extra_ideal", None)
    run.note_class("subspaces", cls, n, k, shape)
    if idx < 8 and k >= 3:
        run.sample({"workload": "subspaces", "class": cls, "dimension": n, "ideal_basis": B})


HP_CLASSES = ["integer-normal", "rescaled-dual-row", "scaled-isometry-image",
              "integer-normal", "rescaled-all-rows", "scaled-isometry-image", "float32-normal"]


def ideal_points_of_normal(rng, v, m):
    """m ideal points (Klein unit vectors) of the hyperplane <v, x> = 0 for a
    spacelike v = (v0, vs): e = (v0/|vs|^2) vs + sqrt(1 - v0^2/|vs|^2) w with w a
    unit vector orthogonal to vs -- straight from the normal, independent of any
    ideal basis."""
    v = np.asarray(v, dtype=float)
    v0, vs = v[0], v[1:]
    n = len(vs)
    q = float(vs @ vs)
    out = []
    for _ in range(m):
        w = rng.normal(size=n)
        w = w - (w @ vs) / q * vs
        w = w / np.linalg.norm(w)
        out.append(v0 / q * vs + math.sqrt(max(0.0, 1.0 - v0 * v0 / q)) * w)
    return np.array(out)


def wl_hyperplanes(run, rng, idx):
    """Hyperplane objects by *representation class*: the same hyperplane can be
    stored with any non-zero multiple of its spacelike (dual) row and of each
    ideal row -- integer normals (not normalised in place like float buffers),
    explicit (n+1)x(n+1) data with rescaled rows, images under Isometry(lambda*M)
    (the same isometry for every lambda != 0, but the dual row is rescaled with
    it), float32 normals.  The sphere reported in both models must contain the
    hyperplane's ideal points: its own ideal basis (postcondition, also attached
    to subclass overrides) and further ideal points computed from the normal the
    case started from.  Seeded change C14-r5-1: a closed-form
    Hyperplane.sphere_parameters valid for a Minkowski-unit dual row only."""
    H = lib()
    n = (2, 3, 4)[idx % 3]
    cls = HP_CLASSES[(idx // 3) % len(HP_CLASSES)]
    shape = [(), (), (4,), (2, 2)][(idx // 21) % 4]
    through_origin = (idx // 7) % 8 == 5 and cls == "integer-normal"
    base._ctx.pop("extra_ideal", None)

    def normals(shp, integer):
        out = np.empty(shp + (n + 1,))
        for ind in np.ndindex(*shp):
            for _ in range(500):
                if integer:
                    v = rng.integers(-4, 5, size=n + 1).astype(float)
                    if through_origin:
                        v[0] = 0.0
                else:
                    u = rh.rand_sphere(rng, n)
                    v = np.concatenate([[rng.uniform(-0.8, 0.8)], u]) * rng.uniform(0.3, 3.0)
                q = float(v[1:] @ v[1:])
                # clearly spacelike, and the hyperplane's ideal boundary away from
                # the half-space point at infinity e_1 (<v, (1, e_1)> = v_1 - v_0)
                if q > 0 and q - v[0] ** 2 >= 0.2 * q and abs(v[1] - v[0]) >= 0.25 * math.sqrt(q):
                    break
            else:
                v = np.array([0.0 if integer and through_origin else 1.0, 2.0] + [1.0] * (n - 1))
            out[ind] = v
        return out

    integer = cls == "integer-normal"
    V = normals(shape, integer)
    M = np.eye(n + 1)
    lam = 1.0
    arg = V if shape == () else V[..., None, :]
    case = {"workload": "hyperplanes", "class": cls, "dimension": n, "shape": list(shape),
            "normal": V}
    run.current_case = case
    if cls == "integer-normal":
        hp = H.Hyperplane(arg.astype(np.int64))
    elif cls == "float32-normal":
        hp = H.Hyperplane(arg.astype(np.float32))
    elif cls in ("rescaled-dual-row", "rescaled-all-rows"):
        data = np.array(H.Hyperplane(arg.copy()).proj_data, dtype=float)
        scale = np.exp(rng.uniform(math.log(0.1), math.log(10.0), size=shape)) * \
            rng.choice([-1.0, 1.0], size=shape)
        data[..., 0, :] *= np.asarray(scale)[..., None]
        if cls == "rescaled-all-rows":
            rows = np.exp(rng.uniform(math.log(0.2), math.log(5.0), size=shape + (n,))) * \
                rng.choice([-1.0, 1.0], size=shape + (n,))
            data[..., 1:, :] *= rows[..., None]
        case["dual_row_scale"] = scale
        hp = H.Hyperplane(data)
        if idx % 2 and shape != ():
            hp = H.Hyperplane([H.Hyperplane(dd) for dd in data.reshape((-1,) + data.shape[-2:])])
    else:
        M = rh.rand_isometry(rng, n, tmax=0.8)
        lam = float(rng.choice([3.0, -3.0, 0.4, -0.25, 7.5, -1.5]))
        case["isometry_matrix"] = M
        case["matrix_scale"] = lam
        hp = H.Isometry(lam * M, column_vectors=True) @ H.Hyperplane(arg.copy())
    if shape == ():
        # further ideal points of the hyperplane, from the normal (moved by M)
        E = ideal_points_of_normal(rng, V, 4)
        X = rh.klein_to_proj(E) @ M.T
        E = X[..., 1:] / X[..., :1]
        if float(V[0]) != 0.0 or cls != "integer-normal":
            base._ctx["extra_ideal"] = E
    try:
        for model in MODELS:
            if model == "halfspace" and base._ctx.get("extra_ideal") is not None:
                if np.min(rc.inf_distance(base._ctx["extra_ideal"])) < 0.1:
                    base._ctx.pop("extra_ideal")
            hp.sphere_parameters(sp(model))
        base._ctx.pop("extra_ideal", None)
        hp.boundary_sphere_parameters()
    finally:
        base._ctx.pop("extra_ideal", None)
    run.note_class("hyperplanes", cls, n, shape, "through-origin" if through_origin else "generic")
    if idx < 3:
        run.sample(case)


def wl_arc_utils(run, rng, idx):
    from geometry_tools import utils
    shape = [(), (1,), (7,), (2, 3)][idx % 4]
    th = rng.uniform(-2 * math.pi, 2 * math.pi, size=shape + (2,))
    if idx % 5 == 0:      # nearly opposite angles (short_arc threshold)
        th[..., 1] = th[..., 0] + math.pi + rng.choice([-1, 1], size=shape) * 10.0 ** rng.uniform(-6, -1, size=shape)
    th = np.clip(th, -2 * math.pi + 1e-9, 2 * math.pi - 1e-9)
    ref = rng.uniform(-2 * math.pi + 1e-6, 2 * math.pi - 1e-6, size=shape)
    run.current_case = {"workload": "arc-utils", "thetas": th, "reference": ref}
    utils.short_arc(th.copy())
    utils.right_to_left(th.copy())
    # arc_include is fed what circle_angles produces: angles in [-pi, pi]
    tha = np.angle(np.exp(1j * th))
    refa = np.angle(np.exp(1j * ref))
    try:
        utils.arc_include(tha.copy(), np.asarray(refa) if shape else float(refa))
    except TypeError:
        pass        # judged by the postcondition hook (arc-utils/arc_include/exception)
    d = int(rng.integers(2, 5))
    pts = rng.normal(size=shape + (d,))
    utils.sphere_inversion(pts)
    sp = rng.normal(size=shape + (d + 1, d))
    utils.sphere_through(sp)
    cen = rng.normal(size=shape + (2,))
    co = rng.normal(size=shape + (3, 2))
    utils.circle_angles(cen, co)
    run.note_class("arc-utils", shape)


# ---------------------------------------------------------------------------
# histories: the property is claimed of *every* segment / geodesic / horosphere
# object that is alive, not only of freshly built ones

RELATIVES = ["original", "flatten_to_unit", "reshape", "construct", "astype", "getitem"]
KEYKINDS = ["index", "slice", "mask", "negative-index"]


def wl_histories(run, rng, idx):
    """A composite object, objects derived from it (flatten_to_unit(), reshape(),
    Class(obj), astype(), obj[:]) -- all kept alive --, then item assignments
    into one of them (integer / tuple / slice / row / boolean-mask keys, the new
    value given as an object or as a raw array), with *every* live object queried
    before the first and after each assignment.  The attached postconditions
    judge each answer against the data the answering object holds at that
    moment: its ideal endpoints must be on the Klein line through *its*
    endpoints, its circle must pass through *its* endpoints, whatever happened
    to its relatives (coherence of the stored data itself is C11's subject).
    Seeded change C14-r4-1: __setitem__ writing the new ideal endpoints in place
    into an auxiliary array that flatten_to_unit / reshape / Class(obj) share
    with the object they were derived from; the same history exposes answers
    memoised per object and not invalidated by an assignment."""
    H = lib()
    n = pick_dim(idx)
    kind = ["segment", "segment", "geodesic", "horosphere"][(idx // 4) % 4]
    shape = [(5,), (2, 3), (6,)][(idx // 16) % 3]
    N = int(np.prod(shape))
    einf = np.zeros(n)
    einf[0] = 1.0

    def away(k, margin=0.35):
        return np.where(rc.inf_distance(k)[..., None] < margin, -k, k)

    def make(shp):
        """(library object, description) of a composite of the given shape."""
        if kind == "segment":
            kp = away(rh.rand_ball(rng, n, shp, rmax=0.9))
            kq = away(rh.rand_ball(rng, n, shp, rmax=0.9))
            close = np.linalg.norm(kp - kq, axis=-1, keepdims=True) < 0.05
            kq = np.where(close, -kq, kq)
            lam = rng.uniform(0.5, 2.0, size=shp + (1,))
            data = np.stack([rh.klein_to_proj(kp) * lam, rh.klein_to_proj(kq)], axis=-2)
            return H.Segment(data), data
        if kind == "geodesic":
            e1 = away(rh.rand_sphere(rng, n, shp))
            e2 = away(rh.rand_sphere(rng, n, shp))
            e2 = np.where(np.linalg.norm(e1 - e2, axis=-1, keepdims=True) < 0.3, -e2, e2)
            e2 = np.where(rc.inf_distance(e2)[..., None] < 0.3, -e1, e2)
            data = np.stack([rh.klein_to_proj(e1), rh.klein_to_proj(e2)], axis=-2)
            return H.Geodesic(H.IdealPoint(data[..., 0, :]), H.IdealPoint(data[..., 1, :])), data
        e = away(rh.rand_sphere(rng, n, shp))
        kp = away(rh.rand_ball(rng, n, shp, rmax=0.9, rmin=0.2))
        data = np.stack([rh.klein_to_proj(e) * rng.uniform(0.5, 2.0, size=shp + (1,)),
                         rh.klein_to_proj(kp)], axis=-2)
        return H.Horosphere(H.IdealPoint(data[..., 0, :]), H.Point(data[..., 1, :])), data

    def query(o, rnd):
        if kind == "segment":
            for model in MODELS:
                o.circle_parameters(model=sp(model), degrees=bool((idx + rnd) % 2))
            o.ideal_endpoint_coords(sp("klein"))
            o.ideal_endpoint_coords(sp(MODELS[(idx + rnd) % 2]))
        elif kind == "geodesic":
            for model in MODELS:
                o.circle_parameters(model=sp(model), degrees=bool((idx + rnd) % 2))
        else:
            for model in MODELS:
                o.sphere_parameters(sp(model))

    obj, data = make(shape)
    new_shape = {(5,): (5, 1), (2, 3): (3, 2), (6,): (2, 3)}[shape]
    live = {"original": obj,
            "flatten_to_unit": obj.flatten_to_unit(),
            "reshape": obj.reshape(new_shape),
            "construct": type(obj)(obj),
            "astype": obj.astype("float64"),
            "getitem": obj[:]}
    case = {"workload": "histories", "kind": kind, "dimension": n, "shape": list(shape),
            "data": data, "history": ["derive " + ", ".join(RELATIVES[1:])]}
    run.current_case = case
    for name, o in live.items():
        case["querying"] = name + " (before any assignment)"
        query(o, 0)
    for rnd in (1, 2):
        tname = RELATIVES[(idx + (rnd - 1) * (1 + idx // 6)) % len(RELATIVES)]
        target = live[tname]
        tshape = tuple(target.shape)
        keykind = KEYKINDS[(idx // 3 + rnd) % len(KEYKINDS)]
        if keykind in ("index", "negative-index"):
            key = tuple(int(rng.integers(m)) for m in tshape)
            if keykind == "negative-index":
                key = tuple(k - m for k, m in zip(key, tshape))
            key = key[0] if len(key) == 1 else key
            vshape = ()
        elif keykind == "slice":
            if len(tshape) == 1:
                a = int(rng.integers(0, tshape[0] - 1))
                b = int(rng.integers(a + 1, tshape[0] + 1))
                key = slice(a, b)
                vshape = (b - a,)
            else:
                key = int(rng.integers(tshape[0]))      # a whole row
                vshape = tshape[1:]
        else:
            mask = rng.random(tshape) < 0.4
            mask.flat[int(rng.integers(mask.size))] = True
            key = mask
            vshape = (int(np.sum(mask)),)
        value, vdata = make(vshape)
        as_array = kind == "segment" and (idx + rnd) % 2 == 1
        case["history"].append("%s[%s key %r] = %s of shape %r" % (
            tname, keykind, key.tolist() if isinstance(key, np.ndarray) else key,
            "array" if as_array else type(value).__name__, vshape))
        case["assigned_%d" % rnd] = vdata
        target[key] = vdata if as_array else value
        for name, o in live.items():
            case["querying"] = "%s (after assignment %d, into %s)" % (name, rnd, tname)
            query(o, rnd)
        run.note_class("history", kind, n, shape, tname, keykind, "array" if as_array else "object")
    if idx < 2:
        run.sample({k: v for k, v in case.items()})


WORKLOADS = [
    Workload("segments", wl_segments, quick=300, thorough=12000),
    Workload("origin", wl_origin, quick=112, thorough=3200),
    Workload("ideal", wl_ideal, quick=128, thorough=4000),
    Workload("cone", wl_cone, quick=144, thorough=4000),
    Workload("representatives", wl_representatives, quick=128, thorough=4000),
    Workload("horospheres", wl_horospheres, quick=192, thorough=6000),
    Workload("horoarcs", wl_horoarcs, quick=96, thorough=3000),
    Workload("subspaces", wl_subspaces, quick=240, thorough=7200),
    Workload("arc-utils", wl_arc_utils, quick=80, thorough=2400),
    Workload("histories", wl_histories, quick=48, thorough=1440),
    Workload("hyperplanes", wl_hyperplanes, quick=84, thorough=2520),
]


def _per_case_spelling(fn):
    """the spelling rotation restarts from the case index, so that a case
    replayed on its own names the models exactly as it did in the run."""
    def wrapped(run, rng, idx):
        _spell["n"] = idx
        return fn(run, rng, idx)
    wrapped.__name__ = fn.__name__
    return wrapped


for _w in WORKLOADS:
    _w.fn = _per_case_spelling(_w.fn)
