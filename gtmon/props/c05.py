"""C05 -- representations are word homomorphisms; derived representations
commute with evaluation; the Fox-calculus formula.

Monitors
  history-law   (H) wrappers on Representation._word_value / _set_generator log
                (rep serial, epoch, word, matrix); every _set_generator bumps the
                epoch.  The offline checker takes every triple (u, v, uv) present
                in one epoch's log and checks rho(uv) = rho(u) rho(v), plus
                rho(()) = I, rho(g) rho(G) = I, rho(w) = rho(reduce(w)) and
                "same word, same value".  Library values only (a law check).
  word-value    (W) rep[w] / element / elements against the plain left-to-right
                product of gtmon.ref.words (exact Python integers for the
                unimodular class).
  names         (W) multi-character generator names through every documented
                route (a*b strings on parse_simple=False representations, lists
                of names on simple ones, explicit parse_simple=False), the empty
                word, grouping parentheses; names with non-alphanumeric characters
                other than the reserved * ( ) (x', t.1, g-2; 'x' next to "x'");
                the same syntax on representations derived from such a one;
                several words in one elements() call, long words listed before
                the short ones.
  naming        (H/W) representations created with their own inverse-naming map
                (invert_gen=, 'x' <-> 'xinv'), objects derived from them (copy,
                wrapping, conjugate, dual, compose, adjoint, ...) to two levels,
                generators re-assigned on the derived objects: words with
                inverse letters by that map against a dict model; the history
                checker applies inverse-letter / free-reduction with the map.
  reassign      (H/W) histories of assigning / re-assigning generators (lower or
                upper name first, explicit inverses, copies and derived
                representations in between) against a dict model; no cross-talk
                between a representation and its copies / derived ones.
  derived       (W) copy, conjugate, dual, compose(hom), tensor, gln_adjoint,
                subgroup, astype, change_base_ring: sigma(w) = F(rho(w)) entrywise;
                sln_adjoint and symmetric_square basis-free (dimension, character,
                and the product law through history-law).  On 2x2 generators also
                compose with lie.hom.sl2_irrep(1..6) (reference: polynomial
                multiplication), sl2_to_so21 / sl2c_to_so31 (basis-free: form,
                character, identity component).  Workload special-values: all of
                it on generators of exact special values (a zero in each
                position, +-1, equal entries, monomial matrices; int / float /
                complex dtype).
  chains        (W) two derivations in a row over {real, complex, int} bases:
                first level = each value-kind derivation (field-changing ones
                among them: conjugate / compose with complex values, astype,
                realify), second level = every derivation again, judged by
                values computed letter by letter (sln_adjoint /
                symmetric_square by character).
  wrapping      (W) Projective/HyperbolicRepresentation: transformation of
                rho(w) acting on column vectors (matrix up to scalar + action on
                a point), generators given as Transformation / Isometry objects.
  fox           (W) rho(w) - I = sum_g D_g(w)(rho(g) - I) with the library's
                differential, block values against the reference Fox derivative,
                cocycle_matrix @ coboundary_matrix = 0 for representations that
                satisfy their relations by construction.
"""
import itertools
import weakref
import traceback

import numpy as np

from ..run import Workload
from .. import attach
from ..ref import words as rw
from ..ref import lie_ref as lr
from ..ref import hyp as rh

ID = "C05"
RULE = ("cases = (generator class in {real, complex, exact-integer unimodular, "
        "stressed cond<=1e4, orthogonal, exact special values (14 2x2 zero / unit / "
        "equal-entry patterns, monomial matrices) x {int, float, complex}}, dimension 1..5, 1..4 generators, naming "
        "scheme, evaluation route in {rep[w], element, elements, list word}, word "
        "family: ALL words to length 4..8 (dense) or random words to length 40 "
        "with planted cancellations) x derived construction; inverse-naming map in "
        "{case swap, suffix, prime, sign, letter pairs, upper tail} x derivation chain "
        "x re-assignment; non-trivial = the word "
        "has >= 2 letters or the check concerns the empty word / an inverse letter; "
        "distinct = distinct (workload, class, dimension, #generators, route / "
        "derived kind / history op-kinds, length bucket) signatures")
ASSUMPTIONS = [
    "generators have bounded condition number (<= 50 bulk, <= 1e4 stressed); residuals "
    "are relative to the product of the letters' 2-norms",
    "exact-integer class: |entries| <= 3, word length <= 10, so int64 products cannot overflow",
    "a list of names given to a parse_simple=False representation is out of domain "
    "(documented syntax there is 'a*b')",
    "Fox calculus is judged for one-character generator names only (utils.words works "
    "on strings of one-character letters); multi-character names are a diagnostic there",
    "set_generator(..., compute_inverse=False) is judged only when the caller also "
    "stores the inverse under the case-swapped name before evaluating words",
    "sln_adjoint and symmetric_square are judged basis-free (dimension, character, "
    "product law), the basis not being part of the property",
    "the homomorphism handed to compose() is an input of the program: its value at "
    "the reference image is the expected value",
    "generator names are those the library accepts on assignment (one ASCII letter at "
    "least, a single case, none of the reserved characters * ( )); names containing "
    "whitespace are not driven",
    "the inverse-naming map handed to the constructor (invert_gen=) is an input of the "
    "program (an involution on names); copies, wrappings and everything built through "
    "compose keep the generator names, hence the same pairs (g, g^-1); subgroup / tensor "
    "product create a NEW representation paired by the default case swap and are judged "
    "under that convention only",
]
ANCHORS = [("geometry_tools/representation.py", q) for q in (
    "Representation.parse_word", "Representation.element", "Representation.__init__",
    "Representation.elements", "Representation._word_value",
    "Representation._set_generator", "Representation.set_generator",
    "Representation.dual", "Representation.astype", "Representation.conjugate",
    "Representation._conjugate", "Representation._compose", "Representation.compose",
    "Representation._differential", "Representation.subgroup",
    "Representation.cocycle_matrix", "Representation.coboundary_matrix",
    "Representation.gln_adjoint", "Representation.sln_adjoint",
    "Representation.tensor_product", "Representation.symmetric_square",
    "sym_index", "symmetric_inclusion", "symmetric_projection")] + [
    ("geometry_tools/utils/words.py", q) for q in (
        "invert_gen", "formal_inverse", "simplify_word", "fox_word_derivative",
        "act_left", "zmod_sum")] + [
    ("geometry_tools/projective.py", "ProjectiveRepresentation.wrap_func"),
    ("geometry_tools/projective.py", "ProjectiveRepresentation.unwrap_func"),
    ("geometry_tools/projective.py", "ProjectiveRepresentation.array_wrap_func"),
    ("geometry_tools/hyperbolic.py", "HyperbolicRepresentation.wrap_func"),
    ("geometry_tools/hyperbolic.py", "HyperbolicRepresentation.array_wrap_func"),
    ("geometry_tools/lie/hom.py", "_wrap_hom"),
    ("geometry_tools/lie/core.py", "gln_adjoint"),
    ("geometry_tools/lie/core.py", "sln_adjoint"),
]
REQUIRED = [
    ("geometry_tools/representation.py", "Representation._word_value",
     "matrix = matrix @ self.generators[gen]"),
    ("geometry_tools/representation.py", "Representation._set_generator",
     "self.generators[self.invert_gen(generator)] = utils.invert(matrix)"),
    ("geometry_tools/representation.py", "Representation.parse_word", "re.split("),
    ("geometry_tools/representation.py", "Representation._compose",
     "composed = hom(image)"),
    ("geometry_tools/representation.py", "Representation._compose",
     "generator_iterator = self.asym_gens()"),
    ("geometry_tools/representation.py", "Representation.subgroup",
     "                subrep._set_generator("),
    ("geometry_tools/representation.py", "Representation._differential",
     "return utils.zeros((self.dim, self.dim)"),
    ("geometry_tools/representation.py", "Representation.tensor_product",
     "tens = np.tensordot("),
    ("geometry_tools/utils/words.py", "fox_word_derivative",
     "return defaultdict(int, {word:-1})"),
    ("geometry_tools/utils/words.py", "simplify_word", "simp = simp[:-1]"),
]

TOL = 1e-9            # float64 / complex128 classes (pinned-tree residuals <= 1e-13)
TOL_STRESSED = 1e-8


# ---------------------------------------------------------------------------
# history monitor (H)

_reps = weakref.WeakKeyDictionary()     # rep -> {"serial", "epoch", "norms"}
_labels = weakref.WeakKeyDictionary()   # rep -> input-class label given by the workload
_namings = weakref.WeakKeyDictionary()  # rep -> inverse-naming map given by the workload
_naming_by_serial = {}                  # serial -> the same map, for the offline checker
_serial = itertools.count(1)
_log = []                               # (serial, epoch, tokens, matrix, scale, cls)
_stats = {"word_values": 0, "set_generator": 0, "epochs_checked": 0,
          "triples": 0}


def _state(rep):
    st = _reps.get(rep)
    if st is None:
        st = _reps[rep] = {"serial": next(_serial), "epoch": 0, "norms": None}
    return st


def _numeric(M):
    return lr.as_numeric(np.asarray(M))


def tag(rep, *label):
    """the workload names the input class of a representation (construction
    route / generator class); the history checker puts it in its keys."""
    try:
        _labels[rep] = "/".join(str(x) for x in label)
    except TypeError:
        pass
    return rep


def tag_naming(rep, inv):
    """the workload created `rep` with (or derived it from a representation
    with) the inverse-naming map `inv` (an input of the program, e.g.
    'x' <-> 'xinv'): the history checker uses it for the inverse-letter and
    free-reduction laws instead of the default case swap."""
    try:
        _namings[rep] = inv
    except TypeError:
        pass
    return rep


def _hook_set_generator(call):
    if call.exc is not None or not call.args:
        return
    st = _state(call.args[0])
    st["epoch"] += 1
    st["norms"] = None
    _stats["set_generator"] += 1


def _hook_word_value(call):
    if call.exc is not None or not call.args:
        return
    rep = call.args[0]
    st = _state(rep)
    b = call.bound()
    word = b.get("word")
    ps = b.get("parse_simple")
    simple = rep.parse_simple if ps is None else ps
    if isinstance(word, str):
        tokens = rw.tokenize(word, bool(simple))
    elif isinstance(word, (list, tuple)) and simple:
        tokens = tuple(word)
    else:
        return
    if st["norms"] is None:
        norms = {}
        for g, M in rep.generators.items():
            a = _numeric(M)
            norms[g] = float(np.linalg.norm(a, 2)) if a.size else 1.0
        st["norms"] = norms
    sc = 1.0
    for t in tokens:
        sc *= max(st["norms"].get(t, 1.0), 1.0)
    _stats["word_values"] += 1
    inv = _namings.get(rep)
    if inv is not None:
        _naming_by_serial[st["serial"]] = inv
    _log.append((st["serial"], st["epoch"], tokens,
                 np.array(call.result, copy=True), sc,
                 "%s:%s" % (type(rep).__name__, _labels.get(rep, "unlabelled"))))


def _tol_for(*mats):
    """tolerance by working precision: 1e-9 for double precision, 1e4 eps for
    single precision results (astype(float32) representations)."""
    tol = TOL
    for M in mats:
        dt = np.asarray(M).dtype
        if dt.kind in "fc":
            tol = max(tol, 1e4 * float(np.finfo(dt).eps))
    return tol


def _all_int(*mats):
    return all(np.asarray(M).dtype.kind in "iu" for M in mats)


def flush_history(run, stressed=False):
    """offline checker over the log accumulated since the last flush."""
    mon = run.monitor("history-law")
    entries = list(_log)
    del _log[:]
    namings = dict(_naming_by_serial)
    _naming_by_serial.clear()
    groups = {}
    for serial, epoch, tokens, M, sc, cls in entries:
        groups.setdefault((serial, epoch), []).append((tokens, M, sc, cls))
    base_tol = TOL_STRESSED if stressed else TOL
    for (serial, epoch), items in groups.items():
        _stats["epochs_checked"] += 1
        table = {}
        scales = {}
        cls = items[0][3]
        # inverse-naming convention of this representation: the default case
        # swap unless the workload registered another map (seeded change
        # C05-r4-1: derived representations losing a custom invert_gen)
        inv = namings.get(serial)
        for tokens, M, sc, _c in items:
            if tokens in table:
                A, B = _numeric(table[tokens]), _numeric(M)
                if A.shape == B.shape and A.size:
                    r = float(np.max(np.abs(A - B))) / sc
                else:
                    r = 0.0 if A.shape == B.shape else float("inf")
                mon.judge(r, max(base_tol, _tol_for(A, B)),
                          "history/same-word-two-values@%s" % cls.split(":", 1)[1],
                          "the same word evaluated twice in one epoch gave two values",
                          {"rep": cls, "serial": serial, "epoch": epoch,
                           "word": list(tokens), "first": table[tokens], "second": M,
                           "workload_case": run.current_case})
                continue
            table[tokens] = M
            scales[tokens] = sc

        def judge(kind, lhs, rhs, sc, what, wit, exact):
            L, R = _numeric(lhs), _numeric(rhs)
            if L.shape != R.shape:
                return mon.fail("history/%s/shape@%s" % (kind, cls.split(":", 1)[1]),
                                what + " (shapes differ)", wit)
            if exact:
                return mon.require(bool(np.array_equal(L, R)),
                                   "history/%s@%s" % (kind, cls.split(":", 1)[1]),
                                   what + " (integer dtype: exact comparison)", wit)
            r = float(np.max(np.abs(L - R))) / sc if L.size else 0.0
            return mon.judge(r, max(base_tol, _tol_for(L, R)),
                             "history/%s@%s" % (kind, cls.split(":", 1)[1]), what, wit)

        for tokens, M in table.items():
            m = len(tokens)
            n = np.asarray(M).shape[-1]
            wit0 = {"rep": cls, "serial": serial, "epoch": epoch,
                    "workload_case": run.current_case}
            if m == 0:
                I = np.eye(n)
                judge("empty-word", M, I, 1.0,
                      "the empty word is not mapped to the identity",
                      dict(wit0, value=M), False)
                continue
            # product law over the splits present in this epoch
            if m <= 10:
                splits = range(1, m)
            else:
                splits = sorted(set(int(x) for x in np.linspace(1, m - 1, 9)))
            for k in splits:
                u, v = tokens[:k], tokens[k:]
                if u in table and v in table:
                    _stats["triples"] += 1
                    Mu, Mv = table[u], table[v]
                    exact = _all_int(M, Mu, Mv)
                    judge("product-law", M, _numeric(Mu) @ _numeric(Mv)
                          if not exact else np.asarray(Mu) @ np.asarray(Mv),
                          scales[tokens],
                          "rho(uv) != rho(u) rho(v)",
                          dict(wit0, u=list(u), v=list(v), rho_u=Mu, rho_v=Mv,
                               rho_uv=M), exact)
            # inverse letter
            if m == 1:
                G = ((inv or rw.inv_name)(tokens[0]),)
                if G in table and (rw.is_lower(tokens[0]) if inv is None
                                   else tokens[0] <= G[0]):
                    MG = table[G]
                    judge("inverse-letter", _numeric(M) @ _numeric(MG), np.eye(n),
                          scales[tokens] * scales[G],
                          "rho(g) rho(G) != I: the inverse letter is not mapped to the inverse matrix",
                          dict(wit0, g=tokens[0], rho_g=M, rho_G=MG), False)
            # free reduction
            red = rw.free_reduce(tokens, inv)
            if red != tokens and red in table:
                judge("free-reduction", M, table[red], scales[tokens],
                      "rho(w) != rho(reduce(w))",
                      dict(wit0, word=list(tokens), reduced=list(red),
                           rho_w=M, rho_reduced=table[red]), False)


def setup(run):
    from geometry_tools import representation
    R = representation.Representation
    attach.wrap_attr(run, R, "_word_value", _hook_word_value)
    attach.wrap_attr(run, R, "_set_generator", _hook_set_generator)
    run.monitor("history-law", min_events=300)
    run.monitor("word-value", min_events=300)
    run.monitor("names", min_events=20)
    run.monitor("naming", min_events=30)
    run.monitor("reassign", min_events=30)
    run.monitor("derived", min_events=100)
    run.monitor("chains", min_events=100)
    run.monitor("wrapping", min_events=20)
    run.monitor("fox", min_events=30)


def finalize(run):
    flush_history(run)
    run.extra["history"] = dict(_stats)


# ---------------------------------------------------------------------------
# building representations together with their reference tables

KINDS = ["real", "complex", "int", "stressed", "orthogonal"]


def gen_matrix(rng, n, kind):
    """-> (matrix given to the library, exact inverse or None)."""
    if kind == "real":
        return rw.rand_cond(rng, n, 50.0), None
    if kind == "complex":
        return rw.rand_cond(rng, n, 50.0, complex_=True), None
    if kind == "stressed":
        return rw.rand_cond(rng, n, 1e4), None
    if kind == "orthogonal":
        q, _ = np.linalg.qr(rng.normal(size=(n, n)))
        return q, None
    if kind == "int":
        return rw.rand_unimodular(rng, n)
    if kind in SPECIAL_KINDS:
        return special_matrix(rng, n, kind)
    raise ValueError(kind)


# ---------------------------------------------------------------------------
# exact special values.  Random matrices never have an entry that is EXACTLY
# 0, 1 or -1, two equal entries, a determinant that is exactly one ...: closed
# formulas for homomorphisms (binomial sums with powers of the entries, sign
# recoveries, divisions by an entry or by the determinant) have their branch
# points exactly there.  (Seeded change C05-r5-1: extra terms 0 * d**(negative
# exponent) in lie.sl2_irrep, NaN as soon as the lower-right entry of a
# generator or of its stored inverse is exactly 0.)

SPECIAL_KINDS = ("special-float", "special-int", "special-complex")

# 2x2 patterns: (name, f(s, t, ti) -> rows) with ti = 1/t exactly; determinant
# exactly +1 except 'swap' / 'reflection' (-1)
SPECIAL_2X2 = [
    ("d=0", lambda s, t, ti: [[s, t], [-ti, 0]]),
    ("a=0", lambda s, t, ti: [[0, t], [-ti, s]]),
    ("a=d=0", lambda s, t, ti: [[0, t], [-ti, 0]]),
    ("b=0", lambda s, t, ti: [[t, 0], [s, ti]]),
    ("c=0", lambda s, t, ti: [[t, s], [0, ti]]),
    ("b=c=0", lambda s, t, ti: [[t, 0], [0, ti]]),
    ("identity", lambda s, t, ti: [[1, 0], [0, 1]]),
    ("minus-identity", lambda s, t, ti: [[-1, 0], [0, -1]]),
    ("order-6,d=0", lambda s, t, ti: [[1, -1], [1, 0]]),
    ("order-3,a=0", lambda s, t, ti: [[0, 1], [-1, -1]]),
    ("equal-entries", lambda s, t, ti: [[1, 1], [1, 2]]),
    ("equal-entries-2", lambda s, t, ti: [[2, 1], [1, 1]]),
    ("swap", lambda s, t, ti: [[0, 1], [1, 0]]),
    ("reflection", lambda s, t, ti: [[1, 0], [0, -1]]),
]
_SPECIAL_ST = {
    "special-int": ([-3, -2, -1, 0, 1, 2, 3], [(1, 1), (-1, -1)]),
    "special-float": ([-3.0, -1.5, -1.0, -0.5, 0.0, 0.5, 1.0, 2.0, 2.5],
                      [(1.0, 1.0), (-1.0, -1.0), (2.0, 0.5), (-0.5, -2.0), (4.0, 0.25)]),
    "special-complex": ([0, 1, -1, 1j, -2j, 1 + 1j, 0.5 - 1j, 2],
                        [(1, 1), (-1, -1), (1j, -1j), (-1j, 1j), (2j, -0.5j), (2, 0.5)]),
}
_SPECIAL_DTYPE = {"special-int": np.int64, "special-float": np.float64,
                  "special-complex": np.complex128}


def special_2x2(rng, kind, pattern=None):
    """-> (name, matrix, exact inverse): one of the SPECIAL_2X2 patterns with
    entries that are exact in the dtype (dyadic numbers, Gaussian dyadics)."""
    ss, ts = _SPECIAL_ST[kind]
    if pattern is None:
        pattern = int(rng.integers(0, len(SPECIAL_2X2)))
    name, f = SPECIAL_2X2[pattern % len(SPECIAL_2X2)]
    s_ = ss[int(rng.integers(0, len(ss)))]
    t, ti = ts[int(rng.integers(0, len(ts)))]
    (a, b), (c, d) = f(s_, t, ti)
    det = a * d - b * c                      # exactly +1 or -1
    dt = _SPECIAL_DTYPE[kind]
    M = np.array([[a, b], [c, d]], dtype=dt)
    Mi = np.array([[d * det, -b * det], [-c * det, a * det]], dtype=dt)
    return name, M, Mi


def special_matrix(rng, n, kind, pattern=None):
    """n x n matrix of exact special values and its exact inverse: for n = 2
    the SPECIAL_2X2 patterns; otherwise a monomial matrix (signed / scaled
    permutation, +-identity among them) times at most one elementary matrix."""
    dt = _SPECIAL_DTYPE[kind]
    if n == 2:
        _nm, M, Mi = special_2x2(rng, kind, pattern)
        return M, Mi
    ss, ts = _SPECIAL_ST[kind]
    r = rng.random()
    perm = np.arange(n) if r < 0.25 else rng.permutation(n)
    M = np.zeros((n, n), dtype=dt)
    Mi = np.zeros((n, n), dtype=dt)
    same = rng.random() < 0.3
    pick = ts[int(rng.integers(0, len(ts)))]
    for i in range(n):
        t, ti = pick if same else ts[int(rng.integers(0, len(ts)))]
        M[i, perm[i]] = t
        Mi[perm[i], i] = ti
    if n >= 2 and rng.random() < 0.5:
        i, j = (int(x) for x in rng.permutation(n)[:2])
        c = ss[int(rng.integers(0, len(ss)))]
        E = np.eye(n, dtype=dt)
        Ei = np.eye(n, dtype=dt)
        E[i, j], Ei[i, j] = c, -c
        M, Mi = M @ E, Ei @ Mi
    return M, Mi


def make_rep(rng, n, names, kind, cls=None, order=None, matrices=None, **kwargs):
    """library representation + reference letter table.  `order`: sequence in
    which the generators are assigned (default: as listed).  `matrices`:
    {name: (matrix, exact inverse or None)} chosen by the caller."""
    from geometry_tools.representation import Representation
    cls = cls or Representation
    gens, invs = {}, {}
    for g in names:
        M, Mi = matrices[g] if matrices and g in matrices else gen_matrix(rng, n, kind)
        gens[g] = M
        if Mi is not None:
            invs[g] = Mi
    rep = cls(**kwargs)
    tab = rw.table(gens, invs or None)
    for g in (order or names):
        if rw.is_lower(g):
            rep[g] = gens[g].copy()
        else:
            # assigned through the inverse name: rep['A'] = M_a^-1
            rep[g] = np.array(tab[g], copy=True)
    tag(rep, "base", kind)
    return rep, tab


def word_case(tokens, tab, extra=None):
    c = {"word": list(tokens),
         "generators": {k: v for k, v in tab.items() if rw.is_lower(k)}}
    if extra:
        c.update(extra)
    return c


def lib_eval(rep, tokens, route, simple=True):
    """evaluate through one of the public routes."""
    if route == "list":
        return rep[list(tokens)]
    s = rw.to_surface(tokens, simple)
    if route == "getitem":
        return rep[s]
    if route == "element":
        return rep.element(s)
    if route == "element-explicit":
        return rep.element(s, parse_simple=simple)
    if route == "elements":
        return rep.elements([s])[0]
    raise ValueError(route)


def judge_word(run, mon, lib, tokens, tab, norms, key, case, tol=TOL, exact_tab=None):
    """library value of a word against the reference product."""
    lib_a = np.asarray(lib)
    if exact_tab is not None:
        ex = rw.evaluate(tokens, exact_tab)
        if lib_a.dtype.kind in "iu":
            ok = lib_a.shape == ex.shape and bool(np.all(lib_a.astype(object) == ex))
            return mon.require(ok, key,
                               "integer-dtype word value differs from the exact integer product "
                               "(got %r, expected %r)" % (lib_a.tolist(), ex.tolist()), case)
        ref = ex.astype(float)
    else:
        ref = rw.evaluate(tokens, tab)
    L = _numeric(lib_a)
    if L.shape != ref.shape:
        return mon.fail(key + "/shape", "word value has shape %r, expected %r"
                        % (L.shape, ref.shape), case)
    sc = rw.scale(tokens, norms)
    r = float(np.max(np.abs(L - ref))) / sc if L.size else 0.0
    return mon.judge(r, tol, key, "word value differs from the left-to-right product of "
                     "the generator matrices", case)


def len_bucket(m):
    return "0" if m == 0 else "1" if m == 1 else "2-4" if m <= 4 else \
        "5-12" if m <= 12 else "13-40"


# ---------------------------------------------------------------------------
# W: dense and random words

DENSE_GRID = [(kind, n, k) for k in (2, 3, 1, 4) for n in (1, 2, 3, 4, 5)
              for kind in ("real", "complex", "int", "stressed")]


def wl_dense(run, rng, idx):
    """ALL words up to length L over k generators and their inverses."""
    kind, n, k = DENSE_GRID[(idx * 37) % len(DENSE_GRID)]
    if run.tier == "quick":
        L = {1: 8, 2: 4, 3: 3, 4: 3}[k]
    else:
        L = {1: 10, 2: 5, 3: 4, 4: 4}[k]
    names = list("abcd"[:k])
    order = [names[i] for i in rng.permutation(k)]
    rep, tab = make_rep(rng, n, names, kind, order=order)
    norms = rw.letter_norms(tab)
    exact = rw.as_exact(tab) if kind == "int" else None
    tol = TOL_STRESSED if kind == "stressed" else TOL
    mon = run.monitor("word-value")
    letters = rw.alphabet(names)
    words = list(rw.all_words(letters, L))
    run.current_case = {"kind": kind, "n": n, "k": k, "L": L,
                        "generators": {g: tab[g] for g in names}}
    arr = rep.elements(["".join(w) for w in words])
    if np.asarray(arr).shape != (len(words), n, n):
        mon.fail("word-value/elements/shape", "elements(words) has shape %r, expected %r"
                 % (np.asarray(arr).shape, (len(words), n, n)))
        return
    for w, M in zip(words, arr):
        judge_word(run, mon, M, w, tab, norms, "word-value/elements/%s" % kind,
                   word_case(w, tab), tol, exact)
    # the same words through the other routes (sample)
    pick = rng.permutation(len(words))[:30]
    for j, wi in enumerate(pick):
        w = words[int(wi)]
        route = ("getitem", "element", "list", "element-explicit")[j % 4]
        M = lib_eval(rep, w, route)
        judge_word(run, mon, M, w, tab, norms, "word-value/%s/%s" % (route, kind),
                   word_case(w, tab, {"route": route}), tol, exact)
        run.note_class("dense", kind, n, k, route, len_bucket(len(w)))
    run.note_class("dense", kind, n, k, "elements", "all<=%d" % L)
    flush_history(run, stressed=(kind == "stressed"))
    if idx < 2:
        run.sample({"workload": "dense", "kind": kind, "n": n, "k": k, "L": L,
                    "words": len(words), "a": tab["a"]})


def wl_random(run, rng, idx):
    """random words up to length 40 with planted cancellations, evaluated
    together with random splittings, their free reduction and their inverse."""
    kind = KINDS[idx % len(KINDS)]
    n = 1 + (idx // len(KINDS)) % 5
    k = 1 + int(rng.integers(0, 4))
    names = list("abcd"[:k])
    rep, tab = make_rep(rng, n, names, kind)
    norms = rw.letter_norms(tab)
    exact = rw.as_exact(tab) if kind == "int" else None
    tol = TOL_STRESSED if kind == "stressed" else TOL
    mon = run.monitor("word-value")
    letters = rw.alphabet(names)
    maxlen = 10 if kind == "int" else 40
    routes = ("getitem", "element", "elements", "list", "element-explicit")
    for j in range(5):
        m = int(rng.integers(2, maxlen + 1))
        w = rw.random_word(rng, letters, m, cancel=(0.0, 0.15, 0.4)[j % 3])
        pieces = [w, rw.free_reduce(w)]
        for _ in range(2):
            cut = int(rng.integers(1, m))
            pieces += [w[:cut], w[cut:]]
        if kind != "int" or 2 * m <= 10:
            pieces.append(w + rw.formal_inverse(w))
        pieces.append(rw.formal_inverse(w))
        if j == 0:
            pieces += [(), (letters[0],), (letters[1],)]
        for p in pieces:
            route = routes[int(rng.integers(0, len(routes)))]
            run.current_case = word_case(p, tab, {"route": route, "kind": kind})
            M = lib_eval(rep, p, route)
            judge_word(run, mon, M, p, tab, norms, "word-value/%s/%s" % (route, kind),
                       run.current_case, tol, exact)
            run.note_class("random", kind, n, k, route, len_bucket(len(p)))
    flush_history(run, stressed=(kind == "stressed"))
    if idx < 2:
        run.sample({"workload": "random", "kind": kind, "n": n, "k": k,
                    "word": "".join(w), "a": tab["a"]})


# ---------------------------------------------------------------------------
# W: generator names

NAME_POOLS = [["s1", "s2", "s3"], ["word1", "word2"], ["x", "yy", "zzz"],
              ["g_1", "g_2", "g_11"], ["ab", "a", "b"], ["t"], ["1a", "2a"], ["a", "aa"],
              ["s", "t", "st"],
              # names with characters that are neither alphanumeric nor reserved:
              # the library reserves exactly '*', '(' and ')' (and asks for one
              # ASCII letter and a single case), so a prime, dot, dash, bracket ...
              # belongs to the name, in assignment and in words alike.  Several
              # pools contain a name whose alphanumeric prefix is itself a
              # generator ('x' and "x'"): a tokeniser that cuts names at such a
              # character silently evaluates another generator (seeded change
              # C05-r4-3: parse_word collecting \w+ tokens)
              ["x", "x'", "y"], ["t.1", "g-2", "t"], ["a_b", "a", "b"],
              ["s+", "s", "s++"], ["g[1]", "g[2]", "g"], ["a/b", "a^-1", "b"],
              ["x,y", "x", "y"], ["p'", "p''", "q:2"], ["x\u00e9", "x", "\u00e91y"],
              ["u!", "u?", "u#", "u"], ["k|", "k&k", "k=", "k~1"]]


def wl_names(run, rng, idx):
    from geometry_tools.representation import Representation
    mon = run.monitor("names")
    pool = NAME_POOLS[idx % len(NAME_POOLS)]
    mode = ("star", "list", "override", "upper-first")[(idx // len(NAME_POOLS)) % 4]
    kind = ("real", "int", "complex")[(idx // 3) % 3]
    n = 1 + int(rng.integers(0, 4))
    names = list(pool)
    letters = rw.alphabet(names)
    gens, invs = {}, {}
    for g in names:
        gens[g], Mi = gen_matrix(rng, n, kind)
        if Mi is not None:
            invs[g] = Mi
    tab = rw.table(gens, invs or None)
    norms = rw.letter_norms(tab)
    exact = rw.as_exact(tab) if kind == "int" else None
    if mode == "star":
        rep = Representation(parse_simple=False)
    else:
        rep = Representation()
    if mode == "upper-first":
        # assign through the upper-case name: the lower-case one is the inverse
        for g in names:
            rep[g.upper()] = tab[g.upper()].copy()
        # the library inverted the matrix it was given
        if kind == "int":
            exact = None
    else:
        for g in names:
            rep[g] = gens[g].copy()
    tag(rep, "names", mode)
    if set(rep.generators) != set(letters):
        mon.fail("names/generator-dict", "generators dict has keys %r, expected %r"
                 % (sorted(rep.generators), sorted(letters)),
                 {"names": names, "mode": mode})
        return

    def attempt(route, tokens, wordclass, surface, call):
        case = {"names": names, "mode": mode, "route": route, "word": list(tokens),
                "surface": surface if isinstance(surface, str) else list(surface),
                "kind": kind, "n": n,
                "generators": {g: gens[g] for g in names}}
        run.current_case = case
        # mechanism class of the route: does it rely on the representation's own
        # parse_simple=False (rep[w], element(w)), or is a*b syntax / a list of
        # names requested explicitly?
        if mode == "star" and route in ("getitem", "element-default"):
            rclass = "default-route-on-star-rep"
        elif route.endswith("-list"):
            rclass = "list-of-names"
        else:
            rclass = "star-syntax"
        try:
            M = call()
        except Exception as e:
            mon.fail("names/exception:%s/%s/%s" % (type(e).__name__, rclass, wordclass),
                     "%s raised %s: %s for the word %r over generators %r"
                     % (route, type(e).__name__, str(e)[:100], surface, names),
                     case, tb=traceback.format_exc())
            return
        judge_word(run, mon, M, tokens, tab, norms,
                   "names/value/%s/%s" % (rclass, wordclass), case, TOL, exact)
        run.note_class("names", mode, "+".join(pool), route, wordclass, kind)

    words = [(), (letters[0],), (letters[1],)]
    for _ in range(4):
        m = int(rng.integers(2, 9))
        words.append(rw.random_word(rng, letters, m, cancel=0.2))
    w0 = words[-1]
    words += [w0[:3], w0[3:]]
    for tokens in words:
        wc = "empty-word" if len(tokens) == 0 else "word"
        if mode == "star":
            s = rw.to_surface(tokens, simple=False)
            attempt("getitem", tokens, wc, s, lambda: rep[s])
            attempt("element-default", tokens, wc, s, lambda: rep.element(s))
            attempt("element-explicit", tokens, wc, s,
                    lambda: rep.element(s, parse_simple=False))
            attempt("elements", tokens, wc, s, lambda: rep.elements([s])[0])
            if len(tokens) >= 2:
                sp = rw.to_surface(tokens, simple=False, parens=True, rng=rng)
                attempt("element-explicit", tokens, "parenthesised", sp,
                        lambda: rep.element(sp, parse_simple=False))
                attempt("elements", tokens, "parenthesised", sp,
                        lambda: rep.elements([sp])[0])
                attempt("getitem", tokens, "parenthesised", sp, lambda: rep[sp])
        elif mode in ("list", "upper-first"):
            lst = list(tokens)
            attempt("getitem-list", tokens, wc, lst, lambda: rep[lst])
            attempt("element-list", tokens, wc, lst, lambda: rep.element(lst))
            attempt("elements-list", tokens, wc, lst, lambda: rep.elements([lst])[0])
        else:   # override: a simple representation asked to parse a*b syntax
            s = rw.to_surface(tokens, simple=False)
            attempt("element-explicit", tokens, wc, s,
                    lambda: rep.element(s, parse_simple=False))
            if len(tokens) >= 2:
                sp = rw.to_surface(tokens, simple=False, parens=True, rng=rng)
                attempt("element-explicit", tokens, "parenthesised", sp,
                        lambda: rep.element(sp, parse_simple=False))
    # several words in ONE elements() call, consecutive words sharing leading
    # generators and leading *characters* of generator names (seeded change
    # C05-r2-2: a prefix-sharing optimisation counting shared characters)
    if mode in ("star", "list", "upper-first") and len(letters) >= 2:
        stem = rw.random_word(rng, letters, int(rng.integers(1, 4)))
        batch = []
        for _ in range(5):
            tail = rw.random_word(rng, letters, int(rng.integers(1, 4)))
            batch.append(tuple(stem) + tuple(tail))
        batch.append(tuple(stem))
        # different words whose names concatenate to the same string ('a','b' vs
        # 'ab'; 'a','aa' vs 'aa','a'), side by side in one call (seeded change
        # C05-r3-1: per-call memo keyed by "".join(word))
        groups = {}
        for L in (1, 2, 3):
            for t in itertools.product(letters, repeat=L):
                groups.setdefault("".join(t), []).append(t)
        clash = [g for g in groups.values() if len(g) >= 2]
        if clash:
            g = clash[int(rng.integers(len(clash)))]
            pick = [g[int(i)] for i in rng.permutation(len(g))[:3]]
            pre = tuple(rw.random_word(rng, letters, int(rng.integers(0, 2))))
            batch.extend(pre + tuple(t) for t in pick)
        # the order of the list is the caller's: long words before the short
        # ones they are built from, so that the permutation sorting the list by
        # length is not an involution (a 3-cycle at least), at either end of the
        # batch (seeded change C08-r4-2: elements() evaluating in length order
        # and applying the sorting permutation twice instead of inverting it)
        lw_ = tuple(rw.random_word(rng, letters, int(rng.integers(3, 7))))
        batch = [lw_, (letters[0],), (letters[1],), (letters[0], letters[1])] + batch \
            + [lw_ + lw_[:2], (letters[1],), (letters[1], letters[0]), lw_[:3]]
        case = {"names": names, "mode": mode, "route": "elements-batch",
                "words": [list(t) for t in batch], "kind": kind, "n": n,
                "generators": {g: gens[g] for g in names}}
        run.current_case = case
        surf = [rw.to_surface(t, simple=False) for t in batch] if mode == "star" \
            else [list(t) for t in batch]
        try:
            Ms = _numeric(rep.elements(surf))
        except Exception as e:
            mon.fail("names/exception:%s/elements-batch/%s" % (type(e).__name__, mode),
                     "elements(%r) raised %s: %s" % (surf, type(e).__name__, str(e)[:100]),
                     case, tb=traceback.format_exc())
            Ms = None
        if Ms is not None:
            for j, t in enumerate(batch):
                ref = rw.evaluate(t, tab)
                sc = rw.scale(t, norms)
                mon.judge(float(np.max(np.abs(Ms[j] - ref))) / max(sc, 1.0), 1e-8,
                          "names/value/elements-batch/%s" % mode,
                          "elements(words)[%d] is not the image of word %d of the batch %r"
                          % (j, j, surf), dict(case, index=j))
            run.note_class("names-batch", tuple(names), mode, kind)
    if mode != "override":
        _names_derived(run, rng, mon, rep, mode, names, letters, gens, tab, norms, kind, n, idx)
    flush_history(run)
    if idx < 2:
        run.sample({"workload": "names", "names": names, "mode": mode,
                    "word": rw.to_surface(words[4], simple=False)})


def unwrap_value(val):
    """library value (matrix, stack of matrices, Transformation / Isometry,
    composite of those) -> numpy array in the column-vector convention."""
    if hasattr(val, "matrix"):
        return np.swapaxes(_numeric(val.matrix), -1, -2)
    return _numeric(val)


NAMES_DERIVED = ["copy", "conjugate", "dual", "projective-wrap", "compose(identity)",
                 "subgroup(dict)", "astype(complex)"]


def _names_derived(run, rng, mon, rep, mode, names, letters, gens, tab, norms, kind, n, idx):
    """representations derived from one with multi-character names keep its
    names AND its word syntax: sigma('x*(y*X)') = F(rho(x y X)) through rep[w],
    element(), elements() with '*' and grouping parentheses on parse_simple=False
    representations, lists of names on simple ones (seeded changes C05-r4-3,
    C05-r4-1: the non-matrix configuration -- parse mode, naming -- of a
    derived representation)."""
    from geometry_tools.representation import Representation
    from geometry_tools import projective
    star = mode == "star"
    cplx = kind == "complex"
    words = [(letters[0],), (letters[-1],)]
    for _ in range(3):
        words.append(rw.random_word(rng, letters, int(rng.integers(2, 7)), cancel=0.2))
    base = {"names": names, "mode": mode, "kind": kind, "n": n,
            "generators": {g: gens[g] for g in names}}
    for j in range(3):
        which = NAMES_DERIVED[(3 * idx + j) % len(NAMES_DERIVED)]
        wrapped = False
        alpha = letters
        case = dict(base, derived=which)
        run.current_case = case
        try:
            if which == "copy":
                S, TS = Representation(rep), dict(tab)
            elif which == "conjugate":
                C = rw.rand_cond(rng, n, 10.0, complex_=cplx)
                Ci = rw.inverse(C)
                S = rep.conjugate(C.copy())
                TS = {x: Ci @ np.asarray(tab[x]) @ C for x in tab}
            elif which == "dual":
                S = rep.dual()
                TS = {x: np.asarray(tab[rw.inv_name(x)]).T for x in tab}
            elif which == "projective-wrap":
                S, TS, wrapped = projective.ProjectiveRepresentation(rep), dict(tab), True
            elif which == "compose(identity)":
                S, TS = rep.compose(lambda M: M.copy()), dict(tab)
            elif which == "astype(complex)":
                S = rep.astype(complex)
                TS = {x: np.asarray(tab[x]).astype(complex) for x in tab}
            else:
                # a subgroup named after the same pool, on words in the pool's
                # syntax; the new representation is a simple one (lists of names)
                imgs = {g: rw.random_word(rng, letters, int(rng.integers(1, 4)))
                        for g in names[:2]}
                S = rep.subgroup({g: (rw.to_surface(w, simple=False) if star else list(w))
                                  for g, w in imgs.items()})
                TS = rw.table({g: rw.evaluate(w, tab) for g, w in imgs.items()},
                              {g: rw.evaluate(rw.formal_inverse(w), tab)
                               for g, w in imgs.items()})
                alpha = rw.alphabet(list(imgs))
                case = dict(case, subgroup_words={g: list(w) for g, w in imgs.items()})
        except Exception as e:
            mon.fail("names/exception:%s/derived:%s/build" % (type(e).__name__, which),
                     "%s of a representation with generators %r raised %s: %s"
                     % (which, names, type(e).__name__, str(e)[:100]), case,
                     tb=traceback.format_exc())
            continue
        tag(S, "names", mode, which)
        sub = which.startswith("subgroup")
        if set(S.generators) != set(alpha):
            mon.fail("names/derived:%s/generator-dict" % which,
                     "%s has generators %r, expected %r"
                     % (which, sorted(S.generators), sorted(alpha)), case)
            continue
        nT = rw.letter_norms(TS)
        ws = words if not sub else [(alpha[0],), (alpha[1],)] + [
            rw.random_word(rng, alpha, int(rng.integers(2, 6)), cancel=0.2) for _ in range(2)]
        for tokens in ws:
            if star and not sub:
                s_ = rw.to_surface(tokens, simple=False)
                sp = rw.to_surface(tokens, simple=False, parens=True, rng=rng)
                calls = [("getitem", "star-syntax", s_, lambda: S[s_]),
                         ("element", "star-syntax", s_, lambda: S.element(s_)),
                         ("elements", "star-syntax", s_, lambda: S.elements([s_, sp])),
                         ("getitem", "parenthesised", sp, lambda: S[sp]),
                         ("element-explicit", "parenthesised", sp,
                          lambda: S.element(sp, parse_simple=False))]
            else:
                lst = list(tokens)
                calls = [("getitem-list", "list-of-names", lst, lambda: S[lst]),
                         ("elements-list", "list-of-names", lst, lambda: S.elements([lst, lst]))]
            ref = rw.evaluate(tokens, TS)
            sc = rw.scale(tokens, nT)
            for route, rclass, surface, call in calls:
                cw = dict(case, route=route, word=list(tokens), surface=surface)
                run.current_case = cw
                try:
                    val = call()
                except Exception as e:
                    mon.fail("names/exception:%s/derived:%s/%s" % (type(e).__name__, which, rclass),
                             "%s of the %s representation raised %s: %s for the word %r over "
                             "generators %r" % (route, which, type(e).__name__, str(e)[:100],
                                                surface, sorted(S.generators)), cw,
                             tb=traceback.format_exc())
                    continue
                L = unwrap_value(val)
                if route.startswith("elements"):
                    if L.shape != (2,) + ref.shape:
                        mon.fail("names/derived:%s/shape" % which, "elements() of two words has "
                                 "shape %r" % (L.shape,), cw)
                        continue
                    units = [L[0], L[1]]
                else:
                    units = [L]
                for U in units:
                    if U.shape != ref.shape:
                        mon.fail("names/derived:%s/shape" % which, "value has shape %r, expected %r"
                                 % (U.shape, ref.shape), cw)
                        continue
                    if wrapped:
                        r = proj_residual(U, ref) / max(sc / max(float(np.max(np.abs(ref))), 1e-300), 1.0)
                    else:
                        r = float(np.max(np.abs(U - ref))) / sc
                    mon.judge(r, 1e-8, "names/derived:%s/%s" % (which, rclass),
                              "%s of a representation with multi-character names: the value of "
                              "the word differs from F(rho(w))" % which, cw)
            run.note_class("names-derived", mode, "+".join(names), which)


# ---------------------------------------------------------------------------
# H/W: assignment and re-assignment histories


def wl_reassign(run, rng, idx):
    from geometry_tools.representation import Representation
    mon = run.monitor("reassign")
    kind = ("real", "int", "complex", "real")[idx % 4]
    n = 1 + (idx // 4) % 4
    names = list("abc"[:1 + int(rng.integers(0, 3))])
    letters = rw.alphabet(names)
    live = []       # [label, library rep, model table]
    rep = Representation()
    model = {}
    live.append(["base", tag(rep, "reassign", "base"), model])
    history = []
    opkinds = set()

    def fresh():
        M, Mi = gen_matrix(rng, n, kind if rng.random() < 0.8 else "real")
        return M, (Mi if Mi is not None else rw.inverse(M))

    def check_all(after):
        for label, R, T in live:
            avail = [x for x in letters if x in T]
            if not avail:
                continue
            norms = rw.letter_norms(T)
            ws = [(x,) for x in avail[:2]] + [()]
            for _ in range(3):
                ws.append(rw.random_word(rng, avail, int(rng.integers(2, 8)), cancel=0.2))
            w = ws[-1]
            ws += [w[:2], w[2:]]
            for w in ws:
                route = ("getitem", "elements", "list")[int(rng.integers(0, 3))]
                case = {"history": history, "after": after, "object": label,
                        "word": "".join(w), "route": route}
                run.current_case = case
                M = lib_eval(R, w, route)
                judge_word(run, mon, M, w, T, norms,
                           "reassign/%s/after:%s" % ("derived" if label != "base" and
                                                     not label.startswith("copy") else
                                                     label.split("#")[0], after),
                           case, 1e-8)

    depth = int(rng.integers(3, 13))
    for step in range(depth):
        r = rng.random()
        label, R, T = live[int(rng.integers(0, len(live)))]
        if step < len(names) and label == "base":
            # first fill the base representation (random order, random case)
            g = [x for x in names if x not in T]
            g = g[int(rng.integers(0, len(g)))] if g else names[0]
            r = 0.0
        else:
            g = names[int(rng.integers(0, len(names)))]
        if r < 0.45:
            M, Mi = fresh()
            if rng.random() < 0.3:
                op = "set-upper"
                R[g.upper()] = M.copy()
                T[g.upper()] = M
                T[g] = Mi
            else:
                op = "set"
                R[g] = M.copy()
                T[g] = M
                T[g.upper()] = Mi
            history.append([op, label, g])
        elif r < 0.6:
            M, Mi = fresh()
            op = "set-explicit-inverse"
            R.set_generator(g, M.copy(), compute_inverse=False)
            R.set_generator(g.upper(), np.asarray(Mi).copy(), compute_inverse=False)
            T[g] = M
            T[g.upper()] = np.asarray(Mi)
            history.append([op, label, g])
        elif r < 0.75 and T:
            op = "copy"
            R2 = Representation(R)
            live.append(["copy#%d" % len(live), tag(R2, "reassign", "copy"), dict(T)])
            history.append([op, label])
        elif r < 0.95 and len(T) == 2 * len(names):
            which = ("dual", "conjugate", "identity-compose", "astype-complex")[
                int(rng.integers(0, 4))]
            op = "derive-" + which
            if which == "dual":
                S = R.dual()
                TS = {x: np.asarray(T[rw.inv_name(x)]).T for x in T}
            elif which == "conjugate":
                C = rw.rand_cond(rng, n, 10.0)
                Ci = rw.inverse(C)
                S = R.conjugate(C.copy())
                TS = {x: Ci @ np.asarray(T[x]) @ C for x in T}
            elif which == "identity-compose":
                S = R.compose(lambda M: M.copy())
                TS = dict(T)
            else:
                S = R.astype(complex)
                TS = {x: np.asarray(T[x]).astype(complex) for x in T}
            live.append(["%s#%d" % (which, len(live)), tag(S, "reassign", which), TS])
            history.append([op, label])
        else:
            op = "evaluate"
            history.append([op, label])
        opkinds.add(op)
        check_all(op)
    run.note_class("reassign", kind, n, len(names), ",".join(sorted(opkinds)))
    flush_history(run)
    if idx < 2:
        run.sample({"workload": "reassign", "history": history})


# ---------------------------------------------------------------------------
# H/W: representations created with their own inverse-naming map (invert_gen=)
#
# The generators dict stores the inverse of generator g under invert_gen(g); the
# default is the case swap, but the constructor takes any involution on names
# ('x' <-> 'xinv').  The homomorphism law is stated for every representation,
# hence also for these and for everything derived from them: the derived object
# carries the same generator names, so after re-assigning one of its generators
# the inverse letter must evaluate to the inverse of the new matrix, and a
# further derivation must see the same pairs (g, g^-1).  (Seeded change
# C05-r4-1: the constructor fixing invert_gen before looking at the source
# representation, so that copies / conjugates / duals ... fall back to the case
# swap -- invisible until a generator of the derived object is re-assigned or a
# second derivation is made from it.)


def _naming_suffix(g):
    return g[:-3] if g.endswith("inv") else g + "inv"


_PAIRS = dict(zip("abcdef", "badcfe"))


def _naming_pairs(g):
    return _PAIRS[g]


def _naming_prime(g):
    return g[:-1] if g.endswith("'") else g + "'"


def _naming_sign(g):
    return g[:-1] + ("-" if g.endswith("+") else "+")


def _naming_upper_tail(g):
    return g[:-1].lower() if g.endswith("_") else g.upper() + "_"


def _naming_swapcase(g):
    return g.swapcase()


# (label, inverse-naming map, names the generators are first assigned under)
NAMINGS = [
    ("suffix-inv", _naming_suffix, ["x", "y", "z"]),
    ("letter-pairs", _naming_pairs, ["a", "c", "e"]),       # 'ab' is the empty word
    ("prime", _naming_prime, ["x", "y", "z"]),
    ("sign", _naming_sign, ["s+", "t+", "u+"]),
    ("upper-tail", _naming_upper_tail, ["x", "y1", "z"]),
    ("explicit-case-swap", _naming_swapcase, ["s1", "t", "u2"]),
]

NAMING_DERIVE = ["copy", "conjugate", "dual", "wrap-projective", "compose(identity)",
                 "copy-subset", "astype(complex)", "wrap-hyperbolic", "gln_adjoint",
                 "change_base_ring(None)", "compose(kron,compute_inverses)",
                 "conjugate(inv_mat)", "subgroup"]


class _Named:
    """a live representation of the inverse-naming workload with its model."""

    def __init__(self, label, R, T, inv, alpha, star, wrap, isom, level, dim):
        self.label, self.R, self.T, self.inv, self.alpha = label, R, T, inv, list(alpha)
        self.star, self.wrap, self.isom, self.level, self.dim = star, wrap, isom, level, dim
        tag_naming(R, inv)


def wl_naming(run, rng, idx):
    from geometry_tools.representation import Representation
    from geometry_tools import projective, hyperbolic
    mon = run.monitor("naming")
    nlabel, inv, first_names = NAMINGS[idx % len(NAMINGS)]
    star = bool((idx // len(NAMINGS)) % 2)          # '*' syntax or lists / simple strings
    isom = idx % 4 == 3                              # generators in O(d,1)
    kind = ("real", "complex", "int", "real")[idx % 4]
    n = 1 + (idx // 3) % 3 if not isom else 2 + (idx // 4) % 3
    k = 1 + int(rng.integers(0, 3))
    names = first_names[:k]
    alpha = rw.alphabet(names, inv)
    one_char = all(len(x) == 1 for x in alpha)
    WRAP = {"proj": (projective.ProjectiveRepresentation, projective.Transformation),
            "hyp": (hyperbolic.HyperbolicRepresentation, hyperbolic.Isometry)}
    history = []
    base_case = {"naming": nlabel, "star_syntax": star, "kind": kind, "n": n,
                 "isometries": isom, "history": history}

    def fresh(obj_isom, dim, cplx_ok=True):
        if obj_isom:
            M = rh.rand_isometry(rng, dim - 1, tmax=1.0)
            return M, rw.inverse(M)
        if dim != n:
            M = rw.rand_cond(rng, dim, 20.0)
            return M, rw.inverse(M)
        M, Mi = gen_matrix(rng, dim, kind if cplx_ok else "real")
        return M, (Mi if Mi is not None else rw.inverse(M))

    def give(obj, M):
        M = np.array(M, copy=True)
        return WRAP[obj.wrap][1](M, column_vectors=True) if obj.wrap else M

    # ---- the base representation: generators assigned in random order, some
    # through their inverse name
    R = Representation(invert_gen=inv, parse_simple=not star)
    T = {}
    for g in [names[i] for i in rng.permutation(k)]:
        M, Mi = fresh(isom, n)
        if rng.random() < 0.35:
            R[inv(g)] = np.array(Mi, copy=True)
            T[inv(g)], T[g] = np.asarray(Mi), rw.inverse(Mi) if kind != "int" or isom else M
            history.append(["set", "base", inv(g)])
        else:
            R[g] = np.array(M, copy=True)
            T[g], T[inv(g)] = np.asarray(M), np.asarray(Mi)
            history.append(["set", "base", g])
    base = _Named("base", tag(R, "naming", nlabel, "base"), T, inv, alpha, star, None,
                  isom, 0, n)
    live = [base]

    def surface(obj, tokens, parens=False):
        if obj.star:
            return rw.to_surface(tokens, simple=False, parens=parens, rng=rng)
        if one_char and obj.inv is inv and rng.random() < 0.5:
            return "".join(tokens)
        return list(tokens)

    def check(obj, after):
        """words in the letters of `obj` (with inverse letters by ITS naming)
        against the model table."""
        Tm = obj.T
        nT = rw.letter_norms(Tm)
        a = obj.alpha
        g0 = a[int(rng.integers(0, len(a)))]
        ws = [(g0,), (obj.inv(g0),), (g0, obj.inv(g0)), ()]
        for _ in range(2):
            ws.append(rw.random_word(rng, a, int(rng.integers(2, 7)), cancel=0.25, inv=obj.inv))
        w = ws[-1]
        ws += [w[:1], w[1:], rw.formal_inverse(w, obj.inv)]
        keytail = "%s/level%d/after:%s" % (obj.label.split("#")[0], obj.level, after)
        for j, tokens in enumerate(ws):
            route = ("getitem", "elements", "element")[int(rng.integers(0, 3))]
            sf = surface(obj, tokens, parens=(j % 2 == 1))
            case = dict(base_case, object=obj.label, after=after, word=list(tokens),
                        surface=sf, route=route,
                        model={x: Tm[x] for x in a})
            run.current_case = case
            try:
                if route == "getitem":
                    val = obj.R[sf]
                elif route == "element":
                    val = obj.R.element(sf)
                else:
                    val = obj.R.elements([sf, sf])
                L = unwrap_value(val)
                if route == "elements":
                    L = L[1] if L.ndim == 3 and L.shape[0] == 2 else np.zeros((0,))
            except Exception as e:
                mon.fail("naming/exception:%s/evaluate/%s" % (type(e).__name__, keytail),
                         "evaluating %r on the %s representation raised %s: %s"
                         % (sf, obj.label, type(e).__name__, str(e)[:100]), case,
                         tb=traceback.format_exc())
                continue
            ref = rw.evaluate(tokens, Tm, obj.dim)
            if L.shape != ref.shape:
                mon.fail("naming/shape/" + keytail, "value has shape %r, expected %r"
                         % (L.shape, ref.shape), case)
                continue
            sc = rw.scale(tokens, nT)
            if obj.wrap:
                r = proj_residual(L, ref) / max(sc / max(float(np.max(np.abs(ref))), 1e-300), 1.0)
            else:
                r = float(np.max(np.abs(L - ref))) / sc if L.size else 0.0
            mon.judge(r, max(1e-8, _tol_for(L)), "naming/value/" + keytail,
                      "a representation with its own inverse-naming map (or derived from "
                      "one): the value of the word differs from the product of the letters' "
                      "matrices, inverse letters by that map", case)
        run.note_class("naming", nlabel, star, obj.label.split("#")[0], obj.level, after, kind)

    def derive(which, obj):
        """-> new _Named or None (not applicable to this object)."""
        Rr, Tm, dim = obj.R, obj.T, obj.dim
        a, oinv, ostar, wrap, oisom = obj.alpha, obj.inv, obj.star, obj.wrap, obj.isom
        cplx = any(np.iscomplexobj(v) for v in Tm.values())
        if which == "copy":
            S, TS = type(Rr)(Rr), dict(Tm)
        elif which == "copy-subset":
            sub = [a[0], oinv(a[0])]
            S, TS, a = type(Rr)(Rr, generator_names=list(sub)), {x: Tm[x] for x in sub}, sub
        elif which in ("conjugate", "conjugate(inv_mat)"):
            if oisom:
                C = rh.rand_isometry(rng, dim - 1, tmax=1.0)
            else:
                C = rw.rand_cond(rng, dim, 10.0, complex_=cplx)
            Ci = rw.inverse(C)
            if which == "conjugate":
                S = Rr.conjugate(give(obj, C))
            else:
                S = Rr.conjugate(give(obj, C), inv_mat=give(obj, Ci))
            TS = {x: Ci @ np.asarray(Tm[x]) @ C for x in Tm}
        elif which == "dual":
            S, TS = Rr.dual(), {x: np.asarray(Tm[oinv(x)]).T for x in Tm}
        elif which == "compose(identity)":
            S, TS = Rr.compose(lambda M: M.copy()), dict(Tm)
            if wrap == "hyp":
                wrap = "proj"       # HyperbolicRepresentation.compose: projective
        elif which == "change_base_ring(None)":
            S, TS = Rr.change_base_ring(None), dict(Tm)
        elif which == "astype(complex)":
            if wrap or cplx:
                return None
            S, TS, oisom = Rr.astype(complex), {x: np.asarray(Tm[x]).astype(complex)
                                                for x in Tm}, False
        elif which == "wrap-projective":
            if wrap == "proj":
                return None
            S, TS, wrap = projective.ProjectiveRepresentation(Rr), dict(Tm), "proj"
        elif which == "wrap-hyperbolic":
            if wrap or not oisom:
                return None
            S, TS, wrap = hyperbolic.HyperbolicRepresentation(Rr), dict(Tm), "hyp"
        elif which == "gln_adjoint":
            if dim > 2 or wrap == "hyp":
                return None
            S = Rr.gln_adjoint()
            TS = {x: np.kron(np.asarray(Tm[x]), np.asarray(Tm[oinv(x)]).T) for x in Tm}
            dim, oisom = dim * dim, False
        elif which == "compose(kron,compute_inverses)":
            if dim > 2 or wrap:
                return None
            S = Rr.compose(lambda M: np.kron(M, M), compute_inverses=True)
            TS = {x: np.kron(np.asarray(Tm[x]), np.asarray(Tm[x])) for x in Tm}
            dim, oisom = dim * dim, False
        elif which == "subgroup":
            # a NEW representation: its generators are named by the caller and
            # paired by the default case swap; the words are in the parent's
            # letters and syntax
            if wrap:
                return None
            imgs = {g: rw.random_word(rng, a, int(rng.integers(1, 4)), inv=oinv)
                    for g in ("p", "q")}
            sw = {g: (rw.to_surface(w, simple=False) if ostar else list(w))
                  for g, w in imgs.items()}
            S = Rr.subgroup(list(sw.values()), generator_names=list(sw))
            TS = rw.table({g: rw.evaluate(w, Tm, dim) for g, w in imgs.items()},
                          {g: rw.evaluate(rw.formal_inverse(w, oinv), Tm, dim)
                           for g, w in imgs.items()})
            a, oinv, ostar, oisom = rw.alphabet(list(imgs)), rw.inv_name, False, False
        else:
            raise ValueError(which)
        label = "%s#%d" % (which, len(live))
        tag(S, "naming", nlabel, which)
        return _Named(label, S, TS, oinv, a, ostar, wrap, oisom, obj.level + 1, dim)

    def do_derive(which, obj):
        case = dict(base_case, derive=which, source=obj.label)
        run.current_case = case
        try:
            new = derive(which, obj)
            if new is None:
                which = "copy"
                new = derive("copy", obj)
        except Exception as e:
            mon.fail("naming/exception:%s/derive:%s/from:%s/level%d"
                     % (type(e).__name__, which, obj.label.split("#")[0], obj.level),
                     "%s of the %s representation (inverse naming %s) raised %s: %s"
                     % (which, obj.label, nlabel, type(e).__name__, str(e)[:100]), case,
                     tb=traceback.format_exc())
            return None
        history.append(["derive-" + which, obj.label, new.label])
        if set(new.R.generators) != set(new.T):
            mon.fail("naming/generator-dict/%s/level%d" % (which, new.level),
                     "%s has generators %r, expected %r"
                     % (new.label, sorted(new.R.generators), sorted(new.T)), case)
            return None
        live.append(new)
        check(new, "derive")
        return new

    def do_set(obj):
        g = obj.alpha[int(rng.integers(0, len(obj.alpha)))]
        M, Mi = fresh(obj.isom, obj.dim, cplx_ok=not obj.wrap)
        case = dict(base_case, object=obj.label, set=g, matrix=M)
        run.current_case = case
        explicit = rng.random() < 0.25
        try:
            if explicit:
                obj.R.set_generator(g, give(obj, M), compute_inverse=False)
                obj.R.set_generator(obj.inv(g), give(obj, Mi), compute_inverse=False)
            else:
                obj.R[g] = give(obj, M)
        except Exception as e:
            mon.fail("naming/exception:%s/set/%s" % (type(e).__name__, obj.label.split("#")[0]),
                     "re-assigning %r on the %s representation raised %s: %s"
                     % (g, obj.label, type(e).__name__, str(e)[:100]), case,
                     tb=traceback.format_exc())
            return
        obj.T[g], obj.T[obj.inv(g)] = np.asarray(M), np.asarray(Mi)
        history.append(["set-explicit-inverse" if explicit else "set", obj.label, g])
        for o in live:
            check(o, "set" if o is obj else "set-on-another")

    nd = len(NAMING_DERIVE)
    check(base, "construction")
    d1 = do_derive(NAMING_DERIVE[idx % nd], base)
    # second-level derivation straight away: base.K2().K3()
    mid = do_derive(NAMING_DERIVE[(idx // 2) % nd], base)
    if mid is not None:
        do_derive(NAMING_DERIVE[(idx // 3 + 2) % nd], mid)
    # re-assign on the derived object, then derive from it again
    if d1 is not None:
        do_set(d1)
        d2 = do_derive(NAMING_DERIVE[(idx // 5 + 1) % nd], d1)
        if d2 is not None:
            do_set(d2)
    do_set(base)
    flush_history(run)
    if idx < 2:
        run.sample({"workload": "inverse-naming", "naming": nlabel, "history": history})


# ---------------------------------------------------------------------------
# W: derived representations


def subst(tokens, images):
    """substitute words for letters (inverse letters by formal inverses)."""
    out = []
    for t in tokens:
        if t in images:
            out.extend(images[t])
        else:
            out.extend(rw.formal_inverse(images[rw.inv_name(t)]))
    return tuple(out)


def realify(M):
    M = np.asarray(M, dtype=complex)
    return np.block([[M.real, -M.imag], [M.imag, M.real]])


def block_diag1(M, d):
    M = np.asarray(M)
    out = np.eye(d, dtype=M.dtype if M.dtype.kind in "fc" else float)
    out[:M.shape[0], :M.shape[0]] = M
    return out


def wl_derived(run, rng, idx):
    kind = ("real", "complex", "int", "real", "orthogonal")[idx % 5]
    n = 1 + (idx // 5) % 5
    _derived_case(run, rng, idx, kind, n)


def wl_special(run, rng, idx):
    """every derived construction on generators made of exact special values
    (zeros in each position, +-1, equal entries, determinant exactly one;
    integer, float and complex dtype).  The 2x2 pattern of the first generator
    and the dtype follow the case index, so that the quick tier meets every
    pattern with every dtype; two cases in three are 2x2 (the domain of the
    SL(2) maps of lie.hom)."""
    P = len(SPECIAL_2X2)
    kind = SPECIAL_KINDS[(idx // P) % 3]
    n = 2 if idx % 3 != 2 else (3, 1, 4, 5)[(idx // 3) % 4]
    k = 1 + int(rng.integers(0, 3))
    matrices = {}
    if n == 2:
        name, M, Mi = special_2x2(rng, kind, idx % P)
        matrices["a"] = (M, Mi)
        run.note_class("special-2x2", kind, name)
    _derived_case(run, rng, idx, kind, n, k=k, matrices=matrices, workload="special-values")


def _derived_case(run, rng, idx, kind, n, k=None, matrices=None, workload="derived"):
    from geometry_tools.representation import Representation
    from geometry_tools import lie
    mon = run.monitor("derived")
    if k is None:
        k = 1 + int(rng.integers(0, 3))
    names = list("abc"[:k])
    letters = rw.alphabet(names)
    rep, tab = make_rep(rng, n, names, kind, matrices=matrices)
    cplx = kind in ("complex", "special-complex")
    intk = kind in ("int", "special-int")
    base = {"kind": kind, "n": n, "generators": {g: tab[g] for g in names}}

    words = [(), (letters[0],), (letters[1],)]
    for _ in range(4):
        words.append(rw.random_word(rng, letters, int(rng.integers(2, 11)), cancel=0.2))
    w = words[-1]
    cut = max(1, len(w) // 2)
    words += [w[:cut], w[cut:], rw.free_reduce(w)]

    def rho(tokens):
        return rw.evaluate(tokens, tab)

    def rho_inv(tokens):
        return rw.evaluate(rw.formal_inverse(tokens), tab)

    def run_value(label, build, F, Fletter=None, wordmap=None, alphabet=None,
                  expect_dtype=None, tol=1e-8, routes=("getitem", "elements", "list"),
                  by_letters=False):
        """sigma = build(); sigma(w) must equal F(rho(w), rho(w^-1))."""
        case = dict(base, derived=label)
        run.current_case = case
        try:
            sigma = build()
        except Exception as e:
            mon.fail("derived/exception:%s/%s" % (type(e).__name__, label),
                     "%s raised %s: %s" % (label, type(e).__name__, str(e)[:120]),
                     case, tb=traceback.format_exc())
            return None
        tag(sigma, label, kind)
        Fl = Fletter or F
        if wordmap is None:
            tabF = {x: Fl(np.asarray(tab[x]), np.asarray(tab[rw.inv_name(x)])) for x in tab}
            normsF = rw.letter_norms(tabF)
        ws = words if alphabet is None else None
        if ws is None:
            ws = [(), (alphabet[0],), (alphabet[1],)]
            for _ in range(3):
                ws.append(rw.random_word(rng, alphabet, int(rng.integers(2, 7)), cancel=0.2))
            ww = ws[-1]
            ws += [ww[:1], ww[1:]]
        for j, tokens in enumerate(ws):
            route = routes[j % len(routes)]
            case = dict(base, derived=label, word="".join(tokens), route=route)
            run.current_case = case
            try:
                M = lib_eval(sigma, tokens, route)
            except Exception as e:
                mon.fail("derived/exception:%s/%s-evaluate" % (type(e).__name__, label),
                         "evaluating %s of the representation raised %s: %s"
                         % (label, type(e).__name__, str(e)[:120]), case,
                         tb=traceback.format_exc())
                return sigma
            if wordmap is not None:
                sub = wordmap(tokens)
                ref = rho(sub)
                sc = rw.scale(sub, rw.letter_norms(tab))
            elif by_letters:
                # F(rho(w)) itself is ill-conditioned to evaluate (determinants of
                # long products): F being a homomorphism, use prod F(letters)
                ref = rw.evaluate(tokens, tabF, np.asarray(next(iter(tabF.values()))).shape[-1])
                sc = rw.scale(tokens, normsF)
            else:
                ref = F(rho(tokens), rho_inv(tokens))
                sc = rw.scale(tokens, normsF)
            L = _numeric(M)
            if L.shape != np.asarray(ref).shape:
                mon.fail("derived/%s/shape" % label, "%s: value has shape %r, expected %r"
                         % (label, L.shape, np.asarray(ref).shape), case)
                return sigma
            r = float(np.max(np.abs(L - ref))) / sc if L.size else 0.0
            mon.judge(r, max(tol, _tol_for(L)), "derived/%s/%s" % (label, kind),
                      "%s: sigma(w) differs from F(rho(w))" % label, case)
            if expect_dtype is not None and len(tokens) > 0:
                mon.require(np.asarray(M).dtype == np.dtype(expect_dtype),
                            "derived/%s/dtype" % label,
                            "%s: values have dtype %s, expected %s"
                            % (label, np.asarray(M).dtype, np.dtype(expect_dtype)), case)
        run.note_class("derived", label, kind, n, k)
        return sigma

    def run_character(label, build, dim, chi, letter_scale, tol=1e-8):
        """basis-free: dimension, character identity; the product law of sigma
        is judged by the history checker (all pieces are evaluated)."""
        case = dict(base, derived=label)
        run.current_case = case
        try:
            sigma = build()
        except Exception as e:
            mon.fail("derived/exception:%s/%s" % (type(e).__name__, label),
                     "%s raised %s: %s" % (label, type(e).__name__, str(e)[:120]),
                     case, tb=traceback.format_exc())
            return None
        tag(sigma, label, kind)
        normsX = rw.letter_norms(tab)
        for j, tokens in enumerate(words):
            route = ("getitem", "elements", "list")[j % 3]
            case = dict(base, derived=label, word="".join(tokens), route=route)
            run.current_case = case
            try:
                M = _numeric(lib_eval(sigma, tokens, route))
            except Exception as e:
                mon.fail("derived/exception:%s/%s-evaluate" % (type(e).__name__, label),
                         "evaluating %s of the representation raised %s: %s"
                         % (label, type(e).__name__, str(e)[:120]), case,
                         tb=traceback.format_exc())
                return sigma
            if M.shape != (dim, dim):
                mon.fail("derived/%s/dimension" % label, "%s has dimension %r, expected %d"
                         % (label, M.shape, dim), case)
                return sigma
            want = chi(rho(tokens), rho_inv(tokens))
            sc = 1.0
            for t in tokens:
                sc *= letter_scale(normsX[t], normsX[rw.inv_name(t)])
            r = abs(np.trace(M) - want) / (max(dim, 1) * sc) if dim else 0.0
            mon.judge(float(r), tol, "derived/%s/character/%s" % (label, kind),
                      "%s: trace of sigma(w) differs from the character of rho(w)" % label, case)
        run.note_class("derived", label, kind, n, k)
        return sigma

    def run_form(label, build, dim, chi):
        """sigma = build() takes values in O(dim-1, 1) (form diag(-1,1,..,1)),
        identity component, with tr sigma(w) = chi(rho(w))."""
        case = dict(base, derived=label)
        run.current_case = case
        try:
            sigma = build()
        except Exception as e:
            mon.fail("derived/exception:%s/%s" % (type(e).__name__, label),
                     "%s raised %s: %s" % (label, type(e).__name__, str(e)[:120]),
                     case, tb=traceback.format_exc())
            return None
        tag(sigma, label, kind)
        J = lr.minkowski(dim)
        normsX = rw.letter_norms(tab)
        for j, tokens in enumerate(words):
            route = ("getitem", "elements", "list")[j % 3]
            case = dict(base, derived=label, word="".join(tokens), route=route)
            run.current_case = case
            try:
                M = _numeric(lib_eval(sigma, tokens, route))
            except Exception as e:
                mon.fail("derived/exception:%s/%s-evaluate" % (type(e).__name__, label),
                         "evaluating %s of the representation raised %s: %s"
                         % (label, type(e).__name__, str(e)[:120]), case,
                         tb=traceback.format_exc())
                return sigma
            if M.shape != (dim, dim):
                mon.fail("derived/%s/dimension" % label, "%s has dimension %r, expected %d"
                         % (label, M.shape, dim), case)
                return sigma
            sc = rw.scale(tokens, normsX) ** 2
            if np.iscomplexobj(M):
                mon.judge(float(np.max(np.abs(M.imag))) / sc, 1e-8,
                          "derived/%s/real/%s" % (label, kind),
                          "%s: sigma(w) has a non-zero imaginary part" % label, case)
                M = M.real
            mon.judge(float(np.max(np.abs(M.T @ J @ M - J))) / sc ** 2, 1e-8,
                      "derived/%s/form/%s" % (label, kind),
                      "%s: sigma(w) does not preserve diag(-1,1,..,1)" % label, case)
            mon.judge(float(abs(np.trace(M) - chi(rho(tokens)))) / (dim * sc), 1e-8,
                      "derived/%s/character/%s" % (label, kind),
                      "%s: trace of sigma(w) differs from the character of rho(w)" % label, case)
            mon.judge(float(max(0.0, 1.0 - M[0, 0])) / sc, 1e-8,
                      "derived/%s/identity-component/%s" % (label, kind),
                      "%s: sigma(w)[0,0] < 1 for a word in determinant-one generators"
                      % label, case)
        run.note_class("derived", label, kind, n, k)
        return sigma

    ident = lambda M, Mi: M
    # copy
    run_value("copy", lambda: Representation(rep), ident)
    run_value("change_base_ring(None)", lambda: rep.change_base_ring(None), ident)
    if k >= 2:
        sub = [names[0], names[0].upper()]
        run_value("copy(generator_names=subset)",
                  lambda: Representation(rep, generator_names=list(sub)), ident,
                  wordmap=lambda t: t, alphabet=list(sub))
    # conjugate
    C = rw.rand_cond(rng, n, 20.0, complex_=cplx)
    Ci = rw.inverse(C)
    cn = float(np.linalg.norm(C, 2) * np.linalg.norm(Ci, 2))
    conjF = lambda M, Mi: Ci @ M @ C
    run_value("conjugate", lambda: rep.conjugate(C.copy()), conjF)
    run_value("conjugate(inv_mat)", lambda: rep.conjugate(C.copy(), inv_mat=Ci.copy()), conjF)
    run_value("conjugate(unwrap=False)", lambda: rep.conjugate(C.copy(), unwrap=False), conjF)
    if kind in SPECIAL_KINDS:
        # the conjugating matrix itself made of exact special values
        Cs, Csi = special_matrix(rng, n, kind)
        run_value("conjugate(special)", lambda: rep.conjugate(Cs.copy()),
                  lambda M, Mi: Csi @ M @ Cs)
    # dual
    run_value("dual", lambda: rep.dual(), lambda M, Mi: Mi.T)
    # compose with homomorphisms written here (inputs of the program)
    run_value("compose(kron)", lambda: rep.compose(lambda M: np.kron(M, M)),
              lambda M, Mi: np.kron(M, M))
    run_value("compose(inverse-transpose,inv=)",
              lambda: rep.compose(lambda M, inv=None: (np.linalg.inv(M) if inv is None else inv).T),
              lambda M, Mi: Mi.T)
    run_value("compose(det*M)", lambda: rep.compose(lambda M: np.linalg.det(M) * M),
              lambda M, Mi: np.linalg.det(M) * M, by_letters=True)
    run_value("compose(kron,compute_inverses)",
              lambda: rep.compose(lambda M: np.kron(M, M), compute_inverses=True),
              lambda M, Mi: np.kron(M, M))
    if cplx:
        run_value("compose(conj)", lambda: rep.compose(np.conj), lambda M, Mi: np.conj(M))
        run_value("compose(realify)", lambda: rep.compose(realify), lambda M, Mi: realify(M))
        run_value("compose(lie.hom.slc_to_slr)", lambda: rep.compose(lie.hom.slc_to_slr()),
                  lambda M, Mi: realify(M))
    d = n + 1 + int(rng.integers(0, 2))
    run_value("compose(lie.hom.block_include)", lambda: rep.compose(lie.hom.block_include(d)),
              lambda M, Mi: block_diag1(M, d))
    run_value("compose(lie.hom.gln_adjoint)", lambda: rep.compose(lie.hom.gln_adjoint()),
              lambda M, Mi: np.kron(M, Mi.T))
    # the trivial inclusion (target dimension = source dimension: empty identity block)
    run_value("compose(lie.hom.block_include(same))",
              lambda: rep.compose(lie.hom.block_include(n)), ident)
    # tensor product with a second representation of the same free group
    n2 = 1 + int(rng.integers(0, 3))
    kind2 = ("real", "int", "complex")[int(rng.integers(0, 3))]
    # the second factor's generators are assigned in another order or through
    # their inverse names every other case: the factors are paired by generator
    # NAME, not by position in their dictionaries (seeded change C05-r3-2)
    order2 = (None, list(names)[::-1], [g.upper() for g in names],
              [g.upper() for g in names][::-1])[idx % 4]
    if order2 is not None and kind2 == "int" and any(not rw.is_lower(g) for g in order2):
        order2 = list(names)[::-1]
    rep2, tab2 = make_rep(rng, n2, names, kind2, order=order2)
    # (the tensor product needs both tables: done by hand)
    case = dict(base, derived="tensor_product", generators2={g: tab2[g] for g in names},
                assignment_order_of_second_factor=order2 or list(names))
    run.current_case = case
    try:
        T = rep.tensor_product(rep2)
    except Exception as e:
        T = None
        mon.fail("derived/exception:%s/tensor_product" % type(e).__name__,
                 "tensor_product raised %s: %s" % (type(e).__name__, str(e)[:120]), case,
                 tb=traceback.format_exc())
    if T is not None:
        tag(T, "tensor_product", kind)
        n1s, n2s = rw.letter_norms(tab), rw.letter_norms(tab2)
        for j, tokens in enumerate(words):
            route = ("getitem", "elements", "list")[j % 3]
            cw = dict(case, word="".join(tokens), route=route)
            run.current_case = cw
            M = _numeric(lib_eval(T, tokens, route))
            ref = np.kron(rw.evaluate(tokens, tab), rw.evaluate(tokens, tab2))
            if M.shape != ref.shape:
                mon.fail("derived/tensor_product/shape", "tensor product value has shape %r, "
                         "expected %r" % (M.shape, ref.shape), cw)
                break
            sc = rw.scale(tokens, n1s) * rw.scale(tokens, n2s)
            mon.judge(float(np.max(np.abs(M - ref))) / sc, 1e-8,
                      "derived/tensor_product/%s" % kind,
                      "tensor product: sigma(w) != kron(rho1(w), rho2(w))", cw)
        run.note_class("derived", "tensor_product", kind, kind2, n, n2)
    # adjoints
    run_value("gln_adjoint", lambda: rep.gln_adjoint(), lambda M, Mi: np.kron(M, Mi.T))
    run_character("sln_adjoint", lambda: rep.sln_adjoint(), n * n - 1,
                  lambda M, Mi: np.trace(M) * np.trace(Mi) - 1,
                  lambda a, b: max(1.0, a * b))
    run_character("symmetric_square", lambda: rep.symmetric_square(), n * (n + 1) // 2,
                  lambda M, Mi: 0.5 * (np.trace(M) ** 2 + np.trace(M @ M)),
                  lambda a, b: max(1.0, a * a))
    if kind == "int" and n >= 2:
        # exact-integer generators x adjoint: many unimodular generators, letter
        # images only (the true adjoint of a unimodular matrix is an integer matrix)
        for t in range(40):
            A, Ai = rw.rand_unimodular(rng, n)
            r1 = Representation()
            r1["a"] = A.copy()
            case = {"derived": "gln_adjoint", "kind": "int", "n": n, "generator a": A}
            run.current_case = case
            sc = float(np.linalg.norm(A.astype(float), 2) * np.linalg.norm(Ai.astype(float), 2))
            G = _numeric(tag(r1.gln_adjoint(), "gln_adjoint", "int")["a"])
            ref = np.kron(A, Ai.T).astype(float)
            if G.shape != ref.shape:
                mon.fail("derived/gln_adjoint/shape", "shape %r" % (G.shape,), case)
                break
            mon.judge(float(np.max(np.abs(G - ref))) / sc, 1e-8, "derived/gln_adjoint/int",
                      "gln_adjoint: sigma(a) differs from kron(rho(a), rho(a)^-T)", case)
            S = _numeric(tag(r1.sln_adjoint(), "sln_adjoint", "int")["a"])
            want = float(np.trace(A) * np.trace(Ai) - 1)
            mon.judge(abs(float(np.trace(S)) - want) / (n * n * sc), 1e-8,
                      "derived/sln_adjoint/character/int",
                      "sln_adjoint: trace of sigma(a) differs from tr rho(a) tr rho(a)^-1 - 1",
                      dict(case, derived="sln_adjoint"))
        run.note_class("derived", "adjoint-int-sweep", n)
    # subgroup of an exact-integer representation through words with inverse
    # letters, and of a representation whose generators have mixed dtype (seeded
    # change C05-r2-3: subgroup images cast to the parent's dtype attribute)
    if kind == "int":
        from geometry_tools.representation import Representation
        for t in range(30):
            A, Ai = rw.rand_unimodular(rng, n)
            B, Bi = rw.rand_unimodular(rng, n)
            r1 = Representation()
            r1["a"] = A.copy()
            r1["b"] = B.copy()
            case = {"derived": "subgroup", "kind": "int", "n": n, "generator a": A, "generator b": B}
            run.current_case = case
            try:
                sub = tag(r1.subgroup(["A", "aB"]), "subgroup", "int")
                Ga, Gb = _numeric(sub["a"]), _numeric(sub["b"])
            except Exception as e:
                mon.fail("derived/exception:%s/subgroup/int" % type(e).__name__,
                         "subgroup(['A','aB']) of an integer representation raised %s: %s"
                         % (type(e).__name__, str(e)[:100]), case, tb=traceback.format_exc())
                break
            sc = float(np.linalg.norm(A.astype(float), 2) * np.linalg.norm(Bi.astype(float), 2)
                       * max(1.0, np.linalg.norm(Ai.astype(float), 2)))
            err = max(float(np.max(np.abs(Ga - Ai))), float(np.max(np.abs(Gb - (A @ Bi)))))
            mon.judge(err / sc, 1e-8, "derived/subgroup/int/inverse-letters",
                      "subgroup(['A','aB']): images differ from rho(a)^-1, rho(a)rho(b)^-1", case)
        run.note_class("derived", "subgroup-int-sweep", n)
    if kind == "complex" and len(names) >= 2:
        from geometry_tools.representation import Representation
        r2_ = Representation()
        first, lastg = names[0], names[-1]
        Mc = np.asarray(tab[first]).astype(complex)
        Mr = np.real(np.asarray(tab[lastg])) + 0.0
        if abs(np.linalg.det(Mr)) > 1e-3 and np.max(np.abs(np.imag(Mc))) > 1e-3:
            r2_[first] = Mc.copy()
            r2_[lastg] = Mr.copy()          # the real generator is assigned last
            case = {"derived": "subgroup", "kind": "complex-then-real", "n": n}
            run.current_case = case
            w = first + lastg
            try:
                got = _numeric(tag(r2_.subgroup([w]), "subgroup", "mixed")["a"])
                ref = Mc @ Mr
                mon.judge(float(np.max(np.abs(got - ref))) / max(1.0, float(np.linalg.norm(ref, 2))),
                          1e-8, "derived/subgroup/mixed-dtype",
                          "subgroup image of a complex-then-real representation differs from the "
                          "product of the generators", case)
            except Exception as e:
                mon.fail("derived/exception:%s/subgroup/mixed-dtype" % type(e).__name__,
                         "subgroup raised %s: %s" % (type(e).__name__, str(e)[:100]), case,
                         tb=traceback.format_exc())
    # subgroup
    gw = [rw.random_word(rng, letters, int(rng.integers(1, 5))) for _ in range(2)]
    sub_names = ["a", "b"]
    images = {"a": gw[0], "b": gw[1]}
    run_value("subgroup(list)", lambda: rep.subgroup(["".join(x) for x in gw]), None,
              wordmap=lambda t: subst(t, images), alphabet=rw.alphabet(sub_names))
    images2 = {"x": gw[0], "y": gw[1]}
    run_value("subgroup(dict)",
              lambda: rep.subgroup({"x": "".join(gw[0]), "y": "".join(gw[1])}), None,
              wordmap=lambda t: subst(t, images2), alphabet=rw.alphabet(["x", "y"]))
    images3 = {"p": gw[0], "q": gw[1]}
    run_value("subgroup(generator_names)",
              lambda: rep.subgroup(["".join(x) for x in gw], generator_names=["p", "q"]), None,
              wordmap=lambda t: subst(t, images3), alphabet=rw.alphabet(["p", "q"]))
    run_value("subgroup(compute_inverse=False)",
              lambda: rep.subgroup(["".join(x) for x in gw], compute_inverse=False), None,
              wordmap=lambda t: subst(t, images), alphabet=rw.alphabet(sub_names))
    # the maps of lie.hom defined on 2x2 matrices
    if n == 2:
        # Sym^(m-1) is multiplicative on all of M(2): no determinant condition.
        # Reference: polynomial multiplication (lie_ref), letter by letter.
        for m in (1, 2, 3, 4, 5, 6):
            run_value("compose(lie.hom.sl2_irrep(%d))" % m,
                      lambda: rep.compose(lie.hom.sl2_irrep(m)), None,
                      Fletter=lambda M, Mi: lr.sl2_irrep_ref(M, m), by_letters=True)
        run_value("compose(lie.hom.sl2_irrep(3),compute_inverses)",
                  lambda: rep.compose(lie.hom.sl2_irrep(3), compute_inverses=True), None,
                  Fletter=lambda M, Mi: lr.sl2_irrep_ref(M, 3), by_letters=True)
        det_one = True
        for g in names:
            G = np.asarray(tab[g], dtype=complex)
            det_one = det_one and abs(G[0, 0] * G[1, 1] - G[0, 1] * G[1, 0] - 1) <= 1e-12
        # the exceptional isomorphisms are stated for determinant one; judged
        # basis-free: preserved form, character, identity component (and the
        # product law through the history checker: all pieces are evaluated)
        if det_one and not cplx:
            run_form("compose(lie.hom.sl2_to_so21)",
                     lambda: rep.compose(lie.hom.sl2_to_so21()), 3,
                     lambda M: np.trace(M) ** 2 - 1)
        elif det_one and cplx:
            run_form("compose(lie.hom.sl2c_to_so31)",
                     lambda: rep.compose(lie.hom.sl2c_to_so31()), 4,
                     lambda M: abs(np.trace(M)) ** 2)
        else:
            mon.skip("sl2_to_so21 / sl2c_to_so31: a generator is not of determinant one")
    # dtype changes
    if not cplx:
        run_value("astype(complex)", lambda: rep.astype(complex),
                  lambda M, Mi: M.astype(complex), expect_dtype=complex)
        if not intk:
            run_value("astype(float32)", lambda: rep.astype(np.float32),
                      lambda M, Mi: M, expect_dtype=np.float32, tol=1e-3)
        else:
            run_value("astype(float)", lambda: rep.astype(float), ident, expect_dtype=float)
    else:
        run_value("astype(complex64)", lambda: rep.astype(np.complex64),
                  lambda M, Mi: M, expect_dtype=np.complex64, tol=1e-3)
    flush_history(run)
    if idx < 2:
        run.sample({"workload": workload, "kind": kind, "n": n,
                    "word": "".join(words[4]), "a": tab["a"]})


# ---------------------------------------------------------------------------
# W: chains of two derivations
#
# A derived representation is itself a representation: everything can be
# derived from it again, and the second-level object must still send each word
# to the corresponding function of the ORIGINAL image.  The first step may
# change the field (real -> complex by conjugating with a complex matrix,
# composing with a complex-valued map, astype; complex -> real by realification;
# integer -> float by inversion) or the dimension, and the second step starts
# from whatever the first one recorded about itself (dtype, dimension, base
# ring, names).  (Seeded change C05-r6-1: _compose recording the parent's dtype
# on the composed representation -- images of the first level stay right, but
# gln_adjoint() / sln_adjoint() of it allocate real arrays and drop the
# imaginary parts.)

CHAIN_VALUE = [
    "conjugate(complex)", "copy", "compose(complex-valued)", "dual", "astype(complex)",
    "conjugate(real)", "compose(realify)", "gln_adjoint", "compose(kron)",
    "conjugate(complex,inv_mat)", "compose(identity)", "compose(lie.hom.slc_to_slr)",
    "tensor_product(self)", "compose(inverse-transpose,inv=)", "compose(det*M)",
    "compose(conj)", "astype(float)", "change_base_ring(None)",
    "compose(lie.hom.gln_adjoint)", "compose(lie.hom.block_include)",
    "tensor_product(other-field)", "subgroup", "compose(kron,compute_inverses)",
    "compose(real-part)",
]
CHAIN_CHARACTER = ["sln_adjoint", "symmetric_square", "compose(lie.hom.sln_adjoint)"]
_CHAIN_GROWS = {"gln_adjoint", "compose(kron)", "tensor_product(self)",
                "compose(lie.hom.gln_adjoint)", "tensor_product(other-field)",
                "compose(kron,compute_inverses)", "sln_adjoint", "symmetric_square",
                "compose(lie.hom.sln_adjoint)", "compose(realify)",
                "compose(lie.hom.slc_to_slr)"}


def _field(T):
    kinds = set(np.asarray(v).dtype.kind for v in T.values())
    return "complex" if "c" in kinds else "float" if "f" in kinds else "int"


def _chain_step(which, R, T, rng, names):
    """one value-kind derivation: -> (S, TS) or None when it does not apply to
    this representation.  T / TS: {letter: matrix}, inverse letters included;
    TS is computed from T letter by letter (every map here is a homomorphism)."""
    from geometry_tools.representation import Representation
    from geometry_tools import lie
    dim = np.asarray(next(iter(T.values()))).shape[-1]
    fld = _field(T)
    inv = rw.inv_name
    arr = {x: np.asarray(T[x]) for x in T}
    fl = {x: (arr[x] if arr[x].dtype.kind in "fc" else arr[x].astype(float)) for x in T}

    def each(f):
        return {x: f(fl[x], fl[inv(x)]) for x in T}

    if which == "copy":
        return Representation(R), dict(arr)
    if which in ("conjugate(real)", "conjugate(complex)", "conjugate(complex,inv_mat)",
                 "compose(complex-valued)"):
        C = rw.rand_cond(rng, dim, 10.0, complex_=(which != "conjugate(real)"))
        Ci = rw.inverse(C)
        if which == "conjugate(complex,inv_mat)":
            S = R.conjugate(C.copy(), inv_mat=Ci.copy())
        elif which == "compose(complex-valued)":
            S = R.compose(lambda M: Ci @ M @ C)
        else:
            S = R.conjugate(C.copy())
        return S, each(lambda M, Mi: Ci @ M @ C)
    if which == "dual":
        return R.dual(), each(lambda M, Mi: Mi.T)
    if which == "compose(identity)":
        return R.compose(lambda M: M.copy()), dict(arr)
    if which == "change_base_ring(None)":
        return R.change_base_ring(None), dict(arr)
    if which == "astype(complex)":
        if fld == "complex":
            return None
        return R.astype(complex), each(lambda M, Mi: M.astype(complex))
    if which == "astype(float)":
        if fld != "int":
            return None
        return R.astype(float), dict(fl)
    if which == "compose(real-part)":
        # a homomorphism on matrices with real entries only: the complex-dtype
        # copy of a real representation brought back
        if fld != "complex" or any(np.max(np.abs(arr[x].imag)) > 0 for x in T):
            return None
        return R.compose(lambda M: np.real(M).copy()), each(lambda M, Mi: np.real(M))
    if which == "compose(conj)":
        return R.compose(np.conj), each(lambda M, Mi: np.conj(M))
    if which == "compose(realify)":
        return R.compose(realify), each(lambda M, Mi: realify(M))
    if which == "compose(lie.hom.slc_to_slr)":
        if fld != "complex":
            return None
        return R.compose(lie.hom.slc_to_slr()), each(lambda M, Mi: realify(M))
    if which == "compose(kron)":
        return R.compose(lambda M: np.kron(M, M)), each(lambda M, Mi: np.kron(M, M))
    if which == "compose(kron,compute_inverses)":
        return (R.compose(lambda M: np.kron(M, M), compute_inverses=True),
                each(lambda M, Mi: np.kron(M, M)))
    if which == "compose(inverse-transpose,inv=)":
        return (R.compose(lambda M, inv=None: (np.linalg.inv(M) if inv is None else inv).T),
                each(lambda M, Mi: Mi.T))
    if which == "compose(det*M)":
        return (R.compose(lambda M: np.linalg.det(M) * M),
                each(lambda M, Mi: np.linalg.det(M) * M))
    if which == "gln_adjoint":
        return R.gln_adjoint(), each(lambda M, Mi: np.kron(M, Mi.T))
    if which == "compose(lie.hom.gln_adjoint)":
        return R.compose(lie.hom.gln_adjoint()), each(lambda M, Mi: np.kron(M, Mi.T))
    if which == "compose(lie.hom.block_include)":
        d = dim + 1 + int(rng.integers(0, 2))
        return R.compose(lie.hom.block_include(d)), each(lambda M, Mi: block_diag1(M, d))
    if which == "tensor_product(self)":
        return R.tensor_product(R), each(lambda M, Mi: np.kron(M, M))
    if which == "tensor_product(other-field)":
        # second factor over the other field (a real representation tensored
        # with a complex one and conversely)
        n2 = 1 + int(rng.integers(0, 2))
        other, tab2 = make_rep(rng, n2, names, "real" if fld == "complex" else "complex")
        return R.tensor_product(other), {x: np.kron(fl[x], np.asarray(tab2[x])) for x in T}
    if which == "subgroup":
        letters = sorted(T)
        imgs = {g: rw.random_word(rng, letters, int(rng.integers(1, 4))) for g in names}
        S = R.subgroup(["".join(imgs[g]) for g in names], generator_names=list(names))
        TS = {}
        for g in names:
            TS[g] = rw.evaluate(imgs[g], fl, dim)
            TS[inv(g)] = rw.evaluate(rw.formal_inverse(imgs[g]), fl, dim)
        return S, TS
    raise ValueError(which)


def _chain_character(which, R):
    """terminal (basis-free) kinds: -> (S, dim(n), chi(M, Mi), letter scale)."""
    from geometry_tools import lie
    if which == "sln_adjoint":
        return (R.sln_adjoint(), lambda n: n * n - 1,
                lambda M, Mi: np.trace(M) * np.trace(Mi) - 1, lambda a, b: max(1.0, a * b))
    if which == "compose(lie.hom.sln_adjoint)":
        return (R.compose(lie.hom.sln_adjoint()), lambda n: n * n - 1,
                lambda M, Mi: np.trace(M) * np.trace(Mi) - 1, lambda a, b: max(1.0, a * b))
    if which == "symmetric_square":
        return (R.symmetric_square(), lambda n: n * (n + 1) // 2,
                lambda M, Mi: 0.5 * (np.trace(M) ** 2 + np.trace(M @ M)),
                lambda a, b: max(1.0, a * a))
    raise ValueError(which)


def wl_chains(run, rng, idx):
    mon = run.monitor("chains")
    kind = ("real", "complex", "int")[idx % 3]
    first = CHAIN_VALUE[(idx // 3) % len(CHAIN_VALUE)]
    n = (2, 3, 1, 2)[(idx // 3 + idx) % 4]
    k = 1 + int(rng.integers(0, 2))
    names = list("ab"[:k])
    letters = rw.alphabet(names)
    rep, tab = make_rep(rng, n, names, kind)
    base = {"kind": kind, "n": n, "generators": {g: tab[g] for g in names}, "first": first}
    maxlen = 4 if kind == "int" else 6

    def some_words():
        ws = [(), (letters[0],), (letters[1],)]
        for _ in range(3):
            ws.append(rw.random_word(rng, letters, int(rng.integers(2, maxlen + 1)), cancel=0.2))
        w = ws[-1]
        return ws + [w[:1], w[1:]]

    def build(which, R, T, level, keytail):
        case = dict(base, level=level, derive=which)
        run.current_case = case
        try:
            return _chain_step(which, R, T, rng, names)
        except Exception as e:
            mon.fail("chains/exception:%s/%s/%s" % (type(e).__name__, which, keytail),
                     "level-%d derivation %s raised %s: %s"
                     % (level, which, type(e).__name__, str(e)[:120]), case,
                     tb=traceback.format_exc())
            return False

    def check_values(S, TS, label, key, level, second=None):
        nT = rw.letter_norms(TS)
        dimS = np.asarray(next(iter(TS.values()))).shape[-1]
        for j, tokens in enumerate(some_words()):
            route = ("getitem", "elements", "list")[j % 3]
            case = dict(base, level=level, second=second, word="".join(tokens), route=route)
            run.current_case = case
            try:
                L = _numeric(lib_eval(S, tokens, route))
            except Exception as e:
                mon.fail("chains/exception:%s/evaluate/%s" % (type(e).__name__, key),
                         "evaluating the %s representation raised %s: %s"
                         % (label, type(e).__name__, str(e)[:120]), case,
                         tb=traceback.format_exc())
                return
            ref = rw.evaluate(tokens, TS, dimS)
            if L.shape != ref.shape:
                mon.fail("chains/shape/" + key, "%s: value has shape %r, expected %r"
                         % (label, L.shape, ref.shape), case)
                return
            r = float(np.max(np.abs(L - ref))) / rw.scale(tokens, nT) if L.size else 0.0
            mon.judge(r, max(1e-8, _tol_for(L)), "chains/value/" + key,
                      "%s: sigma(w) differs from the function of the original image "
                      "(product of the letters' images)" % label, case)

    # ---- first level
    out = build(first, rep, tab, 1, "level1/%s" % kind)
    if out is False:
        return
    if out is None:
        first = "copy"
        out = build("copy", rep, tab, 1, "level1/%s" % kind)
        if out is False:
            return
    S1, T1 = out
    tag(S1, "chains", first)
    trans = "%s>%s" % (_field(tab), _field(T1))
    check_values(S1, T1, first, "%s/level1/%s" % (first, kind), 1)
    dim1 = np.asarray(next(iter(T1.values()))).shape[-1]
    n1 = rw.letter_norms(T1)
    if any(np.asarray(M).dtype == object for M in S1.generators.values()):
        # lie.gln_adjoint / sln_adjoint called without dtype= hand a *function*
        # to utils.check_type as `like` and return object-dtype arrays of Python
        # numbers (DESIGN.md C17: a diagnostic, not judged).  The values of such
        # a representation are right (checked above), but numpy's linalg refuses
        # object arrays, so whatever inverts its generators (dual, subgroup,
        # tensor_product, compute_inverses ...) raises UFuncTypeError: recorded
        # as a diagnostic (witness findings/C05-object-dtype-adjoint-then-derive.json),
        # the second level is not judged for this first level.
        dg = run.monitor("chains-object-dtype", deciding=False)
        try:
            S1.dual()
            dg.diag("dual() of the object-dtype %s representation runs" % first)
        except Exception as e:
            dg.diag("dual() of the object-dtype %s representation raises %s"
                    % (first, type(e).__name__))
        mon.skip("first-level representation has object-dtype generators (%s)" % first)
        flush_history(run)
        return
    # ---- every second-level derivation from it
    for second in CHAIN_VALUE + CHAIN_CHARACTER:
        if second in _CHAIN_GROWS and dim1 > 4:
            continue
        keytail = "%s/first:%s/%s" % (second, trans, kind)
        if second in CHAIN_CHARACTER:
            case = dict(base, level=2, second=second)
            run.current_case = case
            try:
                S2, dimf, chi, lsc = _chain_character(second, S1)
            except Exception as e:
                mon.fail("chains/exception:%s/%s" % (type(e).__name__, keytail),
                         "%s of the %s representation raised %s: %s"
                         % (second, first, type(e).__name__, str(e)[:120]), case,
                         tb=traceback.format_exc())
                continue
            tag(S2, "chains", first, second)
            d2 = dimf(dim1)
            for j, tokens in enumerate(some_words()):
                route = ("getitem", "elements", "list")[j % 3]
                case = dict(base, level=2, second=second, word="".join(tokens), route=route)
                run.current_case = case
                try:
                    M = _numeric(lib_eval(S2, tokens, route))
                except Exception as e:
                    mon.fail("chains/exception:%s/evaluate/%s" % (type(e).__name__, keytail),
                             "evaluating %s of the %s representation raised %s: %s"
                             % (second, first, type(e).__name__, str(e)[:120]), case,
                             tb=traceback.format_exc())
                    break
                if M.shape != (d2, d2):
                    mon.fail("chains/dimension/" + keytail, "%s of %s has dimension %r, "
                             "expected %d" % (second, first, M.shape, d2), case)
                    break
                want = chi(rw.evaluate(tokens, T1, dim1),
                           rw.evaluate(rw.formal_inverse(tokens), T1, dim1))
                sc = 1.0
                for t in tokens:
                    sc *= lsc(n1[t], n1[rw.inv_name(t)])
                r = abs(np.trace(M) - want) / (max(d2, 1) * sc) if d2 else 0.0
                mon.judge(float(r), 1e-8, "chains/character/" + keytail,
                          "%s of the %s representation: trace of sigma(w) differs from the "
                          "character of the first-level image" % (second, first), case)
            run.note_class("chains", kind, first, second, n)
            continue
        out = build(second, S1, T1, 2, keytail)
        if out is False or out is None:
            continue
        S2, T2 = out
        tag(S2, "chains", first, second)
        check_values(S2, T2, "%s of %s" % (second, first), keytail, 2, second)
        run.note_class("chains", kind, first, second, n)
    flush_history(run)
    if idx < 2:
        run.sample({"workload": "chains", "kind": kind, "n": n, "first": first})


# ---------------------------------------------------------------------------
# W: projective / hyperbolic wrapping


def proj_residual(A, B):
    """relative distance of A from the line spanned by B (one matrix)."""
    a = np.asarray(A).astype(complex).ravel()
    b = np.asarray(B).astype(complex).ravel()
    nb = np.vdot(b, b).real
    na = np.sqrt(np.vdot(a, a).real)
    if nb == 0 or na == 0:
        return float("inf")
    lam = np.vdot(b, a) / nb
    if abs(lam) * np.sqrt(nb) < 1e-3 * na:
        return float("inf")
    return float(np.linalg.norm(a - lam * b) / na)


def wl_wrapping(run, rng, idx):
    from geometry_tools.representation import Representation
    from geometry_tools import projective, hyperbolic
    mon = run.monitor("wrapping")
    which = ("projective-copy", "projective-set", "hyperbolic-set", "hyperbolic-copy")[idx % 4]
    k = 1 + int(rng.integers(0, 3))
    names = list("abc"[:k])
    letters = rw.alphabet(names)
    hyp = which.startswith("hyperbolic")
    d = 1 + (idx // 4) % 4          # hyperbolic dimension / projective dimension
    n = d + 1
    gens = {}
    for g in names:
        gens[g] = rh.rand_isometry(rng, d, tmax=1.0) if hyp else rw.rand_cond(rng, n, 30.0)
    tab = rw.table(gens)
    norms = rw.letter_norms(tab)
    Wrap = hyperbolic.Isometry if hyp else projective.Transformation
    RepCls = hyperbolic.HyperbolicRepresentation if hyp else projective.ProjectiveRepresentation
    if which.endswith("copy"):
        plain = Representation()
        for g in names:
            plain[g] = gens[g].copy()
        rep = RepCls(plain)
    else:
        rep = RepCls()
        for g in names:
            rep[g] = Wrap(gens[g].copy(), column_vectors=True)
    tag(rep, "wrapping", which)
    words = [(), (letters[0],), (letters[1],)]
    for _ in range(4):
        words.append(rw.random_word(rng, letters, int(rng.integers(2, 9)), cancel=0.2))
    w = words[-1]
    words += [w[:1], w[1:]]
    v = rng.normal(size=n)
    if hyp:
        v = np.concatenate([[1.0], rh.rand_ball(rng, d, rmax=0.8)])
    Pt = hyperbolic.Point if hyp else projective.Point
    base = {"which": which, "dimension": d, "generators": {g: gens[g] for g in names}}

    def one(T, tokens, route):
        case = dict(base, word="".join(tokens), route=route)
        run.current_case = case
        if not isinstance(T, Wrap):
            return mon.fail("wrapping/%s/type" % which, "value is a %s, expected %s"
                            % (type(T).__name__, Wrap.__name__), case)
        ref = rw.evaluate(tokens, tab)
        sc = rw.scale(tokens, norms) / max(np.max(np.abs(ref)), 1e-300)
        M = np.asarray(T.matrix)
        if M.shape != ref.shape:
            return mon.fail("wrapping/%s/shape" % which, "matrix has shape %r" % (M.shape,), case)
        mon.judge(proj_residual(M.T, ref) / max(sc, 1.0), 1e-8,
                  "wrapping/%s/matrix" % which,
                  "the transformation's column-vector matrix is not a multiple of rho(w)", case)
        img = np.asarray((T @ Pt(v.copy())).proj_data).ravel()
        want = ref @ v
        mon.judge(proj_residual(img, want) / max(sc, 1.0), 1e-8,
                  "wrapping/%s/action" % which,
                  "T_w applied to the point [v] is not [rho(w) v]", case)

    for j, tokens in enumerate(words):
        route = ("getitem", "element", "list")[j % 3]
        one(lib_eval(rep, tokens, route), tokens, route)
    # composite results
    strs = ["".join(t) for t in words]
    comp = rep.elements(strs)
    alt = (rep.isometries(strs) if hyp else rep.transformations(strs))
    for name, C in (("elements", comp), ("isometries" if hyp else "transformations", alt)):
        case = dict(base, route=name, words=strs)
        run.current_case = case
        if not isinstance(C, Wrap) or np.asarray(C.matrix).shape != (len(words), n, n):
            mon.fail("wrapping/%s/%s-shape" % (which, name),
                     "%s(words) is not a composite %s of %d matrices"
                     % (name, Wrap.__name__, len(words)), case)
            continue
        for tokens, M in zip(words, np.asarray(C.matrix)):
            ref = rw.evaluate(tokens, tab)
            sc = rw.scale(tokens, norms) / max(np.max(np.abs(ref)), 1e-300)
            mon.judge(proj_residual(M.T, ref) / max(sc, 1.0), 1e-8,
                      "wrapping/%s/%s-matrix" % (which, name),
                      "unit of the composite is not a multiple of rho(w)",
                      dict(case, word="".join(tokens)))
    # derived representations of wrapped ones keep the convention
    for label, build, F in (
            ("dual", lambda: rep.dual(), lambda M, Mi: Mi.T),
            ("conjugate(Transformation)",
             lambda: rep.conjugate(Wrap(gens[names[0]].copy(), column_vectors=True)),
             lambda M, Mi: tab[names[0].upper()] @ M @ tab[names[0]])):
        S = build()
        for tokens in words[3:6]:
            case = dict(base, derived=label, word="".join(tokens))
            run.current_case = case
            T = S["".join(tokens)]
            ref = F(rw.evaluate(tokens, tab), rw.evaluate(rw.formal_inverse(tokens), tab))
            sc = (rw.scale(tokens, norms) * rw.scale(rw.formal_inverse(tokens), norms)
                  * norms[names[0]] * norms[names[0].upper()])
            sc = sc / max(np.max(np.abs(ref)), 1e-300)
            mon.judge(proj_residual(np.asarray(T.matrix).T, ref) / max(sc, 1.0), 1e-8,
                      "wrapping/%s/%s" % (which, label),
                      "%s of a wrapped representation: matrix is not a multiple of F(rho(w))"
                      % label, case)
    # compose with a homomorphism given on wrapped objects
    g0 = names[0]
    Cw = Wrap(gens[g0].copy(), column_vectors=True)
    Cwi = Wrap(tab[g0.upper()].copy(), column_vectors=True)
    if not hyp:
        variants = (
            ("compose(hom_out_wrapped)",
             lambda: rep.compose(lambda M: Cwi @ Wrap(M, column_vectors=True) @ Cw,
                                 hom_out_wrapped=True)),
            ("compose(hom_in_wrapped,hom_out_wrapped)",
             lambda: rep.compose(lambda T: Cwi @ T @ Cw, hom_in_wrapped=True,
                                 hom_out_wrapped=True)))
        for label, build in variants:
            case = dict(base, derived=label)
            run.current_case = case
            try:
                S = build()
            except Exception as e:
                mon.fail("wrapping/%s/exception:%s" % (label, type(e).__name__),
                         "%s with a homomorphism of Transformation objects raised %s: %s"
                         % (label, type(e).__name__, str(e)[:100]), case,
                         tb=traceback.format_exc())
                continue
            for tokens in words[3:6]:
                case = dict(base, derived=label, word="".join(tokens))
                run.current_case = case
                T = S["".join(tokens)]
                ref = tab[g0.upper()] @ rw.evaluate(tokens, tab) @ tab[g0]
                sc = rw.scale(tokens, norms) * norms[g0] * norms[g0.upper()]
                sc = sc / max(np.max(np.abs(ref)), 1e-300)
                mon.judge(proj_residual(np.asarray(T.matrix).T, ref) / max(sc, 1.0), 1e-8,
                          "wrapping/%s/%s" % (which, label),
                          "compose with a homomorphism of Transformation objects: matrix is "
                          "not a multiple of C^-1 rho(w) C", case)
    if hyp:
        for label, S in (("compose(identity)", rep.compose(lambda M: M)),
                         ("gln_adjoint", rep.gln_adjoint())):
            case = dict(base, derived=label)
            run.current_case = case
            mon.require(isinstance(S, projective.ProjectiveRepresentation),
                        "wrapping/hyperbolic/%s-class" % label,
                        "%s of a HyperbolicRepresentation is a %s" % (label, type(S).__name__),
                        case)
            for tokens in words[3:6]:
                T = S["".join(tokens)]
                M = rw.evaluate(tokens, tab)
                Mi = rw.evaluate(rw.formal_inverse(tokens), tab)
                ref = M if label.startswith("compose") else np.kron(M, Mi.T)
                sc = rw.scale(tokens, norms) * rw.scale(rw.formal_inverse(tokens), norms)
                sc = sc / max(np.max(np.abs(ref)), 1e-300)
                mon.judge(proj_residual(np.asarray(T.matrix).T, ref) / max(sc, 1.0), 1e-8,
                          "wrapping/hyperbolic/%s" % label,
                          "%s: matrix is not a multiple of F(rho(w))" % label,
                          dict(case, word="".join(tokens)))
    run.note_class("wrapping", which, d, k)
    flush_history(run)
    if idx < 2:
        run.sample({"workload": "wrapping", "which": which, "dimension": d,
                    "a": gens["a"]})


# ---------------------------------------------------------------------------
# W: Fox calculus


def relation_rep(rng, which, n):
    """representations that satisfy their relations by construction.
    -> (library rep, table, relations as token tuples)."""
    from geometry_tools.representation import Representation
    if which == "surface":
        from geometry_tools.examples import reps
        rep = reps.surface_rep_I()
        gens = {g: np.array(rep.generators[g], dtype=float) for g in "abcd"}
        return rep, rw.table(gens), [tuple("adCbADcB")]
    if which == "commuting":
        C = rw.rand_cond(rng, n, 10.0)
        Ci = rw.inverse(C)
        da = np.exp(rng.uniform(-0.7, 0.7, size=n))
        db = np.exp(rng.uniform(-0.7, 0.7, size=n))
        gens = {"a": C @ np.diag(da) @ Ci, "b": C @ np.diag(db) @ Ci}
        rels = [tuple("abAB"), tuple("aBAb")]
    elif which == "rotation":
        kk = int(rng.integers(2, 7))
        nn = max(n, 2)
        R = np.eye(nn)
        t = 2 * np.pi * int(rng.integers(1, kk)) / kk
        R[:2, :2] = [[np.cos(t), -np.sin(t)], [np.sin(t), np.cos(t)]]
        C = rw.rand_cond(rng, nn, 10.0)
        gens = {"a": C @ R @ rw.inverse(C), "b": rw.rand_cond(rng, nn, 10.0)}
        rels = [tuple("a" * kk), tuple("b" + "a" * kk + "B")]
    elif which == "heisenberg":
        # integer Heisenberg group: [a,b] = c central
        a = np.array([[1, 1, 0], [0, 1, 0], [0, 0, 1]])
        b = np.array([[1, 0, 0], [0, 1, 1], [0, 0, 1]])
        c = np.array([[1, 0, 1], [0, 1, 0], [0, 0, 1]])
        gens = {"a": a, "b": b, "c": c}
        rels = [tuple("abABC"), tuple("acAC"), tuple("bcBC")]
    else:
        raise ValueError(which)
    rep = Representation(relations=["".join(r) for r in rels])
    for g, M in gens.items():
        rep[g] = np.array(M, copy=True)
    return rep, rw.table(gens), rels


def wl_fox(run, rng, idx):
    mon = run.monitor("fox")
    which = ("free", "commuting", "rotation", "surface", "heisenberg", "free")[idx % 6]
    n = 1 + (idx // 6) % 5
    kind = ("real", "complex", "int")[(idx // 2) % 3]
    if which == "free":
        k = 1 + int(rng.integers(0, 4))
        names = list("abcd"[:k])
        if idx % 2:
            # generators assigned in non-alphabetical order: the blocks of the
            # differential follow the same order as those of the coboundary
            # matrix, whatever it is (seeded change C05-r2-1)
            names = [names[i] for i in rng.permutation(k)]
        rep, tab = make_rep(rng, n, names, kind)
        rels = []
    else:
        rep, tab, rels = relation_rep(rng, which, n)
        names = sorted(g for g in tab if rw.is_lower(g))
        kind = which
    n = tab[names[0]].shape[-1]
    k = len(names)
    letters = rw.alphabet(names)
    norms = rw.letter_norms(tab)
    asym = [g for g in rep.generators if g == g.lower()]
    base = {"which": which, "kind": kind, "n": n,
            "generators": {g: tab[g] for g in names}}
    I = np.eye(n)
    words = [(letters[0],), (letters[1],), (letters[0], letters[1])]
    for _ in range(5):
        words.append(rw.random_word(rng, letters, int(rng.integers(2, 13)), cancel=0.25))
    words += list(rels)
    stack = np.concatenate([np.asarray(tab[g]).astype(complex) - I for g in asym], axis=0)
    for tokens in words:
        s = "".join(tokens)
        case = dict(base, word=s)
        run.current_case = case
        D = _numeric(rep.differential(s))
        if D.shape != (n, n * k):
            mon.fail("fox/differential-shape", "differential has shape %r, expected %r"
                     % (D.shape, (n, n * k)), case)
            continue
        # scale: every term of the Fox derivative is a prefix of the word
        sc = max(1.0, len(tokens)) * rw.scale(tokens, norms) * \
            max(max(norms[g] for g in names), 1.0)
        lhs = rw.evaluate(tokens, tab) - I
        mon.judge(float(np.max(np.abs(D @ stack - lhs))) / sc, 1e-8,
                  "fox/fundamental-formula/%s" % kind,
                  "rho(w) - I != sum_g D_g(w) (rho(g) - I)", case)
        for j, g in enumerate(asym):
            ref = rw.fox_matrix(tokens, g, tab)
            blk = D[:, j * n:(j + 1) * n]
            mon.judge(float(np.max(np.abs(blk - ref))) / sc, 1e-8,
                      "fox/derivative-value/%s" % kind,
                      "block of the differential differs from the image of the Fox derivative",
                      dict(case, generator=g))
            one = _numeric(rep.differential(s, generator=g))
            mon.judge(float(np.max(np.abs(one - ref))) / sc, 1e-8,
                      "fox/derivative-value(generator=)/%s" % kind,
                      "differential(word, generator=g) differs from the image of the Fox derivative",
                      dict(case, generator=g))
        run.note_class("fox", which, kind, n, k, len_bucket(len(tokens)))
    # utils.words at the level of words / the group ring (exact, discrete)
    from geometry_tools.utils import words as lw
    for tokens in words:
        s = "".join(tokens)
        case = dict(base, word=s)
        run.current_case = case
        mon.require(lw.simplify_word(s) == "".join(rw.free_reduce(tokens)),
                    "fox/simplify_word", "simplify_word(%r) = %r is not the free reduction %r"
                    % (s, lw.simplify_word(s), "".join(rw.free_reduce(tokens))), case)
        mon.require(lw.formal_inverse(s) == "".join(rw.formal_inverse(tokens)),
                    "fox/formal_inverse", "formal_inverse(%r) = %r" % (s, lw.formal_inverse(s)),
                    case)
        for g in names:
            got = {k: v for k, v in dict(lw.fox_word_derivative(g, s)).items() if v != 0}
            want = {}
            for coeff, prefix in rw.fox_terms(tokens, g):
                key = "".join(rw.free_reduce(prefix))
                want[key] = want.get(key, 0) + coeff
            want = {k: v for k, v in want.items() if v != 0}
            mon.require(got == want, "fox/group-ring-value",
                        "fox_word_derivative(%r, %r) = %r, expected %r in Z[F]"
                        % (g, s, got, want), dict(case, generator=g))
    # the empty word: D_g(empty) = 0
    case = dict(base, word="")
    run.current_case = case
    try:
        D0 = _numeric(rep.differential(""))
        mon.judge(float(np.max(np.abs(D0))) if D0.shape == (n, n * k) else float("inf"),
                  1e-12, "fox/empty-word/value",
                  "the differential of the empty word is not zero", case)
    except Exception as e:
        mon.fail("fox/empty-word/exception:%s" % type(e).__name__,
                 "differential('') raised %s: %s (the fundamental formula for the empty "
                 "word reads 0 = 0)" % (type(e).__name__, str(e)[:80]), case,
                 tb=traceback.format_exc())
    # differentials of several words stack vertically
    strs = ["".join(t) for t in words[:4]]
    Ds = _numeric(rep.differentials(strs))
    ref = np.concatenate([_numeric(rep.differential(s)) for s in strs], axis=0)
    mon.require(Ds.shape == ref.shape and bool(np.array_equal(Ds, ref)),
                "fox/differentials-stack",
                "differentials(words) is not the vertical stack of the differentials",
                dict(base, words=strs))
    # cocycle x coboundary for satisfied relations
    if rels:
        case = dict(base, relations=["".join(r) for r in rels])
        run.current_case = case
        resid = max(float(np.max(np.abs(rw.evaluate(r, tab) - I))) for r in rels)
        if resid > 1e-9:
            mon.skip("relations not satisfied by construction")
        else:
            Z = _numeric(rep.cocycle_matrix())
            B = _numeric(rep.coboundary_matrix())
            sc = max(rw.scale(r, norms) * len(r) for r in rels) * \
                max(max(norms[g] for g in names), 1.0)
            ok_shape = Z.shape == (n * len(rels), n * k) and B.shape == (n * k, n)
            if not ok_shape:
                mon.fail("fox/cocycle-coboundary/shape", "cocycle %r / coboundary %r shapes"
                         % (Z.shape, B.shape), case)
            else:
                mon.judge(float(np.max(np.abs(Z @ B))) / sc, 1e-8,
                          "fox/cocycle-coboundary/%s" % which,
                          "cocycle_matrix @ coboundary_matrix != 0 for satisfied relations", case)
                refB = np.concatenate([I - np.asarray(tab[g]).astype(complex) for g in asym], 0)
                mon.judge(min(float(np.max(np.abs(B - refB))), float(np.max(np.abs(B + refB)))),
                          1e-9, "fox/coboundary-value",
                          "coboundary matrix is not the stack of +-(I - rho(g))", case)
            run.note_class("fox-relations", which, n, k, len(rels))
    flush_history(run)
    if idx < 2:
        run.sample({"workload": "fox", "which": which, "n": n,
                    "word": "".join(words[4])})


def wl_fox_dense(run, rng, idx):
    """ALL words up to a bounded length: Fox derivatives in Z[F] against the
    closed form, and the fundamental formula for every word."""
    from geometry_tools.utils import words as lw
    mon = run.monitor("fox")
    k = (2, 1, 3, 2)[idx % 4]
    L = {1: 8, 2: 5, 3: 4}[k] if run.tier == "thorough" else {1: 7, 2: 4, 3: 3}[k]
    kind = ("real", "int", "complex")[(idx // 4) % 3]
    n = 1 + (idx // 2) % 4
    names = list("abc"[:k])
    letters = rw.alphabet(names)
    rep, tab = make_rep(rng, n, names, kind)
    norms = rw.letter_norms(tab)
    asym = [g for g in rep.generators if g == g.lower()]
    I = np.eye(n)
    stack = np.concatenate([np.asarray(tab[g]).astype(complex) - I for g in asym], axis=0)
    base = {"kind": kind, "n": n, "generators": {g: tab[g] for g in names}}
    gmax = max(max(norms[g] for g in letters), 1.0)
    for tokens in rw.all_words(letters, L):
        if not tokens:
            continue
        s = "".join(tokens)
        case = dict(base, word=s)
        run.current_case = case
        for g in names:
            got = {kk: v for kk, v in dict(lw.fox_word_derivative(g, s)).items() if v != 0}
            want = {}
            for coeff, prefix in rw.fox_terms(tokens, g):
                key = "".join(rw.free_reduce(prefix))
                want[key] = want.get(key, 0) + coeff
            want = {kk: v for kk, v in want.items() if v != 0}
            mon.require(got == want, "fox/group-ring-value",
                        "fox_word_derivative(%r, %r) = %r, expected %r in Z[F]"
                        % (g, s, got, want), dict(case, generator=g))
        D = _numeric(rep.differential(s))
        sc = len(tokens) * rw.scale(tokens, norms) * gmax
        lhs = rw.evaluate(tokens, tab) - I
        mon.judge(float(np.max(np.abs(D @ stack - lhs))) / sc if D.shape == (n, n * k)
                  else float("inf"), 1e-8, "fox/fundamental-formula/%s" % kind,
                  "rho(w) - I != sum_g D_g(w) (rho(g) - I)", case)
    run.note_class("fox-dense", kind, n, k, L)
    flush_history(run)


def wl_fox_multichar(run, rng, idx):
    """diagnostic only: Fox calculus with multi-character names (not judged)."""
    from geometry_tools.representation import Representation
    mon = run.monitor("fox-multichar", deciding=False)
    rep = Representation(parse_simple=False)
    A = rw.rand_cond(rng, 2, 10.0)
    B = rw.rand_cond(rng, 2, 10.0)
    rep["s1"] = A
    rep["s2"] = B
    try:
        D = _numeric(rep.differential("s1*s2"))
        lhs = A @ B - np.eye(2)
        rhs = D[:, :2] @ (A - np.eye(2)) + D[:, 2:] @ (B - np.eye(2))
        if np.max(np.abs(lhs - rhs)) > 1e-8:
            mon.diag("fundamental formula fails for multi-character names "
                     "(utils.words iterates over characters)")
        else:
            mon.diag("fundamental formula holds for multi-character names")
    except Exception as e:
        mon.diag("differential with multi-character names raises %s" % type(e).__name__)
    mon.skip("multi-character Fox calculus is outside the judged domain")
    del _log[:]


WORKLOADS = [
    Workload("dense-words", wl_dense, quick=24, thorough=960),
    Workload("random-words", wl_random, quick=150, thorough=9000),
    Workload("names", wl_names, quick=112, thorough=4480),
    Workload("reassign", wl_reassign, quick=100, thorough=6000),
    Workload("inverse-naming", wl_naming, quick=104, thorough=4160),
    Workload("derived", wl_derived, quick=50, thorough=3000),
    Workload("special-values", wl_special, quick=42, thorough=1680),
    Workload("chains", wl_chains, quick=72, thorough=2880),
    Workload("wrapping", wl_wrapping, quick=32, thorough=1600),
    Workload("fox", wl_fox, quick=72, thorough=4500),
    Workload("fox-dense", wl_fox_dense, quick=4, thorough=192),
    Workload("fox-multichar", wl_fox_multichar, quick=1, thorough=16),
]
